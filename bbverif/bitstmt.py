"""Statements and refinement by tests of the bit-provenance interpreter."""
import ast

from .astutil import unparse, dotted
from .bitcells import (Unsupported, Param, View, Bits, CU32, ModVal, XorVal, NegMask, Maybe, TableVal, Opaque, FuncValue, TOP, Record, Obj, ClassValue, BoundMethod, TableRef,
                       PCell, INF, decide_range, cmp_pred, points_pred, mod_pred, origbit_pred, interval_pred, intervals_pred)
from .bitexpr import CONSTS

FLIP = {ast.Lt: ast.Gt, ast.LtE: ast.GtE, ast.Gt: ast.Lt, ast.GtE: ast.LtE, ast.Eq: ast.Eq, ast.NotEq: ast.NotEq}
CATCH_ALL = {'Exception', 'BaseException'}


def handler_classes(h):
    """'all' or the set of exception class names a handler catches"""
    if h.type is None:
        return 'all'
    names = [h.type] if not isinstance(h.type, ast.Tuple) else list(h.type.elts)
    out = set()
    for n in names:
        d = dotted(n)
        if d is None:
            raise Unsupported('exception handler type {}'.format(unparse(h.type)))
        d = d.split('.')[-1]
        if d in CATCH_ALL:
            return 'all'
        out.add(d)
        if d == 'LookupError':
            out.update({'KeyError', 'IndexError'})
        if d == 'ArithmeticError':
            out.update({'ZeroDivisionError', 'OverflowError'})
    return out


class StmtMixin:
    # -- blocks -------------------------------------------------------------------------------------------------
    def exec_block(self, body, st):
        """Returns the state that falls through the block, or None.  `return` statements add (state, value) to the
        innermost call frame."""
        for s in body:
            if st is None or st.dead:
                return None
            st = self.exec_stmt(s, st)
        if st is None or st.dead:
            return None
        return st

    def exec_stmt(self, s, st):
        if isinstance(s, ast.Return):
            v = self.ev(s.value, st) if s.value is not None else None
            if st.dead:
                return None
            if not self.rets:
                raise Unsupported('return outside a function')
            self.rets[-1].append((st, v))
            return None
        if isinstance(s, ast.Expr) and isinstance(s.value, (ast.Yield, ast.YieldFrom)):
            if '<yields>' not in st.env:
                raise Unsupported('yield outside an inlined generator')
            v = self.ev(s.value.value, st) if s.value.value is not None else None
            if st.dead:
                return None
            if isinstance(s.value, ast.YieldFrom):
                if isinstance(v, range) and len(v) <= 4096:
                    v = list(v)
                if not isinstance(v, list):
                    raise Unsupported('yield from something that is not a folded sequence: {}'.format(unparse(s)))
                st.env['<yields>'] = list(st.env['<yields>']) + v
            else:
                st.env['<yields>'] = list(st.env['<yields>']) + [v]
            return st
        if isinstance(s, ast.Expr):
            if isinstance(s.value, ast.Constant):
                return st
            self.ev(s.value, st)
            return None if st.dead else st
        if isinstance(s, ast.Assign):
            v = self.ev(s.value, st)
            if st.dead:
                return None
            for t in s.targets:
                self.bind_target(t, v, st, s)
            return st
        if isinstance(s, ast.AnnAssign) and s.value is not None:
            v = self.ev(s.value, st)
            if st.dead:
                return None
            self.bind_target(s.target, v, st, s)
            return st
        if isinstance(s, ast.AugAssign) and isinstance(s.target, ast.Attribute):
            base = self.ev(s.target.value, st)
            if not isinstance(base, Obj):
                raise Unsupported('augmented assignment form {}'.format(unparse(s)))
            cur = self.get_attr(base, s.target.attr, st, s)
            rhs = self.ev(s.value, st)
            if st.dead:
                return None
            fake = ast.BinOp(left=ast.copy_location(ast.Attribute(value=s.target.value, attr=s.target.attr, ctx=ast.Load()), s.target),
                             op=s.op, right=s.value)
            ast.copy_location(fake, s)
            ast.fix_missing_locations(fake)
            self.set_attr(base, s.target.attr, self.binop(fake, cur, rhs, st), st, s)
            return st
        if isinstance(s, ast.AugAssign):
            if not isinstance(s.target, ast.Name):
                raise Unsupported('augmented assignment form {}'.format(unparse(s)))
            cur = self.lookup_name(s.target.id, st)
            if s.target.id not in st.env:
                raise Unsupported('augmented assignment to non-local {}'.format(s.target.id))
            rhs = self.ev(s.value, st)
            if st.dead:
                return None
            fake = ast.BinOp(left=ast.Name(id=s.target.id, ctx=ast.Load()), op=s.op, right=s.value)
            ast.copy_location(fake, s)
            ast.fix_missing_locations(fake)
            st.env[s.target.id] = self.binop(fake, cur, rhs, st)
            return st
        if isinstance(s, ast.Raise):
            self.raises.append({'node': s, 'fn': self.chain()})
            return None
        if isinstance(s, ast.Assert):
            t, f, exact = self.split(s.test, st)
            if f is not None:
                self.raises.append({'node': s, 'fn': self.chain()})
            return t
        if isinstance(s, ast.If):
            return self.exec_if(s, st)
        if isinstance(s, ast.For):
            it = self.plain(self.ev(s.iter, st))
            if st.dead:
                return None
            if isinstance(it, dict):
                it = list(it.keys())
            if isinstance(it, range) and len(it) <= 4096:
                it = list(it)
            if not isinstance(it, list) or s.orelse:
                raise Unsupported('loop over something that is not a folded sequence: {}'.format(unparse(s).split('\n')[0]))
            for n in ast.walk(s):
                if isinstance(n, (ast.Break, ast.Continue)):
                    raise Unsupported('break / continue in an unrolled loop: {}'.format(unparse(s).split('\n')[0]))
            for elem in it:
                self.bind_target(s.target, elem, st, s)
                st = self.exec_block(s.body, st)
                if st is None:
                    return None
            return st
        if isinstance(s, ast.Try):
            return self.exec_try(s, st)
        if isinstance(s, ast.Pass):
            return st
        if isinstance(s, ast.FunctionDef):
            if s.decorator_list:
                raise Unsupported('decorated nested function {}'.format(s.name))
            self.check_no_rebinding(s, s.name)
            st.env[s.name] = FuncValue(s, st.env, None)
            return st
        if isinstance(s, (ast.Global, ast.Nonlocal)):
            raise Unsupported('global / nonlocal statement in {}'.format(self.fn_stack[-1]))
        raise Unsupported('statement form {}: {}'.format(type(s).__name__, unparse(s).split('\n')[0]))

    def bind_target(self, t, v, st, node):
        if isinstance(t, ast.Name):
            st.env[t.id] = v
            return
        if isinstance(t, (ast.Tuple, ast.List)):
            if any(isinstance(e, ast.Starred) for e in t.elts):
                raise Unsupported('starred assignment target: {}'.format(unparse(node).split('\n')[0]))
            if isinstance(v, Record) and v.rtype.is_tuple:
                v = v.as_list()
            if not isinstance(v, list) or len(v) != len(t.elts):
                raise Unsupported('unpacking of a value that is not a folded sequence of {} items: {}'.format(
                    len(t.elts), unparse(node).split('\n')[0]))
            for e, x in zip(t.elts, v):
                self.bind_target(e, x, st, node)
            return
        if isinstance(t, ast.Attribute):
            base = self.ev(t.value, st)
            if isinstance(base, Obj):
                self.set_attr(base, t.attr, v, st, node)
                return
        if isinstance(t, ast.Subscript) and isinstance(t.value, ast.Name) and t.value.id in st.env:
            d = st.env[t.value.id]
            key = self.ev(t.slice, st)
            if isinstance(d, dict) and isinstance(key, (int, str)):
                self.unshared(d, t.value.id, st, node)
                nd = dict(d)
                nd[key] = v
                st.env[t.value.id] = nd
                return
        raise Unsupported('assignment target {}'.format(unparse(t)))

    def unshared(self, obj, name, st, node):
        """a local container is updated by rebinding its name to a copy: sound only if nothing else (another name, a
        container, an instance attribute) holds the same object"""
        def holds(v, depth=0):
            if v is obj:
                return True
            if depth > 4:
                return False
            if isinstance(v, list):
                return any(holds(x, depth + 1) for x in v)
            if isinstance(v, dict):
                return any(holds(x, depth + 1) for x in v.values())
            if isinstance(v, Record):
                return any(holds(x, depth + 1) for x in v.values.values())
            if isinstance(v, Obj) and v.frozen is not None:
                return any(holds(x, depth + 1) for x in v.frozen.values())
            return False
        for env in [st.env] + list(st.stack):
            for k, v in env.items():
                if env is st.env and k == name:
                    continue
                if holds(v):
                    raise Unsupported('container {} is updated while {} refers to the same object: {}'.format(
                        name, k, unparse(node).split('\n')[0]))
        for oid, attrs in st.heap.items():
            for k, v in attrs.items():
                if holds(v):
                    raise Unsupported('container {} is updated while an instance attribute {} refers to the same object: {}'.format(
                        name, k, unparse(node).split('\n')[0]))

    def exec_if(self, s, st):
        t, f, exact = self.split(s.test, st)
        outs = []
        if t is not None:
            r = self.exec_block(s.body, t)
            if r is not None:
                outs.append(r)
        if f is not None:
            r = self.exec_block(s.orelse, f) if s.orelse else f
            if r is not None:
                outs.append(r)
        if not outs:
            return None
        if len(outs) == 1:
            return outs[0]
        return self.join(outs[0], outs[1])

    # -- try ---------------------------------------------------------------------------------------------------------
    def exec_try(self, s, st):
        if len(s.handlers) != 1 or s.orelse or s.finalbody or len(s.body) != 1:
            raise Unsupported('try statement outside the coercion / table-lookup idioms in {}'.format(self.fn_stack[-1]))
        h = s.handlers[0]
        caught = handler_classes(h)
        b = s.body[0]
        value = b.value if isinstance(b, (ast.Assign, ast.Expr, ast.Return)) else None
        target = b.targets[0] if isinstance(b, ast.Assign) and len(b.targets) == 1 else None
        # idiom 1: x = int(x, base=0)  (handler: pass / raise)
        if isinstance(value, ast.Call) and isinstance(value.func, ast.Name) and value.func.id == 'int' \
                and not self.shadowed('int', st) and (target is not None or isinstance(b, ast.Expr)):
            v, status = self.int_call(value, st, caught)
            if status == 'dead':
                self.raises.append({'node': value, 'fn': self.chain()})
                return None
            if status is True:
                # the conversion raised and the handler runs (value unchanged)
                return self.exec_block(h.body, st) if not self.only_pass(h.body) else st
            arg = value.args[0] if value.args else None
            same_name = isinstance(target, ast.Name) and isinstance(arg, ast.Name) and target.id == arg.id
            fallback = (len(h.body) == 1 and isinstance(h.body[0], ast.Assign) and len(h.body[0].targets) == 1
                        and isinstance(h.body[0].targets[0], ast.Name) and isinstance(target, ast.Name)
                        and h.body[0].targets[0].id == target.id and isinstance(h.body[0].value, ast.Name)
                        and isinstance(arg, ast.Name) and h.body[0].value.id == arg.id)
            if isinstance(v, Param) and fallback:
                # try: key = int(x, 0)  except: key = x   --  the same "integer it spells, else the spelling itself" as
                # rebinding x under `except: pass`, delivered under another name
                pass
            elif isinstance(v, Param) and self.only_pass(h.body):
                if target is not None and not same_name:
                    raise Unsupported('spellings of {} that are not integers leave {} unbound'.format(v.name, unparse(target)))
            elif isinstance(v, Param):
                # spellings that are not integers take the handler; it must refuse them (the operand stays an integer)
                probe = self.exec_block(h.body, st.clone())
                if probe is not None:
                    raise Unsupported('a non-integer spelling of {} survives its conversion handler'.format(v.name))
            if target is not None:
                self.bind_target(target, v, st, b)
            return st
        # idiom 2: x = TABLE[key] / return TABLE[key]  (handler: raise ...)
        tref = None
        if (target is not None or isinstance(b, ast.Return)) and isinstance(value, ast.Subscript) \
                and not isinstance(value.slice, ast.Slice):
            probe = st.clone()
            try:
                tref = self.ev(value.value, probe)
            except Unsupported:
                tref = None
            if probe.dead:
                tref = None
        if isinstance(tref, TableRef):
            tname = tref.name
            key = self.ev(value.slice, st)
            if st.dead:
                return None
            v, src, miss = self.table_lookup(tname, key, st, value)

            def deliver(state):
                if isinstance(b, ast.Return):
                    self.rets[-1].append((state, v))
                    return None
                self.bind_target(target, v, state, b)
                return state
            covers = caught == 'all' or 'KeyError' in caught
            if miss == 'miss':
                if not covers:
                    self.raises.append({'node': value, 'fn': self.chain()})
                    return None
                return self.exec_block(h.body, st)
            if not miss:
                return deliver(st)
            if not covers:
                self.raises.append({'node': value, 'fn': self.chain()})
                st.lookup[src] = 'hit'
                return deliver(st)
            hit, mis = st, st.clone()
            hit.lookup[src] = 'hit'
            hit = deliver(hit)
            mis.lookup[src] = 'miss'
            mis = self.exec_block(h.body, mis)
            if mis is None:
                return hit
            if hit is None:
                return mis
            return self.join(hit, mis)
        raise Unsupported('try statement outside the coercion / table-lookup idioms in {}'.format(self.fn_stack[-1]))

    @staticmethod
    def only_pass(body):
        return all(isinstance(x, ast.Pass) or (isinstance(x, ast.Expr) and isinstance(x.value, ast.Constant)) for x in body)

    # -- refinement by tests -----------------------------------------------------------------------------------------
    def split(self, test, st):
        """(state where the test holds | None, state where it does not | None, exact).  The input state is consumed."""
        if isinstance(test, ast.BoolOp):
            is_and = isinstance(test.op, ast.And)
            exact = True
            cur = st
            done = None     # states decided early (false side of `and`, true side of `or`)
            for v in test.values:
                if cur is None:
                    break
                t, f, e = self.split(v, cur)
                exact = exact and e
                early, cur = (f, t) if is_and else (t, f)
                if early is not None:
                    done = early if done is None else self.join(done, early)
            return (cur, done, exact) if is_and else (done, cur, exact)
        if isinstance(test, ast.UnaryOp) and isinstance(test.op, ast.Not):
            t, f, e = self.split(test.operand, st)
            return f, t, e
        if isinstance(test, ast.Compare):
            if len(test.ops) > 1:
                # a OP b OP c  ==  a OP b and b OP c   (operands are pure here; b evaluated twice is harmless)
                parts = []
                left = test.left
                for op, right in zip(test.ops, test.comparators):
                    parts.append(ast.copy_location(ast.Compare(left=left, ops=[op], comparators=[right]), test))
                    left = right
                both = ast.copy_location(ast.BoolOp(op=ast.And(), values=parts), test)
                return self.split(both, st)
            return self.split_compare(test, st)
        callee = None
        if isinstance(test, ast.Call) and not (isinstance(test.func, ast.Name) and not self.shadowed(test.func.id, st)):
            if not isinstance(test.func, ast.Attribute):
                callee = self.ev(test.func, st)
            else:
                probe = st.clone()
                try:
                    base = self.ev(test.func.value, probe)
                except Unsupported:
                    base = None
                if isinstance(base, Obj) and not probe.dead:
                    callee = self.get_attr(base, test.func.attr, st, test)
            if isinstance(callee, BoundMethod) and not callee.fdef.decorator_list:
                callee = FuncValue(callee.fdef, {callee.fdef.args.args[0].arg: callee.obj} if callee.fdef.args.args else None, callee.label)
                callee.skip_first = True
        if callee is not None:
            body = self.predicate_body(callee)
            if body is not None:
                args, kwargs = self.eval_args(test, st)
                if st.dead:
                    return None, None, True
                if getattr(callee, 'skip_first', False):
                    args = [callee.cenv[callee.fdef.args.args[0].arg]] + list(args)
                    callee = FuncValue(callee.fdef, None, callee.label)
                env = self.bind_params(callee, args, kwargs)
                st.stack.append(st.env)
                st.env = env
                self.fn_stack.append(callee.label or getattr(callee.fdef, 'name', 'lambda'))
                self.def_stack.append(callee.fdef)
                try:
                    t, f, e = self.split(body, st)
                finally:
                    self.def_stack.pop()
                    self.fn_stack.pop()
                for s2 in (t, f):
                    if s2 is not None:
                        s2.env = s2.stack.pop()
                return t, f, e
        if isinstance(test, ast.Call) and dotted(test.func) == 'all' and not self.shadowed('all', st) and len(test.args) == 1 \
                and not test.keywords and isinstance(test.args[0], (ast.GeneratorExp, ast.ListComp)):
            g = test.args[0]
            if len(g.generators) == 1 and not g.generators[0].ifs and isinstance(g.generators[0].target, ast.Name) \
                    and isinstance(g.elt, ast.Compare) and len(g.elt.ops) == 1 and isinstance(g.elt.ops[0], ast.In) \
                    and isinstance(g.elt.left, ast.Name) and g.elt.left.id == g.generators[0].target.id:
                probe = st.clone()
                it = self.ev(g.generators[0].iter, probe)
                alpha = self.ev(g.elt.comparators[0], probe)
                sp = self.spelling_of(it)
                if isinstance(alpha, list) and all(isinstance(x, str) for x in alpha):
                    alpha = ''.join(alpha) if all(len(x) == 1 for x in alpha) else None
                if sp is not None and isinstance(alpha, str) and alpha and len(set(alpha)) == len(alpha) and not probe.dead:
                    t, f = self.fork(st)
                    t.facts = t.facts | {('letters', sp[0], tuple(alpha))}
                    return t, f, False
        if isinstance(test, ast.Call):
            fn = dotted(test.func)
            if fn == 'isinstance' and not self.shadowed('isinstance', st) and len(test.args) == 2 and not test.keywords:
                return self.split_typetest(self.ev(test.args[0], st), self.type_names(test.args[1]), True, st, test)
        v = self.ev(test, st)
        if st.dead:
            return None, None, True
        return self.split_truth(v, st, test)

    def predicate_body(self, callee):
        """the expression a lambda / `def f(..): return <expr>` evaluates to, when that is all it does"""
        if not isinstance(callee, FuncValue):
            return None
        f = callee.fdef
        if isinstance(f, ast.Lambda):
            return f.body
        body = [x for x in f.body if not (isinstance(x, ast.Expr) and isinstance(x.value, ast.Constant))]
        if len(body) == 1 and isinstance(body[0], ast.Return) and body[0].value is not None and not f.decorator_list:
            return body[0].value
        return None

    def type_names(self, node):
        names = [node] if not isinstance(node, ast.Tuple) else list(node.elts)
        out = set()
        for n in names:
            if not isinstance(n, ast.Name) or n.id not in ('int', 'str', 'bool', 'float', 'bytes', 'list', 'tuple', 'dict'):
                raise Unsupported('type test against {}'.format(unparse(node)))
            out.add(n.id)
        return out

    def split_typetest(self, v, types, subclass_ok, st, node):
        """isinstance(v, types) (subclass_ok) or type(v) in types"""
        if isinstance(v, bool):
            res = 'bool' in types or (subclass_ok and 'int' in types)
        elif isinstance(v, int) or isinstance(v, (View, Bits)) or type(v).__name__ == 'Lin':
            res = 'int' in types
        elif isinstance(v, str):
            res = 'str' in types
        elif v is None:
            res = False
        elif isinstance(v, list):
            res = bool(types & {'list', 'tuple'}) if types <= {'list', 'tuple'} or not types & {'list', 'tuple'} else None
            if res is None:
                raise Unsupported('type test of a folded sequence: {}'.format(unparse(node)))
        elif isinstance(v, dict):
            res = 'dict' in types
        elif isinstance(v, Param):
            # an operand is an int or a str spelling
            if types & {'int', 'str'} == {'int', 'str'}:
                return st, None, True
            if not types & {'int', 'str'}:
                return None, st, True
            kind = 'int' if 'int' in types else 'str'
            other = 'str' if kind == 'int' else 'int'
            known_not = ('not' + kind, v.name) in st.facts
            known = (kind, v.name) in st.facts
            if known_not or known:
                t, f = st, st.clone()
            else:
                t, f = self.fork(st)
            t.facts = t.facts | {(kind, v.name), ('not' + other, v.name)}
            f.facts = f.facts | {(other, v.name), ('not' + kind, v.name)}
            if known_not:
                return None, f, True
            if known:
                return t, None, True
            return t, f, False
        else:
            raise Unsupported('type test of {}: {}'.format(v, unparse(node)))
        return (st, None, True) if res else (None, st, True)

    def split_truth(self, v, st, node):
        if isinstance(v, Maybe):
            src = v.view.src
            if st.lookup.get(src) != 'hit':
                hit, mis = st, st.clone()
                hit.lookup[src] = 'hit'
                mis.lookup[src] = 'miss'
                t, f, e = self.split_truth(v.view, hit, node)
                d = self.py_truth(v.default)
                if d:
                    t = mis if t is None else self.join(t, mis)
                else:
                    f = mis if f is None else self.join(f, mis)
                return t, f, e
            v = v.view
        t = self.py_truth(v)
        if t is not None:
            return (st, None, True) if t else (None, st, True)
        if self.spelling_of(v) is not None:
            # is the spelling empty?  says nothing about the operand's value
            t, f = self.fork(st)
            return t, f, False
        if isinstance(v, (ModVal, NegMask)) or type(v).__name__ == 'Lin':
            return self.split_values(v, ast.NotEq(), 0, st, node)
        if isinstance(v, (Param, View, Bits)):
            return self.split_values(v, ast.NotEq(), 0, st, node)
        raise Unsupported('truth value of abstract {}'.format(unparse(node)))

    def split_compare(self, test, st):
        op = test.ops[0]
        left, right = test.left, test.comparators[0]
        # type(x) == int / type(x) is int
        for l, r in ((left, right), (right, left)):
            if isinstance(l, ast.Call) and dotted(l.func) == 'type' and len(l.args) == 1 and not l.keywords \
                    and not self.shadowed('type', st) and isinstance(op, (ast.Eq, ast.Is, ast.NotEq, ast.IsNot, ast.In, ast.NotIn)):
                types = self.type_names(r)
                t, f, e = self.split_typetest(self.ev(l.args[0], st), types, False, st, test)
                return (t, f, e) if isinstance(op, (ast.Eq, ast.Is, ast.In)) else (f, t, e)
        # key in TABLE
        a = self.ev(left, st)
        if st.dead:
            return None, None, True
        b = self.ev(right, st)
        if st.dead:
            return None, None, True
        if isinstance(op, (ast.In, ast.NotIn)) and isinstance(b, TableRef):
            t, f, e = self.split_member(b.name, a, st, test)
            return (t, f, e) if isinstance(op, ast.In) else (f, t, e)
        a, b = self.plain(a), self.plain(b)
        return self.split_values(a, op, b, st, test)

    def has_objects(self, v):
        if isinstance(v, list):
            return any(self.has_objects(x) for x in v)
        if isinstance(v, dict):
            return any(self.has_objects(x) for x in v.values())
        return not isinstance(v, CONSTS)

    def split_member(self, tname, key, st, node):
        table, mode = self.table(tname)
        if isinstance(key, CONSTS):
            if key in table:
                return st, None, True
            if mode == 'extended':
                t, f = self.fork(st)
                return t, f, False
            return None, st, True
        if isinstance(key, Param):
            src = self.reg_source(tname, key, st)
            cur = st.lookup.get(src)
            if cur == 'hit':
                return st, None, True
            if cur == 'miss':
                return None, st, True
            t, f = st, st.clone()
            t.lookup[src] = 'hit'
            f.lookup[src] = 'miss'
            return t, f, True
        if isinstance(key, Opaque):
            if ('in', tname, key.desc) in st.facts:
                return st, None, True
            t, f = self.fork(st)
            t.facts = t.facts | {('in', tname, key.desc)}
            return t, f, False
        if isinstance(key, View):
            self.table_lookup(tname, key, st, node)
            return st, None, True
        raise Unsupported('membership test of {} in {}'.format(key, tname))

    def split_values(self, a, op, b, st, node):
        # None tests on possibly-missing lookups
        if isinstance(b, Maybe) and not isinstance(a, Maybe):
            if type(op) in FLIP:
                a, b, op = b, a, FLIP[type(op)]()
            elif isinstance(op, (ast.Is, ast.IsNot)):
                a, b = b, a
        if isinstance(a, Maybe):
            src = a.view.src
            if st.lookup.get(src) == 'hit':
                a = a.view
            elif isinstance(op, (ast.Is, ast.IsNot, ast.Eq, ast.NotEq)) and b is None and a.default is None:
                hit, mis = st, st.clone()
                hit.lookup[src] = 'hit'
                mis.lookup[src] = 'miss'
                return (mis, hit, True) if isinstance(op, (ast.Is, ast.Eq)) else (hit, mis, True)
            elif a.default is None and isinstance(op, (ast.Lt, ast.LtE, ast.Gt, ast.GtE)):
                # None in an ordering comparison is a TypeError: the spellings that are no key end here
                self.raises.append({'node': node, 'fn': self.chain()})
                st.lookup[src] = 'hit'
                a = a.view
            else:
                # decide per world
                hit, mis = st, st.clone()
                hit.lookup[src] = 'hit'
                mis.lookup[src] = 'miss'
                t1, f1, e1 = self.split_values(a.view, op, b, hit, node)
                t2, f2, e2 = self.split_values(a.default, op, b, mis, node)
                t = t1 if t2 is None else (t2 if t1 is None else self.join(t1, t2))
                f = f1 if f2 is None else (f2 if f1 is None else self.join(f1, f2))
                return t, f, e1 and e2
        if isinstance(a, CONSTS) and isinstance(b, CONSTS + (list, dict, set, frozenset, range)):
            table = {ast.Lt: lambda: a < b, ast.LtE: lambda: a <= b, ast.Gt: lambda: a > b, ast.GtE: lambda: a >= b,
                     ast.Eq: lambda: a == b, ast.NotEq: lambda: a != b, ast.In: lambda: a in b,
                     ast.NotIn: lambda: a not in b, ast.Is: lambda: a is b, ast.IsNot: lambda: a is not b}
            try:
                res = bool(table[type(op)]())
            except (KeyError, TypeError) as e:
                raise Unsupported('cannot fold comparison {}: {}'.format(unparse(node), e))
            return (st, None, True) if res else (None, st, True)
        if isinstance(a, (list, dict)) and isinstance(b, (list, dict)) and isinstance(op, (ast.Eq, ast.NotEq)) \
                and self.is_static(a) and self.is_static(b) and not self.has_objects(a) and not self.has_objects(b):
            res = (a == b) == isinstance(op, ast.Eq)
            return (st, None, True) if res else (None, st, True)
        if isinstance(op, (ast.Is, ast.IsNot, ast.Eq, ast.NotEq)) and (a is None or b is None):
            other = b if a is None else a
            if isinstance(other, (Param, View, Bits, ModVal, list, dict, FuncValue, Opaque, TableVal, Record, Obj, ClassValue, BoundMethod)):
                res = isinstance(op, (ast.IsNot, ast.NotEq))
                return (st, None, True) if res else (None, st, True)
        # normalise: abstract on the left
        if isinstance(a, (int, bool)) and not isinstance(b, (int, bool, list)):
            if type(op) not in FLIP:
                raise Unsupported('comparison {}'.format(unparse(node)))
            a, b, op = b, a, FLIP[type(op)]()
        if isinstance(a, ModVal):
            return self.split_mod(a, op, b, st, node)
        if isinstance(a, NegMask):
            return self.split_negmask(a, op, b, st, node)
        if type(a).__name__ == 'Lin':
            return self.split_lin(a, op, b, st, node)
        a = self.as_int_view(a, st, node)
        if isinstance(a, Bits):
            return self.split_bits(a, op, b, st, node)
        if not isinstance(a, View):
            raise Unsupported('comparison {}'.format(unparse(node)))
        if a.trunc is not None:
            return self.split_bits(self.to_bits(a, st, node), op, b, st, node)
        if isinstance(op, (ast.In, ast.NotIn)) and isinstance(b, range) and not a.shift:
            pos = isinstance(op, ast.In)
            if len(b) == 0:
                return (None, st, True) if pos else (st, None, True)
            lo, hi, step = (b[0], b[-1], b.step) if b.step > 0 else (b[-1], b[0], -b.step)
            t, f, _ = self.apply_pred(st, a, interval_pred(lo, hi, True))
            if step != 1 and t is not None:
                t, f2, _ = self.apply_pred(t, a, mod_pred(step, lo % step, True))
                f = f2 if f is None else (f if f2 is None else self.join(f, f2))
            return (t, f, True) if pos else (f, t, True)
        if a.shift < 0:
            raise Unsupported('comparison after a left shift: {}'.format(unparse(node)))
        if a.shift:
            # (x >> s) OP b  over integers:  floor division by 2**s is monotone
            sh = a.shift
            base = View(a.src, a.ch, a.add, 0, None)
            if isinstance(op, (ast.In, ast.NotIn)) and isinstance(b, (list, set, frozenset)) and all(
                    isinstance(x, int) for x in b):
                ivs = [(x << sh, ((x + 1) << sh) - 1) for x in sorted(set(int(x) for x in b))]
                return self.apply_pred(st, base, intervals_pred(ivs, isinstance(op, ast.In)))
            if not (isinstance(b, int) and type(op) in FLIP):
                raise Unsupported('comparison after shift: {}'.format(unparse(node)))
            b = int(b)
            lo, hi = b << sh, ((b + 1) << sh) - 1
            table = {ast.Lt: (ast.Lt, lo), ast.LtE: (ast.LtE, hi), ast.Gt: (ast.Gt, hi), ast.GtE: (ast.GtE, lo)}
            if type(op) in table:
                o2, thr = table[type(op)]
                return self.apply_pred(st, base, cmp_pred(o2, thr, unparse(node)))
            return self.apply_pred(st, base, interval_pred(lo, hi, isinstance(op, ast.Eq)))
        if isinstance(op, (ast.In, ast.NotIn)):
            if isinstance(b, (set, frozenset)):
                b = list(b)
            if not isinstance(b, list) or not all(isinstance(x, (int, bool)) for x in b):
                raise Unsupported('membership in non-literal list: {}'.format(unparse(node)))
            pts = sorted(set(int(x) for x in b))
            return self.apply_pred(st, a, points_pred(pts, isinstance(op, ast.In)))
        if not isinstance(b, (int, bool)):
            raise Unsupported('comparison between two abstract values: {}'.format(unparse(node)))
        if type(op) not in FLIP:
            raise Unsupported('comparison operator in {}'.format(unparse(node)))
        return self.apply_pred(st, a, cmp_pred(type(op), int(b), unparse(node)))

    def apply_pred(self, st, view, pred, by_orig=False):
        src = view.src
        t, f = st, st.clone()
        tc, fc = [], []
        exact = True
        for c in st.cells[src]:
            yes, no, e = pred(c, 0 if by_orig else c.off(view.ch, view.add))
            tc.extend(yes)
            fc.extend(no)
            exact = exact and e
        if not exact:
            t.imprecise = True
            f.imprecise = True
        t.cells[src] = tc
        f.cells[src] = fc
        return (t if tc else None), (f if fc else None), True

    def split_negmask(self, a, op, b, st, node):
        """(x & ~m) ==/!= 0 with m a contiguous run of ones (bits lo..hi-1):  zero iff 0 <= x < 2**hi and x % 2**lo == 0"""
        if not (isinstance(op, (ast.Eq, ast.NotEq)) and b == 0 and not isinstance(b, bool)):
            raise Unsupported('test of the bits outside a mask against something other than 0: {}'.format(unparse(node)))
        m = a.m
        x = a.x
        if m == 0:
            lo_bit, hi_bit = 0, 0
        else:
            lo_bit = (m & -m).bit_length() - 1
            hi_bit = m.bit_length()
            if m != ((1 << hi_bit) - 1) ^ ((1 << lo_bit) - 1):
                raise Unsupported('mask with holes in a range test: {}'.format(unparse(node)))
        if x.shift < 0 or x.trunc is not None:
            raise Unsupported('mask test after a left shift: {}'.format(unparse(node)))
        # x = (orig + off) >> s ;  0 <= x < 2**hi  <=>  0 <= orig + off < 2**(hi + s) ;  x % 2**lo == 0  <=>  bits s..s+lo-1 of (orig+off) are 0
        base = View(x.src, x.ch, x.add, 0, None)
        t, f, _ = self.apply_pred(st, base, interval_pred(0, (1 << (hi_bit + x.shift)) - 1, True))
        if lo_bit and t is not None:
            if x.shift:
                raise Unsupported('alignment test through a mask after a shift: {}'.format(unparse(node)))
            t, f2, _ = self.apply_pred(t, base, mod_pred(1 << lo_bit, 0, True))
            f = f2 if f is None else (f if f2 is None else self.join(f, f2))
        return (t, f, True) if isinstance(op, ast.Eq) else (f, t, True)

    def split_mod(self, a, op, b, st, node):
        x = self.as_int_view(a.x, st, node)
        if isinstance(x, Bits):
            return self.split_values(self.mod_as_bits(a, st, node), op, b, st, node)
        if not (isinstance(x, View) and isinstance(b, int) and not isinstance(b, bool) and isinstance(op, (ast.Eq, ast.NotEq))):
            raise Unsupported('modulo test form {}'.format(unparse(node)))
        if not 0 <= b < a.k:
            res = isinstance(op, ast.NotEq)
            return (st, None, True) if res else (None, st, True)
        if x.shift or x.trunc is not None:
            raise Unsupported('modulo test after shift: {}'.format(unparse(node)))
        return self.apply_pred(st, x, mod_pred(a.k, b, isinstance(op, ast.Eq)))

    def split_bits(self, a, op, b, st, node):
        if a.is_const():
            return self.split_values(a.const(), op, b, st, node)
        if isinstance(b, Bits) and b.is_const():
            b = b.const()
        if isinstance(b, (int, bool)) and type(op) in FLIP:
            lo, hi = a.range()
            dec = decide_range(lo, hi, op, int(b))
            if dec is not None:
                return (st, None, True) if dec else (None, st, True)
        if isinstance(op, (ast.In, ast.NotIn)) and isinstance(b, (range, list, set, frozenset)):
            lo, hi = a.range()
            dec = None
            if isinstance(b, range) and len(b) and b.step == 1 and b[0] <= lo and hi <= b[-1]:
                dec = True
            elif not isinstance(b, range) and all(isinstance(x, int) for x in b) and all(x < lo or x > hi for x in b):
                dec = False
            elif isinstance(b, range) and (len(b) == 0 or max(b[0], b[-1]) < lo or min(b[0], b[-1]) > hi):
                dec = False
            elif not isinstance(b, range) and all(isinstance(x, int) for x in b) and hi - lo <= (1 << 16) \
                    and set(range(lo, hi + 1)) <= set(b):
                dec = True          # a folded range / list that contains every value the field can take
            if dec is not None:
                dec = dec == isinstance(op, ast.In)
                return (st, None, True) if dec else (None, st, True)
            b = 0       # undecided membership of a bit field: handled like any late guard below
        k = len(a.bits)
        if (isinstance(op, (ast.Eq, ast.NotEq)) and isinstance(b, int) and k and isinstance(a.bits[0], tuple) and a.bits[0][0] in st.cells
                and all(x == (a.bits[0][0], j) for j, x in enumerate(a.bits))):
            # the low k bits of the original operand compared with a constant: a congruence modulo 2**k
            if not 0 <= b < (1 << k):
                res = isinstance(op, ast.NotEq)
                return (st, None, True) if res else (None, st, True)
            return self.apply_pred(st, View(a.bits[0][0]), mod_pred(1 << k, int(b), isinstance(op, ast.Eq)), by_orig=True)
        sym = [(i, x) for i, x in enumerate(a.bits) if isinstance(x, tuple)]
        if (isinstance(op, (ast.Eq, ast.NotEq)) and isinstance(b, int) and len(sym) == 1 and sym[0][1][0] in st.cells
                and all(x == 0 or isinstance(x, tuple) for x in a.bits) and b in (0, 1 << sym[0][0])):
            # (operand & single-bit mask) compared with 0 or with the mask: a test of one bit of the original operand
            (pos, (src, j)) = sym[0]
            want_zero = (b == 0) == isinstance(op, ast.Eq)
            return self.apply_pred(st, View(src), origbit_pred(j, want_zero), by_orig=True)
        srcs = {x[0] for x in a.bits if isinstance(x, tuple)}
        srcs = {x for x in srcs if x in st.cells}
        if len(srcs) == 1 and isinstance(b, (int, bool)):
            # outcome depends on operand bits already extracted: both outcomes stay possible for every accepted value
            # (sound over-approximation of the accepted set); the state is marked imprecise
            t, f = st, st.clone()
            t.imprecise = True
            f.imprecise = True
            return t, f, False
        raise Unsupported('comparison of a bit field with undecidable outcome: {}'.format(unparse(node)))
