"""Higher-order extension of the path walker: closures and function values.

`pathwalk.Walker` inlines module-level helpers and closures that are called *by the function that defines them*.  A refactor that
moves the loop of a pass into a skeleton (`convert_items(pass_name, items, item_type, convert)`) and the per-item work into a nested
function passed as an argument needs two more things, both provided here without touching the shared engine:

  * a parameter bound to a function value (a nested function or a module-level function) is called as that function;
  * a nested function reads its free variables in the *current* environment of the activation of its defining function, wherever
    it is called from (Python's late-binding closure semantics for downward function arguments).  The walker keeps a stack of
    (function being executed, environment it had when it called out) for that.

`function_paths` walks a whole function body (parameters symbolic, every inner loop body once with its variables havoc'd), so a rule
can be stated over "every path on which an item of class X reaches struct.pack" whatever the loop skeleton looks like.
"""
import ast

from .astutil import enclosing_function, dotted
from .pathwalk import Walker, PathState, C
from .immsites import ctor_fields


class HWalker(Walker):
    def __init__(self, facts, root_fn=None, **kw):
        kw.setdefault('inline', 'all')
        super().__init__(facts, **kw)
        self._frames = []
        self._cur_fn = root_fn

    # -- which function does a call reach -------------------------------------------------------------------------------------
    def _value_target(self, call, st):
        """A call through a local name bound to a function value: ('closure' | 'module', FunctionDef)."""
        v = st.env.get(call.func.id)
        if v is None:
            return None
        if v[0] == 'closure' and len(v) > 2:
            fn = self.__dict__.get('_closures', {}).get(v[2])
            return ('closure', fn) if isinstance(fn, ast.FunctionDef) else None
        if v[0] == 'name' and v[1] in self.facts.funcs:
            return ('module', self.facts.funcs[v[1]])
        if v[0] == 'attr' and v[1][0] == 'name' and v[1][1] in self.facts.classes:
            # an unbound method used as a plain function: Cls.method(obj, ...)
            owner, m = self.facts.method(v[1][1], v[2])
            if m is not None and not m.decorator_list:
                return ('module', m)
            return None
        if v[0] == 'lambda' and v[1] in self._lambdas:
            lnode, lenv = self._lambdas[v[1]]
            cache = self.__dict__.setdefault('_lambda_defs', {})
            if v[1] not in cache:
                fn = ast.FunctionDef(name='<lambda>', args=lnode.args, body=[ast.copy_location(ast.Return(value=lnode.body), lnode.body)],
                                     decorator_list=[], returns=None, type_comment=None)
                ast.copy_location(fn, lnode)
                fn.body[0]._parent = fn
                cache[v[1]] = fn
            return ('lambda', cache[v[1]], lenv)
        return None

    def _method_target(self, call, st):
        """`x.m(...)` where the class of x is known (x was built by a constructor on this path, or an isinstance fact holds) and
        every candidate class resolves m to the same definition; `Cls.m(...)` for static / class methods.
        Returns (FunctionDef, {pre-bound parameter: value}, [remaining positional parameter names]) or None."""
        f = call.func
        if not isinstance(f, ast.Attribute) or self.inline_mode != 'all':
            return None
        recv = self.sym(f.value, st)
        if recv[0] == 'name' and recv[1] in self.facts.classes:
            # Cls.m(...) (also through a `cls` variable bound to the class): static and class methods
            owner, m = self.facts.method(recv[1], f.attr)
            if m is None:
                return None
            decos = {getattr(d, 'id', getattr(d, 'attr', None)) for d in m.decorator_list}
            pos = [a.arg for a in m.args.args]
            if 'staticmethod' in decos:
                return m, {}, pos
            if 'classmethod' in decos and pos:
                return m, {pos[0]: recv}, pos[1:]
            if not decos and pos:
                return m, {}, pos          # unbound method called with an explicit self
            return None
        if recv[0] == 'new':
            classes = {recv[1]}
        else:
            fact = st.facts.get(recv)
            classes = set(fact['isa']) if fact else set()
        defs = {}
        for c in classes:
            if c in self.facts.classes:
                owner, m = self.facts.method(c, f.attr)
                if m is not None:
                    defs[id(m)] = m
        if len(defs) != 1:
            return None
        m = next(iter(defs.values()))
        decos = {getattr(d, 'id', getattr(d, 'attr', None)) for d in m.decorator_list}
        pos = [a.arg for a in m.args.args]
        if decos - {'staticmethod', 'classmethod'}:
            return None          # property, abstractmethod, ...
        if 'staticmethod' in decos:
            return m, {}, pos
        if not pos:
            return None
        if 'classmethod' in decos:
            # called on an instance: cls is the instance's class (decidable when exactly one class is known for it)
            known = [c for c in classes if c in self.facts.classes and self.facts.method(c, f.attr)[1] is m]
            most = [c for c in known if not any(o != c and self.facts.is_subclass(o, c) for o in known)]
            if len(most) != 1:
                return None
            return m, {pos[0]: ('name', most[0])}, pos[1:]
        return m, {pos[0]: recv}, pos[1:]

    TRANSPARENT_DECORATORS = {'staticmethod', 'classmethod'}

    def _decorated(self, fn):
        """A decorator may replace the function by anything (a memoising wrapper, a context manager ...): the body is not what a
        call executes."""
        names = [(dotted(d.func) if isinstance(d, ast.Call) else dotted(d)) for d in fn.decorator_list]
        return any(n not in self.TRANSPARENT_DECORATORS and not (not isinstance(d, ast.Call) and identity_decorator(self.facts, n))
                   for n, d in zip(names, fn.decorator_list))

    def _inlinable(self, fn, call):
        return not self._decorated(fn) and not (fn.name in self.opaque or (fn.name in self._inline_stack and fn.name != '<lambda>') or len(self._inline_stack) >= 10 or fn.args.vararg
                    or any(isinstance(a, ast.Starred) for a in call.args))

    def inline_target(self, call, st):
        if isinstance(call, ast.Call) and isinstance(call.func, ast.Attribute):
            t = self._method_target(call, st)
            return t[0] if t is not None and self._inlinable(t[0], call) else None
        if isinstance(call, ast.Call) and isinstance(call.func, ast.Name) and call.func.id in st.env:
            if self.inline_mode != 'all':
                return super().inline_target(call, st)
            t = self._value_target(call, st)
            if t is None or not self._inlinable(t[1], call):
                return None
            if t[0] == 'closure' and self._defining_env(t[1], st) is None:
                return None
            return t[1]
        fn = super().inline_target(call, st)
        return None if fn is not None and self._decorated(fn) else fn

    def _defining_env(self, fn, st):
        dfn = enclosing_function(fn)
        if dfn is None or dfn is self._cur_fn:
            return st.env
        for f, env in reversed(self._frames):
            if f is dfn:
                return env
        return None

    def inline_call(self, call, st, done):
        """Inline a call; inlinable calls nested in its arguments are walked first (argument evaluation order)."""
        if not isinstance(call, ast.Call) or self.inline_target(call, st) is None:
            return None
        operands = list(call.args) + [k.value for k in call.keywords]
        if isinstance(call.func, ast.Attribute):
            operands.insert(0, call.func.value)
        if any(isinstance(m, ast.Call) and self.inline_target(m, st) is not None for o in operands for m in ast.walk(o)):
            tup = ast.copy_location(ast.Tuple(elts=operands, ctx=ast.Load()), call)
            out = []
            for s, t2 in self.expand_calls(tup, st, done):
                elts = list(t2.elts)
                func = call.func
                if isinstance(call.func, ast.Attribute):
                    func = ast.copy_location(ast.Attribute(value=elts.pop(0), attr=call.func.attr, ctx=ast.Load()), call.func)
                n = len(call.args)
                call2 = ast.copy_location(ast.Call(func=func, args=elts[:n], keywords=[ast.keyword(arg=k.arg, value=v) for k, v in zip(call.keywords, elts[n:])]), call)
                r = self._inline_flat(call2, s, done)
                if r is None:
                    # cannot happen for a target that was inlinable before its operands were evaluated; keep the value opaque
                    r = [(s, self.sym(call2, s))]
                out.extend(r)
            return out
        return self._inline_flat(call, st, done)

    def _inline_flat(self, call, st, done):
        if not isinstance(call, ast.Call):
            return None
        if isinstance(call.func, ast.Attribute):
            t = self._method_target(call, st)
            if t is None or not self._inlinable(t[0], call):
                return None
            fn, pre, pos = t
            return self._run_inlined(call, st, done, fn, {}, pre, pos)
        if not isinstance(call.func, ast.Name):
            return None
        if call.func.id not in st.env or self.inline_mode != 'all':
            fn = self.inline_target(call, st)
            if fn is None:
                return None
            self._frames.append((self._cur_fn, st.env))
            prev, self._cur_fn = self._cur_fn, fn
            try:
                return super().inline_call(call, st, done)
            finally:
                self._cur_fn = prev
                self._frames.pop()
        t = self._value_target(call, st)
        if t is None or not self._inlinable(t[1], call):
            return None
        kind, fn = t[0], t[1]
        base_env = self._defining_env(fn, st) if kind == 'closure' else (t[2] if kind == 'lambda' else {})
        if base_env is None:
            return None
        return self._run_inlined(call, st, done, fn, base_env, {}, [a.arg for a in fn.args.args])

    def _run_inlined(self, call, st, done, fn, base_env, pre_bound, pos):
        """Walk the body of `fn` with its parameters bound to the symbolic arguments of `call`; [(state, return value)] or None."""
        if len(call.args) > len(pos):
            return None
        bound = dict(pre_bound)
        for p_, a in zip(pos, call.args):
            bound[p_] = self.sym(a, st)
        names = set(pos) | {a.arg for a in fn.args.kwonlyargs}
        extra = []
        for k in call.keywords:
            v_ = self.sym(k.value, st)
            if k.arg is None:
                if v_[0] != 'kwdict':
                    return None
                items = v_[1]
            else:
                items = ((k.arg, v_),)
            for kn, kv in items:
                if kn in names:
                    bound[kn] = kv
                elif fn.args.kwarg:
                    extra.append((kn, kv))
                else:
                    return None
        if fn.args.kwarg:
            bound[fn.args.kwarg.arg] = ('kwdict', tuple(extra))
        allpos = [a.arg for a in fn.args.args]
        defaults = dict(zip(allpos[len(allpos) - len(fn.args.defaults):], fn.args.defaults))
        for a, d in zip(fn.args.kwonlyargs, fn.args.kw_defaults):
            if d is not None:
                defaults[a.arg] = d
        for p_ in pos + [a.arg for a in fn.args.kwonlyargs]:
            if p_ not in bound:
                if p_ not in defaults:
                    return None
                bound[p_] = self.sym(defaults[p_], PathState())
        env = dict(base_env)
        env.update(bound)
        caller_env = st.env
        st.env = env
        n0 = len(st.events)
        self._inline_stack.append(fn.name)
        self._frames.append((self._cur_fn, caller_env))
        prev, self._cur_fn = self._cur_fn, fn
        inner_done = []
        try:
            live = self.block(fn.body, st, inner_done)
        finally:
            self._cur_fn = prev
            self._frames.pop()
            self._inline_stack.pop()
        for s in list(live) + inner_done:
            for i_ in range(n0, len(s.events)):
                s.sites.setdefault(i_, call)
        out = []
        for s in live:
            s.env = dict(caller_env)
            out.append((s, C(None)))
        for s in inner_done:
            if s.end == 'return':
                ret = [e for e in s.events if e[0] == 'return'][-1]
                s.events.remove(ret)
                s.end = None
                s.end_node = None
                s.env = dict(caller_env)
                out.append((s, ret[1]))
            else:
                s.env = dict(caller_env)
                done.append(s)
        return out

    # -- value forms the base walker leaves opaque ---------------------------------------------------------------------------------
    def sym(self, node, st):
        if isinstance(node, ast.NamedExpr) and isinstance(node.target, ast.Name):
            # (x := e): the value of e, and x is bound to it from here on
            v = self.sym(node.value, st)
            st.env[node.target.id] = v
            return v
        if isinstance(node, ast.JoinedStr):
            # f'{a}<{b:02x}' is '{}<{:02x}'.format(a, b)
            fmt, args = '', []
            for part in node.values:
                if isinstance(part, ast.Constant) and isinstance(part.value, str):
                    fmt += part.value.replace('{', '{{').replace('}', '}}')
                elif isinstance(part, ast.FormattedValue):
                    spec = ''
                    if part.format_spec is not None:
                        if not (len(part.format_spec.values) == 1 and isinstance(part.format_spec.values[0], ast.Constant)):
                            return super().sym(node, st)
                        spec = ':' + part.format_spec.values[0].value
                    conv = {-1: '', 115: '!s', 114: '!r', 97: '!a'}.get(part.conversion, '')
                    fmt += '{' + conv + spec + '}'
                    args.append(self.sym(part.value, st))
                else:
                    return super().sym(node, st)
            return ('mcall', C(fmt), 'format', tuple(args), ())
        return super().sym(node, st)

    def fork(self, test_node, st, done, then_body, else_body):
        return self.fork_sym(split_isinstance(self.sym(test_node, st)), test_node, st, done, then_body, else_body)

    def _stmt_rest(self, node, st, done):
        if isinstance(node, ast.AugAssign):
            # calls inside the right-hand side of `x += ...` are followed like those of a plain assignment
            pairs = self.expand_calls(node.value, st, done)
            if len(pairs) != 1 or pairs[0][1] is not node.value:
                out = []
                for s, e in pairs:
                    fake = ast.copy_location(ast.AugAssign(target=node.target, op=node.op, value=e), node)
                    out.extend(super()._stmt_rest(fake, s, done))
                return out
        if isinstance(node, ast.Assert):
            out = []
            for s, e in self.expand_calls(node.test, st, done):
                s.events.append(('assert', self.sym(e, s), node))
                out.append(s)
            return out
        return super()._stmt_rest(node, st, done)

    # -- conditional expressions around inlinable calls fork the path like an if statement ---------------------------------------
    def expand_calls(self, node, st, done):
        if node is not None and self.inline_mode == 'all':
            for n in ast.walk(node):
                if not isinstance(n, ast.IfExp):
                    continue
                inl = lambda sub: any(isinstance(m, ast.Call) and self.inline_target(m, st) is not None for m in ast.walk(sub))
                if not (inl(n.body) or inl(n.orelse)) or inl(n.test):
                    continue
                test = split_isinstance(self.sym(n.test, st))
                d = self.decide(test, st)
                out = []
                for pol in (True, False):
                    if d is not None and d != pol:
                        continue
                    s2 = st.clone() if d is None else st
                    if d is None:
                        self.assume(test, pol, s2)
                        s2.conds.append((test, pol, n))
                        s2.events.append(('cond', test, pol, n))
                    out.extend(self.expand_calls(_replace(node, n, n.body if pol else n.orelse), s2, done))
                return out
        # the base algorithm (innermost inlinable call first, its result bound to a temporary), rebuilding only the spine of
        # the expression instead of deep-copying it (a deep copy follows the parent links through the whole module)
        if node is None or not any(isinstance(n, ast.Call) and self.inline_target(n, st) is not None for n in ast.walk(node)):
            return [(st, node)]
        orig = node
        states = [st]
        counter = self.__dict__.setdefault('_tmp', [0])
        while True:
            target = None
            for n in ast.walk(node):
                if isinstance(n, ast.Call) and self.inline_target(n, states[0]) is not None:
                    if not any(m is not n and isinstance(m, ast.Call) and self.inline_target(m, states[0]) is not None for m in ast.walk(n)):
                        target = n
                        break
            if target is None:
                break
            counter[0] += 1
            tmp = '__inl{}'.format(counter[0])
            nxt = []
            for s_ in states:
                res = self.inline_call(target, s_, done)
                if res is None:
                    return [(st, orig)]
                for s2, rv in res:
                    s2.env[tmp] = rv
                    nxt.append(s2)
            states = nxt
            if not states:
                return []
            node = _replace(node, target, ast.copy_location(ast.Name(id=tmp, ctx=ast.Load()), target))
        return [(s_, node) for s_ in states]


def split_isinstance(v):
    """isinstance(x, (A, B)) as `isinstance(x, A) or isinstance(x, B)` (inside not / and / or), so that the walker's class facts,
    which are per class, apply to tuples of classes as well."""
    if not isinstance(v, tuple) or not v:
        return v
    if v[0] == 'call' and v[1] == 'isinstance' and len(v[2]) == 2 and v[2][1][0] == 'tuple' and v[2][1][1] \
            and all(c[0] == 'name' for c in v[2][1][1]):
        parts = tuple(('call', 'isinstance', (v[2][0], c), ()) for c in v[2][1][1])
        return parts[0] if len(parts) == 1 else ('bool', 'or', parts)
    if v[0] == 'un' and v[1] == 'not':
        return ('un', 'not', split_isinstance(v[2]))
    if v[0] == 'bool':
        return ('bool', v[1], tuple(split_isinstance(x) for x in v[2]))
    return v


def _replace(root, old, new):
    """A copy of expression `root` in which the sub-expression `old` is replaced by `new` (other nodes are shared)."""
    if root is old:
        return new

    class R(ast.NodeTransformer):
        def generic_visit(self, n):
            # rebuild only the spine that leads to `old`
            if not any(m is old for m in ast.walk(n)):
                return n
            c = type(n)(**{f: getattr(n, f) for f in n._fields if hasattr(n, f)})
            ast.copy_location(c, n) if hasattr(n, 'lineno') else None
            for f, val in ast.iter_fields(n):
                if isinstance(val, list):
                    setattr(c, f, [new if x is old else (self.visit(x) if isinstance(x, ast.AST) else x) for x in val])
                elif isinstance(val, ast.AST):
                    setattr(c, f, new if val is old else self.visit(val))
            return c
    return R().visit(root)


def identity_decorator(facts, name):
    """`name` is a module-level function that hands its argument back unchanged (a registration decorator): every return returns
    the first parameter, which is never rebound."""
    fn = facts.funcs.get(name) if name else None
    if fn is None or not fn.args.args or fn.decorator_list:
        return False
    p = fn.args.args[0].arg
    rets = [n for n in ast.walk(fn) if isinstance(n, ast.Return)]
    stores = [n for n in ast.walk(fn) if isinstance(n, ast.Name) and n.id == p and isinstance(n.ctx, ast.Store)]
    nested = [n for n in ast.walk(fn) if isinstance(n, (ast.FunctionDef, ast.Lambda)) and n is not fn]
    return bool(rets) and not stores and not nested and all(isinstance(r.value, ast.Name) and r.value.id == p for r in rets)


def bind_siblings(w, st, fn, parent):
    """A nested function walked on its own still sees the other functions nested in its parent (as closures whose free variables are
    looked up in the same symbolic environment)."""
    if parent is None:
        return
    for node in parent.body:
        if isinstance(node, ast.FunctionDef) and node.name not in st.env and node.name != fn.name:
            st.env[node.name] = ('closure', node.name, id(node))
            w.__dict__.setdefault('_closures', {})[id(node)] = node
    w._frames.append((parent, st.env))


def function_paths(facts, fn, inline='all', opaque=(), name_results=False, max_paths=20000, self_class=None, defaults=(), parent=None):
    """Every path through the body of `fn` (a FunctionDef: module-level function, method or nested function) with its parameters
    symbolic (`self_class`: the class of the first parameter of a method).  Returns (walker, [PathState])."""
    w = HWalker(facts, root_fn=fn, inline=inline, opaque=opaque, name_results=name_results, max_paths=max_paths)
    st = PathState()
    a = fn.args
    if self_class is not None and a.args:
        st.fact(('name', a.args[0].arg))['isa'].add(self_class)
    # parameters that the caller knows are always left at their default value
    pos = [x.arg for x in getattr(a, 'posonlyargs', []) + a.args]
    dflt = dict(zip(pos[len(pos) - len(a.defaults):], a.defaults))
    dflt.update({x.arg: d for x, d in zip(a.kwonlyargs, a.kw_defaults) if d is not None})
    for x in getattr(a, 'posonlyargs', []) + a.args + a.kwonlyargs:
        st.env[x.arg] = ('name', x.arg)
    if a.vararg:
        st.env[a.vararg.arg] = ('name', a.vararg.arg)
    if a.kwarg:
        st.env[a.kwarg.arg] = ('name', a.kwarg.arg)
    for name in defaults:
        if name in dflt:
            st.env[name] = w.sym(dflt[name], PathState())
    bind_siblings(w, st, fn, parent if parent is not None else enclosing_function(fn))
    return w, w.run(fn.body, st)


def loop_paths_h(facts, fn, inline='all', opaque=(), self_class=None, parent=None):
    """pathwalk.loop_paths with the higher-order walker: path summaries of one iteration of the first top-level `for` (or `while`)
    loop of `fn` (locals that the loop mutates are the symbolic ('lv', name)).  Returns (loop node, [PathState]); for a while loop
    the state before the loop is available as paths[i].pre_env."""
    from .pathwalk import MUTATORS
    from .core import AnalysisError
    w = HWalker(facts, root_fn=fn, inline=inline, opaque=opaque)
    pre = PathState()
    for a in fn.args.args + fn.args.kwonlyargs:
        pre.env[a.arg] = ('name', a.arg)
    if self_class is not None and fn.args.args:
        pre.fact(('name', fn.args.args[0].arg))['isa'].add(self_class)
    bind_siblings(w, pre, fn, parent if parent is not None else enclosing_function(fn))
    target = None
    prelude_done = []
    live = [pre]
    for node in fn.body:
        if isinstance(node, (ast.For, ast.While)):
            target = node
            break
        nxt = []
        for s in live:
            nxt.extend(w.stmt(node, s, prelude_done))
        live = nxt
    if target is None:
        raise AnalysisError('anchor vanished: main loop of {}'.format(fn.name))
    mutated = set()
    for n in ast.walk(target):
        if isinstance(n, ast.Name) and isinstance(n.ctx, ast.Store):
            mutated.add(n.id)
        if isinstance(n, ast.Call) and isinstance(n.func, ast.Attribute) and isinstance(n.func.value, ast.Name) and n.func.attr in MUTATORS:
            mutated.add(n.func.value.id)
        if isinstance(n, ast.Subscript) and isinstance(n.ctx, ast.Store) and isinstance(n.value, ast.Name):
            mutated.add(n.value.id)
    params = {a.arg for a in fn.args.args + fn.args.kwonlyargs}
    results = []
    for s in live:
        pre_env = dict(s.env)
        s = s.clone()
        s.events = []
        s.conds = []
        for n in mutated:
            if n in s.env and n not in params and s.env[n][0] not in ('closure',):
                s.env[n] = ('lv', n)
        if isinstance(target, ast.While):
            test = w.sym(target.test, s)
            paths = w.run(target.body, s)
            for p in paths:
                p.pre_env = pre_env
                p.loop_test = test
            results.extend(paths)
            continue
        if isinstance(target.target, ast.Name):
            s.env[target.target.id] = ('item', target.target.id)
        else:
            for e in ast.walk(target.target):
                if isinstance(e, ast.Name):
                    s.env[e.id] = ('item', e.id)
        paths = w.run(target.body, s)
        for p in paths:
            p.pre_env = pre_env
        results.extend(paths)
    return target, results


def normalise(facts, v):
    """Rewrite <Cls(args...)>.attr to the constructor argument stored in that attribute (a freshly built object's field is the value
    it was built from), and drop result wrappers."""
    if not isinstance(v, tuple) or not v:
        return v
    if v[0] == 'res':
        return normalise(facts, v[3])
    v = tuple(normalise(facts, x) if isinstance(x, tuple) else x for x in v)
    if v[0] == 'attr' and isinstance(v[1], tuple) and v[1] and v[1][0] == 'new' and v[1][1] in facts.classes:
        order = dict(facts.full_attr_order(v[1][1]))
        param = order.get(v[2])
        fields = ctor_fields(facts, v[1])
        if param in fields:
            return fields[param]
    return v


def all_values(path):
    """Every symbolic value mentioned by the events of a path (event payloads and the final return value)."""
    out = []
    for ev in path.events:
        for part in ev[1:]:
            if isinstance(part, tuple):
                out.append((part, ev[-1] if isinstance(ev[-1], ast.AST) else None))
    return out
