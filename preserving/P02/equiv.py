#!/usr/bin/env python
"""
Differential check: the refactored bronzebeard/asm.py must behave exactly like
the version committed at HEAD.

The original module is materialised from `git show HEAD:bronzebeard/asm.py`
into a temp file and imported under another name. Both modules then assemble

  * a few thousand randomly generated programs (fixed seed), and
  * every file under examples/

with compress=False and compress=True. For every run we compare the produced
bytes, the final labels dict, the final constants dict (contents and key
order), the exception type + text for refused programs, and the sequence of
INFO log messages emitted by the passes.

Exit status is 0 only if everything matches.
"""

import collections
import glob
import importlib.util
import logging
import os
import random
import subprocess
import sys
import tempfile

ROOT = os.path.dirname(os.path.abspath(__file__))
SEED = 0xB20EBEAD
NUM_PROGRAMS = int(os.environ.get('EQUIV_PROGRAMS', '4000'))


# ---------------------------------------------------------------- module loading

def load_module(name, path):
    spec = importlib.util.spec_from_file_location(name, path)
    mod = importlib.util.module_from_spec(spec)
    sys.modules[name] = mod
    spec.loader.exec_module(mod)
    return mod


class Capture(logging.Handler):
    def __init__(self):
        super().__init__(level=logging.INFO)
        self.messages = []

    def emit(self, record):
        self.messages.append(record.getMessage())


def load_both(tmpdir):
    original_src = subprocess.run(
        ['git', 'show', 'HEAD:bronzebeard/asm.py'],
        cwd=ROOT, check=True, stdout=subprocess.PIPE,
    ).stdout
    original_path = os.path.join(tmpdir, 'asm_original.py')
    with open(original_path, 'wb') as f:
        f.write(original_src)

    # EQUIV_CANDIDATE lets the harness itself be tested against a deliberately broken copy
    refactored_path = os.environ.get('EQUIV_CANDIDATE') or os.path.join(ROOT, 'bronzebeard', 'asm.py')
    print('comparing HEAD:bronzebeard/asm.py against {}'.format(refactored_path))
    with open(refactored_path, 'rb') as f:
        if f.read() == original_src:
            print('WARNING: working tree asm.py is identical to HEAD (nothing to compare)')

    old = load_module('asm_original', original_path)
    new = load_module('asm_refactored', refactored_path)
    for mod in (old, new):
        mod.capture = Capture()
        mod.log.addHandler(mod.capture)
        mod.log.setLevel(logging.INFO)
        mod.log.propagate = False
    return old, new


# ---------------------------------------------------------------- running + comparing

def run(mod, source, compress, constants, labels, include_dirs=None):
    """Assemble and return a fully comparable outcome tuple."""
    constants = None if constants is None else dict(constants)
    labels = None if labels is None else dict(labels)
    # assemble() only exposes the final dicts when the caller supplies them
    c = {} if constants is None else constants
    l = {} if labels is None else labels
    mod.capture.messages = []
    try:
        binary = mod.assemble(source, constants=c, labels=l, compress=compress, include_dirs=include_dirs)
        result = ('ok', bytes(binary))
    except Exception as e:  # AssemblerError and anything that leaks through
        result = ('error', type(e).__name__, str(e))
    # dicts are compared with their ordering, also after a refusal
    return result, list(c.items()), list(l.items()), list(mod.capture.messages)


def describe(outcome):
    result, constants, labels, logs = outcome
    if result[0] == 'ok':
        head = 'ok, {} bytes: {}'.format(len(result[1]), result[1][:64].hex())
    else:
        head = '{}: {}'.format(result[1], result[2])
    return '{}\n    constants={}\n    labels={}\n    ({} log lines)'.format(head, constants, labels, len(logs))


def first_log_difference(a, b):
    for i, (x, y) in enumerate(zip(a, b)):
        if x != y:
            return 'log line {}:\n    old: {}\n    new: {}'.format(i, x, y)
    return 'log length {} vs {}'.format(len(a), len(b))


# ---------------------------------------------------------------- random programs

REG_NAMES = (
    ['x{}'.format(i) for i in range(32)]
    + ['zero', 'ra', 'sp', 'gp', 'tp', 't0', 't1', 't2', 's0', 'fp', 's1',
       'a0', 'a1', 'a2', 'a3', 'a4', 'a5', 'a6', 'a7', 's2', 's3', 's4',
       't3', 't4', 't5', 't6']
    + [str(i) for i in range(32)]
)
COMMON_REGS = ['x8', 'x9', 'x10', 'x11', 'x12', 'x13', 'x14', 'x15', 's0', 's1', 'a0', 'a1', 'a2', 'a3', 'a4', 'a5', 'fp']

R_OPS = ['add', 'sub', 'sll', 'slt', 'sltu', 'xor', 'srl', 'sra', 'or', 'and',
         'mul', 'mulh', 'mulhsu', 'mulhu', 'div', 'divu', 'rem', 'remu']
SHIFT_OPS = ['slli', 'srli', 'srai']
I_ALU_OPS = ['addi', 'slti', 'sltiu', 'xori', 'ori', 'andi']
LOAD_OPS = ['lb', 'lh', 'lw', 'lbu', 'lhu']
STORE_OPS = ['sb', 'sh', 'sw']
BRANCH_OPS = ['beq', 'bne', 'blt', 'bge', 'bltu', 'bgeu']
CSR_OPS = ['csrrw', 'csrrs', 'csrrc']
CSRI_OPS = ['csrrwi', 'csrrsi', 'csrrci']
AMO_OPS = ['sc.w', 'amoswap.w', 'amoadd.w', 'amoxor.w', 'amoand.w', 'amoor.w',
           'amomin.w', 'amomax.w', 'amominu.w', 'amomaxu.w']


class ProgramGenerator:

    def __init__(self, rng):
        self.rng = rng
        r = rng
        self.num_labels = r.randint(1, 8)
        self.labels = ['l{}'.format(i) for i in range(self.num_labels)]
        self.preset_labels = {}
        self.preset_constants = {}
        self.int_constants = []
        self.reg_constants = []
        self.far_constants = []
        self.small_constants = []
        # profile knobs: some programs are "dense" in compressible material,
        # some are sloppy and error-prone
        self.sloppy = r.random() < 0.12
        self.favour_common_regs = r.random() < 0.6
        self.big_fillers = r.random() < 0.10
        self.huge_aligns = r.random() < 0.03
        # tidy programs re-align after data so that most of them assemble
        self.tidy = (not self.sloppy) and r.random() < 0.9

    # ---- operands

    def reg(self):
        r = self.rng
        if self.reg_constants and r.random() < 0.08:
            return r.choice(self.reg_constants)
        if self.sloppy and r.random() < 0.02:
            return r.choice(['x32', 'q7', '-1', 'l0', '99'])
        if self.favour_common_regs and r.random() < 0.6:
            return r.choice(COMMON_REGS)
        if r.random() < 0.15:
            return r.choice(['x0', 'x1', 'x2', 'sp', 'ra', 'zero', '0x2', '0b1'])
        return r.choice(REG_NAMES)

    def label(self):
        r = self.rng
        if self.sloppy and r.random() < 0.03:
            return 'undefined_label'
        if self.preset_labels and r.random() < 0.1:
            return r.choice(list(self.preset_labels))
        return r.choice(self.labels)

    def target(self):
        """Something usable as an %offset reference (label, or constant address)."""
        r = self.rng
        if self.far_constants and r.random() < 0.15:
            return r.choice(self.far_constants)
        if self.int_constants and not self.tidy and r.random() < 0.04:
            return r.choice(self.int_constants)
        return self.label()

    def small_int(self):
        r = self.rng
        kind = r.random()
        if kind < 0.3:
            return r.randint(-32, 31)
        if kind < 0.45:
            return r.choice([0, 0, 1, -1, 4, 8, 12, 16, 32, 64, 124, 128, 252, 256, -16, -32, -512, 496, 512, 1020, 1024])
        if kind < (0.995 if self.tidy else 0.9):
            return r.randint(-2048, 2047)
        return r.choice([-2049, 2048, 4095, 0xfff, -4096])

    def any_int(self):
        r = self.rng
        kind = r.random()
        if kind < 0.35:
            return self.small_int()
        if kind < 0.5:
            return r.choice([2047, 2048, -2048, -2049, 0x7ff, 0x800, 0xfff, 0x1000, 0x7ffff800, 0x7fffffff,
                             0x80000000, 0xffffffff, 0xfffff800, 0xfffff7ff, -0x80000000, 0x100000000, 0x1234,
                             0xdeadbeef, 0x20000000, 0x08000000, 0xfffe0000, 0x1f000, 0x20000])
        if kind < 0.8:
            return r.randint(-2**31, 2**32 - 1)
        return r.randint(-70000, 70000)

    def fmt_int(self, value):
        r = self.rng
        kind = r.random()
        if kind < 0.6:
            return str(value)
        if kind < 0.9:
            return hex(value)
        if kind < 0.95:
            return bin(value)
        return oct(value)

    def arith(self, small=True):
        """Arithmetic expression text (no leading %modifier)."""
        r = self.rng
        kind = r.random()
        value = self.small_int() if small else self.any_int()
        if kind < 0.55:
            return self.fmt_int(value)
        if kind < 0.7 and self.int_constants:
            if small and self.tidy:
                return r.choice(self.small_constants) if self.small_constants else self.fmt_int(value)
            return r.choice(self.int_constants)
        if kind < 0.78 and self.int_constants and not (small and self.tidy):
            return '{} {} {}'.format(r.choice(self.int_constants), r.choice(['+', '-', '&', '|', '^']), self.fmt_int(abs(value) % 64))
        if kind < 0.86:
            return '{} {} {}'.format(self.label(), r.choice(['+', '-']), r.randint(0, 16))
        if kind < 0.92:
            return '{} - {}'.format(self.label(), self.label())
        if kind < 0.95:
            return '({} >> {}) & {}'.format(self.label(), r.randint(0, 3), r.choice(['0xff', '0x1f', '0x7fc', '31']))
        if kind < 0.97:
            return r.choice(["'a'", "'\\n'", "'0'"])
        if self.sloppy:
            return r.choice(['1 +', 'nope', '1 / 2', '1 // 0', '"s"', '2 ** 40', '(1'])
        return self.label()

    def modifier(self, which, inner=None):
        r = self.rng
        if inner is None:
            kind = r.random()
            if kind < 0.35:
                inner = self.label()
            elif kind < 0.5:
                inner = '%offset {}'.format(self.target())
            elif kind < 0.6:
                inner = '%offset({})'.format(self.target())
            elif kind < 0.75:
                inner = '%position({}, {})'.format(self.label(), self.fmt_int(r.choice([0, 0x08000000, 0x20000000, 0x1000, 0x7ff, 0x800])))
            elif kind < 0.8:
                inner = '%position {} {}'.format(self.label(), self.fmt_int(r.choice([0, 0x08000000, 0x800])))
            else:
                inner = self.arith(small=False)
        if r.random() < 0.7:
            return '%{}({})'.format(which, inner)
        return '%{} {}'.format(which, inner)

    def imm12(self):
        r = self.rng
        kind = r.random()
        if kind < 0.72:
            return self.arith(small=True)
        if kind < 0.92:
            return self.modifier('lo')
        if kind < 0.96:
            return '%offset {}'.format(self.label())
        return '%position {} {}'.format(self.label(), r.randint(-8, 8))

    def imm20(self):
        r = self.rng
        kind = r.random()
        if kind < 0.35:
            return self.fmt_int(r.choice([0, 1, 2, 31, 32, 0x1f, 0x20, 0xfffe0, 0xfffff, 0xfffdf, 0x12345, -1, -32, -33, 0x100000]))
        if kind < 0.5:
            return self.fmt_int(r.randint(0, 0xfffff))
        if kind < 0.9:
            return self.modifier('hi')
        return self.arith(small=True)

    # ---- lines

    def constant_line(self, index):
        r = self.rng
        kind = r.random()
        if kind < 0.12:
            name = 'R{}'.format(index)
            self.reg_constants.append(name)
            return '{} = {}'.format(name, r.choice(REG_NAMES[:58]))
        if kind < 0.24:
            name = 'FAR{}'.format(index)
            self.far_constants.append(name)
            value = r.choice([0x100000, 0x100002, 0x200000, 0x7ffff000, 0x80000000, 0xfffffffc,
                              -0x100000, -0x100002, 0xffffe, 0x100800, 0xff800, 0x40000000]
                             + ([] if self.tidy else [0xfffff, 0x40000001]))
            return '{} = {}'.format(name, self.fmt_int(value))
        name = 'K{}'.format(index)
        if self.int_constants and r.random() < 0.3:
            expr = '{} {} {}'.format(r.choice(self.int_constants), r.choice(['+', '-', '*', '<<', '|', '&']), r.randint(0, 12))
        elif self.sloppy and r.random() < 0.05:
            expr = r.choice(['l0', '%hi(4)', 'K99 + 1', '1.5'])
        else:
            value = self.any_int() if r.random() < 0.5 else self.small_int()
            expr = self.fmt_int(value)
            if -2048 <= value <= 2047:
                self.small_constants.append(name)
        self.int_constants.append(name)
        return '{} = {}'.format(name, expr)

    def mem_operand(self, op, a, b):
        r = self.rng
        offset = r.choice([self.fmt_int(v) for v in (0, 4, 8, 12, 16, 60, 64, 124, 128, 252, 256, 2, 3, -4, 2044)] + [self.imm12()])
        if r.random() < 0.5 and ' ' not in offset and '%' not in offset:
            return '{} {}, {}({})'.format(op, a, offset, b)
        if op in STORE_OPS:
            # non-paren store syntax is "sw rs1, rs2, imm"
            return '{} {}, {}, {}'.format(op, b, a, offset)
        return '{} {}, {}, {}'.format(op, a, b, offset)

    def plain_instruction(self):
        r = self.rng
        kind = r.random()
        if kind < 0.12:
            rd = self.reg()
            rs1 = rd if r.random() < 0.6 else self.reg()
            return '{} {}, {}, {}'.format(r.choice(R_OPS), rd, rs1, self.reg())
        if kind < 0.16:
            # mv-like add
            return 'add {}, {}, {}'.format(self.reg(), r.choice(['x0', 'zero', '0']), self.reg())
        if kind < 0.24:
            rd = self.reg()
            rs1 = rd if r.random() < 0.7 else self.reg()
            shamt = r.choice([0, 1, 2, 3, 4, 5, 8, 12, 16, 31, 31] + ([] if self.tidy else [32]))
            if not self.tidy and r.random() < 0.1:
                shamt = self.reg()
            return '{} {}, {}, {}'.format(r.choice(SHIFT_OPS), rd, rs1, shamt)
        if kind < 0.44:
            op = r.choice(I_ALU_OPS) if r.random() < 0.5 else 'addi'
            rd = self.reg()
            pick = r.random()
            if pick < 0.45:
                rs1 = rd
            elif pick < 0.6:
                rs1 = r.choice(['x0', 'zero'])
            elif pick < 0.75:
                rd, rs1 = r.choice([('sp', 'sp'), ('x2', 'x2'), (r.choice(COMMON_REGS), 'sp')])
            else:
                rs1 = self.reg()
            return '{} {}, {}, {}'.format(op, rd, rs1, self.imm12())
        if kind < 0.54:
            op = r.choice(LOAD_OPS) if r.random() < 0.4 else 'lw'
            base = 'sp' if r.random() < 0.3 else self.reg()
            return self.mem_operand(op, self.reg(), base)
        if kind < 0.64:
            op = r.choice(STORE_OPS) if r.random() < 0.4 else 'sw'
            base = 'sp' if r.random() < 0.3 else self.reg()
            return self.mem_operand(op, self.reg(), base)
        if kind < 0.74:
            rs2 = r.choice(['x0', 'zero']) if r.random() < 0.5 else self.reg()
            ref = self.label() if r.random() < 0.93 else self.fmt_int(r.choice([0, 2, 4, -4, 8, 254, 256, -256, -258, 4094, 4096, 3]))
            return '{} {}, {}, {}'.format(r.choice(BRANCH_OPS), self.reg(), rs2, ref)
        if kind < 0.80:
            return '{} {}, {}'.format(r.choice(['lui', 'lui', 'auipc']), self.reg(), self.imm20())
        if kind < 0.86:
            rd = r.choice(['x0', 'x1', 'ra', 'zero']) if r.random() < 0.8 else self.reg()
            ref = self.label() if self.tidy or r.random() < 0.7 else self.target()
            if r.random() < 0.1:
                ref = self.fmt_int(r.choice([0, 2, 4, -4, 2046, 2048, -2048, -2050, 0xffffe] + ([] if self.tidy else [3, 0x100000])))
            return 'jal {}, {}'.format(rd, ref)
        if kind < 0.90:
            rd = r.choice(['x0', 'x1', 'ra', 'zero']) if r.random() < 0.8 else self.reg()
            imm = '0' if r.random() < 0.6 else self.imm12()
            if r.random() < 0.3 and ' ' not in imm and '%' not in imm:
                return 'jalr {}, {}({})'.format(rd, imm, self.reg())
            return 'jalr {}, {}, {}'.format(rd, self.reg(), imm)
        if kind < 0.93:
            return r.choice(['ebreak', 'ecall', 'fence.i', 'ebreak'])
        if kind < 0.95:
            if r.random() < 0.5:
                return '{} {}, {}, {}'.format(r.choice(CSR_OPS), self.reg(), self.reg(), self.fmt_int(r.choice([0x300, 0x305, 0x341, 0xfff, 0x1000])))
            return '{} {}, {}, {}'.format(r.choice(CSRI_OPS), self.reg(), r.randint(0, 31), self.fmt_int(r.choice([0x300, 0x304])))
        if kind < 0.97:
            if r.random() < 0.3:
                return 'lr.w {}, {}{}'.format(self.reg(), self.reg(), r.choice(['', ' 1 0', ' 1 1']))
            return '{} {}, {}, {}{}'.format(r.choice(AMO_OPS), self.reg(), self.reg(), self.reg(), r.choice(['', '', ' 0 1', ' 1 1']))
        if kind < 0.985:
            return 'fence {}, {}'.format(r.choice(['0b1111', '0b0011', '15', '1']), r.choice(['0b1111', '0b0001', '3']))
        return self.explicit_compressed()

    def explicit_compressed(self):
        r = self.rng
        c = r.choice(COMMON_REGS)
        return r.choice([
            'c.nop',
            'c.ebreak',
            'c.addi {}, {}'.format(self.reg(), r.choice([1, -1, 31, -32, 5])),
            'c.li {}, {}'.format(self.reg(), r.randint(-32, 31)),
            'c.lui {}, {}'.format(r.choice(['x5', 'a0', 's1']), r.choice([1, 31, 0x1f])),
            'c.slli {}, {}'.format(self.reg(), r.randint(1, 31)),
            'c.srli {}, {}'.format(c, r.randint(1, 31)),
            'c.srai {}, {}'.format(c, r.randint(1, 31)),
            'c.andi {}, {}'.format(c, r.randint(-32, 31)),
            'c.mv {}, {}'.format(self.reg(), self.reg()),
            'c.add {}, {}'.format(self.reg(), self.reg()),
            'c.sub {}, {}'.format(c, r.choice(COMMON_REGS)),
            'c.xor {}, {}'.format(c, r.choice(COMMON_REGS)),
            'c.or {}, {}'.format(c, r.choice(COMMON_REGS)),
            'c.and {}, {}'.format(c, r.choice(COMMON_REGS)),
            'c.jr {}'.format(self.reg()),
            'c.jalr {}'.format(self.reg()),
            'c.j %offset {}'.format(self.label()),
            'c.jal %offset {}'.format(self.label()),
            'c.j {}'.format(r.choice([0, 2, -2, 64, 2046])),
            'c.beqz {}, %offset {}'.format(c, self.label()),
            'c.bnez {}, %offset({})'.format(c, self.label()),
            'c.lw {}, {}, {}'.format(c, r.choice(COMMON_REGS), r.choice([0, 4, 64, 124])),
            'c.sw {}, {}, {}'.format(c, r.choice(COMMON_REGS), r.choice([0, 4, 64, 124])),
            'c.lwsp {}, {}'.format(self.reg(), r.choice([0, 4, 128, 252])),
            'c.swsp {}, {}'.format(self.reg(), r.choice([0, 4, 128, 252])),
            'c.addi16sp {}'.format(r.choice([16, -16, 496, -512, 32])),
            'c.addi4spn {}, {}'.format(c, r.choice([4, 8, 1020, 64])),
        ])

    def li_value(self):
        r = self.rng
        kind = r.random()
        if kind < 0.3:
            return self.arith(small=True)
        if kind < 0.6:
            return self.arith(small=False)
        if kind < 0.7:
            return self.label()
        if kind < 0.76:
            return '{} + {}'.format(self.label(), r.choice([0, 2040, 2047, 2048, 4096, 0x08000000, -4]))
        if kind < 0.82:
            return '%position({}, {})'.format(self.label(), self.fmt_int(r.choice([0, 0x7f0, 0x800, 0x08000000, -8])))
        if kind < 0.86:
            return '%offset {}'.format(self.target())
        if kind < 0.9:
            return self.modifier('hi')
        if kind < 0.94:
            return self.modifier('lo')
        return self.fmt_int(r.choice([2047, 2048, -2048, -2049, 0xfffff800, 0xfffff7ff, 0xffffffff, 0x80000000,
                                      0x100000000, 0x1000007ff, -0x80000001]))

    def pseudo_instruction(self):
        r = self.rng
        kind = r.random()
        if kind < 0.22:
            return 'li {}, {}'.format(self.reg(), self.li_value())
        if kind < 0.34:
            return 'call {}'.format(self.target())
        if kind < 0.46:
            return 'tail {}'.format(self.target())
        if kind < 0.52:
            return 'j {}'.format(self.label() if self.tidy else self.target())
        if kind < 0.58:
            return 'jal {}'.format(self.label() if self.tidy else self.target())
        if kind < 0.61:
            return 'jr {}'.format(self.reg())
        if kind < 0.64:
            return 'jalr {}'.format(self.reg())
        if kind < 0.68:
            return 'ret'
        if kind < 0.71:
            return 'nop'
        if kind < 0.73:
            return 'fence'
        if kind < 0.83:
            return '{} {}, {}'.format(r.choice(['mv', 'not', 'neg', 'seqz', 'snez', 'sltz', 'sgtz']), self.reg(), self.reg())
        if kind < 0.93:
            return '{} {}, {}'.format(r.choice(['beqz', 'bnez', 'blez', 'bgez', 'bltz', 'bgtz']), self.reg(), self.label())
        if kind < 0.99:
            return '{} {}, {}, {}'.format(r.choice(['bgt', 'ble', 'bgtu', 'bleu']), self.reg(), self.reg(), self.label())
        if self.sloppy:
            return r.choice(['li a0', 'mv a0', 'call', 'beqz a0', 'tail l0 l1', 'li', 'j'])
        return 'nop'

    def data_line(self):
        r = self.rng
        kind = r.random()
        if kind < 0.16:
            n = r.randint(1, 9)
            return 'bytes ' + ' '.join(self.fmt_int(r.randint(0, 255)) for _ in range(n))
        if kind < 0.22:
            return 'bytes ' + ' '.join(str(r.randint(-128, 127)) for _ in range(r.randint(1, 5)))
        if kind < 0.30:
            return 'shorts ' + ' '.join(self.fmt_int(r.randint(0, 0xffff)) for _ in range(r.randint(1, 5)))
        if kind < 0.38:
            return 'ints ' + ' '.join(self.fmt_int(r.randint(0, 0xffffffff)) for _ in range(r.randint(1, 4)))
        if kind < 0.42:
            return r.choice(['longs', 'longlongs']) + ' ' + ' '.join(self.fmt_int(r.randint(-5, 0xffffffff)) for _ in range(r.randint(1, 3)))
        if kind < 0.54:
            return 'string ' + r.choice(['hi', 'hello world', '"quoted"', 'a', 'abc\\n', 'tab\\there', 'xyz12', 'odd'])
        if kind < 0.70:
            op = r.choice(['db', 'dh', 'dw', 'dd'])
            pick = r.random()
            if pick < 0.4:
                value = self.fmt_int(r.choice([0, 1, -1, 127, 255, -128, 0x7fff, 0xffff, 0x12345678, 0xffffffff, 256, 65536]))
            elif pick < 0.6:
                value = self.label()
            elif pick < 0.7:
                value = '%position({}, {})'.format(self.label(), self.fmt_int(0x08000000))
            elif pick < 0.8:
                value = '%offset {}'.format(self.label())
            elif pick < 0.9:
                value = '{} - {}'.format(self.label(), self.label())
            else:
                value = self.arith(small=False)
            return '{} {}'.format(op, value)
        if kind < 0.82:
            fmt = r.choice(['<B', '<H', '<I', '<i', '<h', '<b', '>I', '<Q', '<q', 'I'])
            value = r.choice([self.label(), self.arith(small=True), self.arith(small=False),
                              '%position {} 0x1000'.format(self.label()), self.modifier('lo'), self.modifier('hi')])
            return 'pack {} {}'.format(fmt, value)
        if self.sloppy and kind < 0.84:
            return r.choice(['bytes 256', 'shorts -40000', 'bytes zz', 'pack <Z 1', 'db', 'string', 'error custom failure'])
        # fall through to filler that moves positions around a lot
        return self.filler_line()

    def filler_line(self):
        r = self.rng
        if self.big_fillers:
            n = r.choice([100, 130, 250, 300, 600, 1100, 2100, 4200])
            return 'bytes ' + ' '.join('0' for _ in range(n))
        return 'bytes ' + ' '.join(str(r.randint(0, 9)) for _ in range(r.randint(1, 40)))

    def align_line(self):
        r = self.rng
        kind = r.random()
        if self.huge_aligns and kind < 0.35:
            return 'align {}'.format(r.choice(['0x100000', '0x80000', '0x200000', '1048576']))
        if kind < 0.55:
            return 'align {}'.format(r.choice([2, 4, 4, 4, 8, 16]))
        if kind < 0.75:
            return 'align {}'.format(r.choice([1, 3, 5, 6, 7, 12, 32, 64, 100, 128]))
        if kind < 0.88:
            return 'align {}'.format(r.choice(['0x10', '0x100', '256', '512', '1024', '0x800', '4096', '0b1000']))
        if kind < 0.96:
            # questionable, but accepted by the parser: keep them equivalent too
            return 'align {}'.format(r.choice(['-4', '-2', '-1', '-3', '-16', '-7']))
        if self.sloppy:
            return 'align {}'.format(r.choice(['0', 'four', 'K0', '']))
        return 'align 4'

    def body_line(self):
        r = self.rng
        kind = r.random()
        if kind < 0.46:
            return self.plain_instruction()
        if kind < 0.76:
            return self.pseudo_instruction()
        if kind < 0.88:
            line = self.data_line()
        elif kind < 0.97:
            line = self.align_line()
        else:
            line = self.filler_line()
        if self.tidy and r.random() < 0.97:
            # stays glued to the data line: labels are only inserted between body entries
            line += '\nalign {}'.format(r.choice([2, 2, 4, 4, 8]))
        return line

    # ---- whole program

    def generate(self):
        r = self.rng

        # optional presets handed to assemble()
        if r.random() < 0.12:
            for i in range(r.randint(1, 3)):
                self.preset_labels['ext{}'.format(i)] = r.choice([0, 4, 6, 100, 0x1000, 0x100000, 0x200000, 0x08000000, -8, 17])
            if r.random() < 0.3:
                # a preset that collides with a label the program defines itself
                self.preset_labels['l0'] = r.choice([0, 40, 0x100000])
        if r.random() < 0.08:
            self.preset_constants['PRE'] = r.choice([0, 5, 0x300000, -1, 2048])
            self.int_constants.append('PRE')

        header = [self.constant_line(i) for i in range(r.randint(0, 5))]

        body = [self.body_line() for _ in range(r.randint(1, 60))]

        # scatter label definitions: before everything, after everything, in between
        for name in self.labels:
            kind = r.random()
            if self.sloppy and kind < 0.1:
                continue  # never defined
            if kind < 0.12:
                at = 0
            elif kind < 0.24:
                at = len(body)
            else:
                at = r.randint(0, len(body))
            body.insert(at, name + ':')
            if r.random() < 0.03:
                body.insert(r.randint(0, len(body)), name + ':')  # redefinition
        if self.int_constants and r.random() < 0.03:
            # label shadowing a constant name
            body.insert(r.randint(0, len(body)), r.choice(self.int_constants) + ':')

        # late constants (constants are resolved before labels regardless of placement)
        for i in range(r.randint(0, 2)):
            body.insert(r.randint(0, len(body)), self.constant_line(100 + i))

        lines = header + body
        if r.random() < 0.3:
            lines = [l if l.endswith(':') or r.random() < 0.5 else '    ' + l for l in lines]
        if r.random() < 0.2:
            lines.insert(r.randint(0, len(lines)), '# just a comment')
            lines.insert(r.randint(0, len(lines)), '')
        source = '\n'.join(lines) + '\n'

        constants = self.preset_constants if (self.preset_constants or r.random() < 0.5) else None
        labels = self.preset_labels if (self.preset_labels or r.random() < 0.5) else None
        return source, constants, labels


# ---------------------------------------------------------------- main

def main():
    failures = 0
    stats = collections.Counter()
    error_kinds = collections.Counter()

    with tempfile.TemporaryDirectory(prefix='bb_equiv_') as tmpdir:
        old, new = load_both(tmpdir)

        def check(title, source, constants, labels, include_dirs=None, show_source=True):
            nonlocal failures
            ok = True
            for compress in (False, True):
                a = run(old, source, compress, constants, labels, include_dirs)
                b = run(new, source, compress, constants, labels, include_dirs)
                stats['runs'] += 1

                # bookkeeping about what the corpus actually exercised
                if a[0][0] == 'ok':
                    stats['assembled'] += 1
                else:
                    stats['refused'] += 1
                    message = a[0][2].splitlines()[-1] if a[0][2] else a[0][1]
                    error_kinds[(a[0][1], message.split('"')[0].split(':')[0:2][-1].strip()[:50])] += 1
                for message in a[3]:
                    if message.startswith('resolve_compressible:'):
                        stats['compressed insts'] += 1
                    elif message.startswith('resolve_aligns:'):
                        stats['aligns padded'] += 1
                    elif message.startswith('transform_pseudo_instructions:'):
                        if '-> "lui ' in message:
                            stats['li far (lui+addi)'] += 1
                        elif '-> "auipc ' in message:
                            stats['call/tail far (auipc+jalr)'] += 1
                        elif '"call ' in message or '"tail ' in message:
                            if '-> "jal ' in message:
                                stats['call/tail near (jal)'] += 1
                        elif ': "li ' in message and '-> "addi ' in message and 'x0, %lo' in message.replace('zero', 'x0'):
                            stats['li near (addi)'] += 1

                if a != b:
                    ok = False
                    failures += 1
                    print('=' * 78)
                    print('MISMATCH in {} (compress={})'.format(title, compress))
                    if show_source:
                        print(source)
                        print('preset constants={} labels={}'.format(constants, labels))
                    if a[:3] != b[:3]:
                        print('  old: ' + describe(a))
                        print('  new: ' + describe(b))
                    else:
                        print('  results agree but logging differs: ' + first_log_difference(a[3], b[3]))
            return ok

        # 1. hand-written corner cases that must be part of every run
        fixed = [
            'start:\n  li a0, 2047\n  li a0, 2048\n  li a0, -2048\n  li a0, -2049\n  li a0, end\nend:\n',
            'FAR = 0x100000\n  call FAR\nmid:\n  tail FAR\n  call mid\n  tail end\nend:\n',
            'FAR = 0xffffe\n  call FAR\n  tail FAR\nx:\n',
            'a:\n  bytes 1\n  align 4\nb:\n  align 4\nc:\n  align 8\nd:\n  jal x0, a\n  jal ra, d\n',
            'a:\n  align -4\nb:\n  bytes 1 2 3\n  align -4\nc:\n  addi x0, x0, 0\n  j b\n',
            'a:\n  align 0\nb:\n',
            'main:\n  addi sp, sp, -16\n  sw ra, 12(sp)\n  call main\n  lw ra, 12(sp)\n  addi sp, sp, 16\n  ret\n',
            'loop:\n  beqz a0, loop\n  bnez s0, done\n  j loop\ndone:\n  lui a0, %hi(done)\n  addi a0, a0, %lo(done)\n',
            '  align 0x100000\nx:\n  call y\n  align 0x100000\ny:\n  tail x\n',
            '  call nowhere\n',
            '  li a0, 1 +\n',
            'l:\nl:\n  j l\n',
            'K = 4\nK:\n  li a0, K\n  j K\n',
            '  addi q9, a0, 1\n',
            '  slli a0, a0, 32\n  srli s0, s0, 0\n',
            'x:\n  lui a0, 0xfffe0\n  lui a0, 0xfffdf\n  lui a0, 32\n  lui sp, 1\n  lui a0, 0\n',
        ]
        # exact near/far boundaries of call/tail (offset == target, the jump sits at position 0)
        for value in ('-0x100000', '-0x100001', '-0x100002', '0xffffe', '0xfffff', '0x100000', '0x100002'):
            for op in ('call', 'tail'):
                fixed.append('T = {0}\n  {1} T\nafter:\n  {1} T\n  {1} after\nend:\n'.format(value, op))
        # ... and of li
        for value in ('2047', '2048', '-2048', '-2049', '0xfffff800', '0xfffff7ff', '0x100000000', '0x1000007ff', '0x100000800'):
            fixed.append('  li a0, {0}\nafter:\n  li s0, {0}\nend:\n  li x0, end - after\n'.format(value))
        for index, source in enumerate(fixed):
            check('fixed case {}'.format(index), source, {}, {})
            check('fixed case {} (no dicts)'.format(index), source, None, None)
        check('fixed preset labels', 'x:\n  call ext\n  j x\n  tail ext\ny:\n', {}, {'ext': 0x200000, 'y': 2})

        # 2. random programs
        rng = random.Random(SEED)
        for index in range(NUM_PROGRAMS):
            gen = ProgramGenerator(rng)
            source, constants, labels = gen.generate()
            check('random program {}'.format(index), source, constants, labels)
            if failures >= 10:
                print('too many mismatches, giving up')
                break

        # 3. the example programs shipped with the project
        examples = sorted(glob.glob(os.path.join(ROOT, 'examples', '*.asm')))
        definitions = os.path.join(ROOT, 'bronzebeard', 'definitions')
        example_results = []
        for path in examples:
            for include_dirs in (None, [definitions]):
                ok = check('example {}'.format(os.path.basename(path)), path, {}, {}, include_dirs, show_source=False)
            outcome = run(new, path, False, {}, {}, [definitions])[0]
            example_results.append((os.path.basename(path), outcome[0], len(outcome[1]) if outcome[0] == 'ok' else outcome[2]))
        if not examples:
            print('no examples found?!')
            failures += 1

    print('-' * 78)
    print('random programs: {} (seed {:#x}), fixed cases: {}, examples: {}'.format(NUM_PROGRAMS, SEED, len(fixed) * 2 + 1, len(examples)))
    for key in sorted(stats):
        print('  {:32} {}'.format(key, stats[key]))
    print('  distinct refusal kinds: {}'.format(len(error_kinds)))
    for (kind, message), count in error_kinds.most_common(12):
        print('    {:6} {}: {}'.format(count, kind, message))
    for name, status, detail in example_results:
        print('  example {:32} {} ({})'.format(name, status, detail))
    if failures:
        print('FAILED: {} mismatching run(s)'.format(failures))
        return 1
    print('OK: original and refactored assembler agree on every run')
    return 0


if __name__ == '__main__':
    sys.exit(main())
