"""C09 - output is the in-order concatenation of items; align pads minimally with zeros."""
import ast

from ..core import Report, Finding, AnalysisError
from ..facts import Facts
from ..astutil import unparse, dotted
from ..pathwalk import loop_paths, show, is_const
from .. import layoutrules as LR
from ..layout import pipeline
from .. import alignform

LEVEL = 'other'


def check_pipeline_shape(rep, facts, rule):
    """assemble: on every evaluated path the item list is threaded from pass to pass (each pass receives exactly the list the
    previous one returned), the front end only maps / filters in order, and the returned program is the result of the last
    call, which is the byte concatenation pass applied to the final list."""
    from ..layout import pass_pipeline, item_passes
    pl = pass_pipeline(facts)
    fn = facts.funcs['assemble']
    n = 0
    for value, calls, returned in pl.all_paths_with_result():
        triples = item_passes(facts, calls)
        chain = [c for nm, c, a in triples]
        name_of = {id(c): nm for nm, c, a in triples}
        items_of = {id(c): a for nm, c, a in triples}
        n = max(n, len(chain))
        from ..passorder import derived_from
        if chain:
            if returned != chain[-1].result and returned is not None and derived_from(returned, chain[-1].result):
                raise AnalysisError('assemble: the returned value is obtained from the result of {} through an expression that is not followed'.format(chain[-1].name))
            rep.check(returned == chain[-1].result, rule, 'compress={}: assemble returns the result of its last pass'.format(value),
                      lambda chain=chain: Finding(rule, 'assemble', chain[-1].node, 'the value returned by assemble is not the result of the last pass ({})'.format(chain[-1].name),
                                                  line=fn.lineno))
        # a helper that is handed the item list and whose result is dropped: one that visibly changes the list in place edits the
        # program behind the back of the layout; one that is not provably read-only is not understood (no verdict)
        for c in list(chain):
            if getattr(c, 'discarded', False):
                chain.remove(c)
                edits = in_place_edits(facts, c)
                if edits:
                    rep.fail(Finding(rule, 'assemble', c.node, 'the item list is changed in place outside the passes ({} in {}): directives are dropped, added or reordered behind the '
                                     'back of the layout'.format(edits[0], c.name), line=getattr(c.node, 'lineno', fn.lineno)), instance='no in-place change of the item list in assemble')
                else:
                    rep.undecided('assemble: {} receives the item list, its result is dropped and it is not provably read-only'.format(c.name))
        prev = None
        for c in chain:
            if prev is not None:
                ok = items_of[id(c)] == prev.result
                if not ok and derived_from(items_of[id(c)], prev.result):
                    # the previous result reaches this pass through a comprehension / call that is not followed: neither the
                    # same list nor visibly another one
                    rep.undecided('assemble: the list handed to {} is obtained from the result of {} through an expression that is not followed'.format(
                        name_of[id(c)], name_of[id(prev)]))
                    prev = c
                    continue
                rep.check(ok, rule, 'compress={}: {} consumes the list returned by {}'.format(value, name_of[id(c)], name_of[id(prev)]),
                          lambda c=c, prev=prev: Finding(rule, 'assemble', c.node, 'pass {} does not thread the item list (it receives {} instead of the result of {})'.format(
                              name_of[id(c)], items_of[id(c)][:2], name_of[id(prev)]), line=getattr(c.node, 'lineno', fn.lineno)))
            prev = c
        last = chain[-1] if chain else None
        if 'resolve_blobs' not in facts.funcs:
            raise AnalysisError('anchor vanished: resolve_blobs')
        concat = last is not None and (name_of[id(last)] == 'resolve_blobs' or last.named('resolve_blobs'))
        rep.check(concat, rule, 'compress={}: the last pass is the byte concatenation (resolve_blobs)'.format(value),
                  lambda last=last: Finding(rule, 'assemble', last.node if last else fn, 'the returned program is not the result of resolve_blobs on the final item list', line=fn.lineno))
    rep.count('pipeline steps', n)
    # between the passes nobody touches the list: an in-place change (pop / remove / insert / del / item assignment) of the
    # variable that carries the items drops, adds or reorders directives outside every pass
    seen_mut = set()
    for value in (False, True):
        for muts in getattr(pl, 'mutations', {}).get(value, []):
            for node, text, at in muts:
                if id(node) in seen_mut:
                    continue
                seen_mut.add(id(node))
                rep.fail(Finding(rule, 'assemble', node, 'the item list is changed in place outside the passes ({}): directives are dropped, added or reordered behind the '
                                 'back of the layout'.format(text), line=getattr(node, 'lineno', fn.lineno)), instance='no in-place change of the item list in assemble')
    if not seen_mut:
        rep.ok(rule, 'no in-place change of the item list in assemble')
    # the value returned by assemble is the result of that last call
    returned = None
    for st in ast.walk(fn):
        if isinstance(st, ast.Return) and st.value is not None:
            returned = st
    rets = [st for st in ast.walk(fn) if isinstance(st, ast.Return) and st.value is not None]
    rep.check(bool(rets), rule, 'assemble returns a value', lambda: Finding(rule, 'assemble', fn, 'assemble returns nothing', line=fn.lineno), nontrivial=False)
    # front-end comprehensions (wherever they live) only map / filter in order
    front = [fn] + [facts.funcs[c.name] for value, calls in pl.all_paths() for c in calls
                    if c.name in facts.funcs and not c.mapped and not any(isinstance(a, tuple) and a and a[0] == 'items' for a in c.args)
                    and c.name not in ('read_lines',)]
    seen = set()
    for f in front:
        if id(f) in seen:
            continue
        seen.add(id(f))
        for st in ast.walk(f):
            if isinstance(st, ast.ListComp):
                lc = st
                g = lc.generators[0]
                src = LR.in_order_source(g.iter)
                while isinstance(src, ast.Call) and isinstance(src.func, ast.Name) and src.func.id in ('map', 'filter') and len(src.args) == 2 and not src.keywords:
                    src = LR.in_order_source(src.args[1])          # map(f, S) / filter(f, S): an in-order map / filter of S itself
                if not (isinstance(src, ast.Name) and src.id in stream_names(f)):
                    if any(isinstance(x, ast.Name) and x.id in stream_names(f) for x in ast.walk(g.iter)):
                        reorder = [x for x in ast.walk(g.iter) if (isinstance(x, ast.Call) and dotted(x.func) in ('reversed', 'sorted', 'set', 'frozenset')) or isinstance(x, ast.Slice)]
                        if reorder:
                            rep.fail(Finding(rule, f.name, st, 'a comprehension of the front end walks the stream out of order / in part: {}'.format(unparse(g.iter)[:60]), line=st.lineno))
                        else:
                            rep.undecided('{}: the comprehension `{}` runs over an expression of the line / token / item stream that is not followed'.format(f.name, unparse(st)[:60]))
                    continue      # not a comprehension over the line / token / item lists
                verdict = comprehension_in_order(lc, stream_names(f))
                if verdict is None:
                    rep.undecided('{}: the comprehension `{}` over the line / token / item stream is not understood as an in-order map / filter'.format(f.name, unparse(st)[:60]))
                    continue
                rep.check(verdict, rule, 'comprehension `{}` maps / filters in order'.format(unparse(st)[:60]),
                          lambda st=st, f=f: Finding(rule, f.name, st, 'a list comprehension of the front end does more than an in-order map/filter', line=st.lineno))


def comprehension_in_order(lc, streams):
    """Is `[E for x in S if C]` an in-order map / filter of S?  True: each result element is x itself, or a function applied to
    x (x appearing exactly once among the arguments and the stream nowhere else), possibly bound by an assignment expression in
    the filter (`[y for x in S if (y := f(x)) is not None]`).  False: the element does not depend on x at all (a positional
    element of the stream, a constant).  None: anything else."""
    if len(lc.generators) != 1 or lc.generators[0].is_async or not isinstance(lc.generators[0].target, ast.Name):
        return None
    g = lc.generators[0]
    x = g.target.id
    elt = lc.elt
    walrus = {}
    for c in g.ifs:
        for n in ast.walk(c):
            if isinstance(n, ast.NamedExpr) and isinstance(n.target, ast.Name):
                walrus[n.target.id] = n.value
    if isinstance(elt, ast.Name) and elt.id in walrus:
        elt = walrus[elt.id]
    mentions_stream = any(isinstance(n, ast.Name) and n.id in streams for n in ast.walk(elt)) or \
        any(isinstance(n, ast.Name) and n.id in streams for c in g.ifs for n in ast.walk(c))
    uses = [n for n in ast.walk(elt) if isinstance(n, ast.Name) and n.id == x]
    if isinstance(elt, ast.Name) and elt.id == x and not mentions_stream:
        return True
    if isinstance(elt, ast.Call) and not mentions_stream:
        direct = [a for a in list(elt.args) + [k.value for k in elt.keywords] if isinstance(a, ast.Name) and a.id == x]
        if len(direct) == 1 and len(uses) == 1:
            return True
    if not uses and not walrus:
        return False
    return None


def in_place_edits(facts, call):
    """Texts of the statements of the called function that change, in place, the parameter that receives the item list."""
    f = facts.funcs.get(call.name)
    if f is None:
        return []
    params = [a.arg for a in f.args.posonlyargs + f.args.args]
    held = {p for p, a in zip(params, call.args) if isinstance(a, tuple) and a and a[0] == 'items'}
    out = []
    for n in ast.walk(f):
        tgt = None
        if isinstance(n, ast.Call) and isinstance(n.func, ast.Attribute) and isinstance(n.func.value, ast.Name) \
                and n.func.attr in ('pop', 'remove', 'append', 'insert', 'extend', 'clear', 'sort', 'reverse'):
            tgt = n.func.value.id
        elif isinstance(n, ast.Delete):
            for t in n.targets:
                if isinstance(t, ast.Subscript) and isinstance(t.value, ast.Name):
                    tgt = t.value.id
        elif isinstance(n, (ast.Assign, ast.AugAssign)):
            for t in (n.targets if isinstance(n, ast.Assign) else [n.target]):
                if isinstance(t, ast.Subscript) and isinstance(t.value, ast.Name):
                    tgt = t.value.id
        if tgt in held:
            out.append(' '.join(unparse(n).split())[:60])
    return out


def stream_names(fn):
    """Locals of a front-end function that hold the line / token / item stream: bound from read_lines(...) or from a
    comprehension / filter / map / list() over such a local (to a fixed point)."""
    names = set()
    changed = True
    while changed:
        changed = False
        for st in ast.walk(fn):
            if not (isinstance(st, ast.Assign) and len(st.targets) == 1 and isinstance(st.targets[0], ast.Name)):
                continue
            v = st.value
            src = False
            if isinstance(v, ast.Call) and dotted(v.func) == 'read_lines':
                src = True
            elif isinstance(v, (ast.ListComp, ast.GeneratorExp)) and isinstance(v.generators[0].iter, ast.Name) and v.generators[0].iter.id in names:
                src = True
            elif isinstance(v, ast.Call) and dotted(v.func) in ('list', 'filter', 'map', 'tuple') and any(isinstance(a, ast.Name) and a.id in names for a in v.args):
                src = True
            if src and st.targets[0].id not in names:
                names.add(st.targets[0].id)
                changed = True
    return names


def same_bytes(v):
    """bytes(x) / bytearray(x) / memoryview(x) hold the bytes of x."""
    while v[0] == 'call' and v[1] in ('bytes', 'bytearray', 'memoryview') and len(v[2]) == 1 and not v[3] and not is_const(v[2][0]):
        v = v[2][0]
    return v


def check_resolve_blobs(rep, facts, rule):
    fn = facts.funcs.get('resolve_blobs')
    if fn is None:
        raise AnalysisError('anchor vanished: resolve_blobs')
    pre, loop, paths = loop_paths(facts, fn)
    item = LR.loop_item(loop)
    if item is None:
        raise AnalysisError('resolve_blobs: the loop variable that holds the blob ({}) is not understood'.format(unparse(loop.target)))
    # the buffer that is returned: `return output` after the loop, or in the loop's else clause (the loop ran to its end)
    from ..pathwalk import always_raises
    rets = [s for s in list(fn.body) + list(loop.orelse) if isinstance(s, ast.Return)]
    names = {s.value.id for s in rets if isinstance(s.value, ast.Name)}
    all_rets = [n for n in ast.walk(fn) if isinstance(n, ast.Return)]
    if len(names) != 1 or len(rets) != len(all_rets) or any(not isinstance(s.value, ast.Name) for s in rets):
        raise AnalysisError('resolve_blobs: the returned value is not a local buffer the rule can follow')
    out_name = next(iter(names))
    after = fn.body[fn.body.index(loop) + 1:] if loop in fn.body else []
    data = ('attr', item, 'data')
    n_ok = 0
    for p in paths:
        if p.end == 'raise':
            continue
        if p.end == 'break' and after and always_raises(after):
            continue        # the loop is left early and what follows it raises: no output on this path
        if p.end == 'break':
            raise AnalysisError('resolve_blobs: the item loop is left early (break) on the path [{}]: the items after it are not emitted by this loop'.format(p.cond_text()[-80:]))
        adds, other = [], None
        for e in p.events:
            if e[0] == 'mcall' and e[1] in (('lv', out_name), ('name', out_name)):
                if e[2] == 'extend' and len(e[3]) == 1 and not e[4]:
                    adds.append(same_bytes(e[3][0]))
                else:
                    other = e
            elif e[0] == 'aug' and e[1] == out_name:
                if e[2] == '+':
                    adds.append(same_bytes(e[3]))
                else:
                    other = e
            elif e[0] in ('setitem', 'augstore', 'delete') and IS_contains(e[1], ('lv', out_name)):
                other = e
        inst = 'resolve_blobs [{}]'.format(p.cond_text()[-60:])
        if other is not None:
            raise AnalysisError('resolve_blobs: the output buffer is changed in a way the rule does not follow ({})'.format(show(other[1])[:60]))
        if adds == [data]:
            n_ok += 1
            rep.ok(rule, inst + ': output.extend(item.data) once, in order')
            continue
        if not adds:
            # nothing is emitted for this item: right exactly when the path knows its data is empty
            empty = any((t == data and not pol) or (t == ('un', 'not', data) and pol) for t, pol, _ in p.conds)
            f = p.facts.get(('call', 'len', (data,), ()))
            empty = empty or bool(f and f['eq'] is not None and f['eq'][1] == 0)
            if empty:
                rep.ok(rule, inst + ': an empty blob contributes nothing')
                continue
            # the conditions under which the item is skipped must be ones the rule reads: class tests and tests of the data itself
            class L:
                terms = {t: 1 for t, pol, _ in p.conds if isinstance(t, tuple)}
            understood = all(LR.class_test(t) or LR.contains_value(t, data) for t, pol, _ in p.conds) and not LR.opaque_atoms(facts, L) \
                and not any(LR.IS_havoc(t) for t, pol, _ in p.conds)
        else:
            class L:
                terms = {a: 1 for a in adds}
            understood = not LR.opaque_atoms(facts, L)
        if not understood:
            raise AnalysisError('resolve_blobs: what the path [{}] adds to the output ({}) is not followed back to the blob\'s data'.format(
                p.cond_text()[-80:], ', '.join(show(a)[:40] for a in adds) or 'nothing'))
        rep.fail(Finding(rule, 'resolve_blobs', loop, 'the output is not the in-order concatenation of every blob\'s data: on the path [{}] an item contributes {}'.format(
            p.cond_text()[-80:], ', '.join(show(a)[:40] for a in adds) or 'nothing'), line=loop.lineno), instance='resolve_blobs: output.extend(item.data) once per item, in order')
    src = LR.in_order_source(loop.iter)
    it_ok = isinstance(src, ast.Name) and src.id == fn.args.args[0].arg
    if not it_ok:
        if not any(isinstance(n, ast.Call) and dotted(n.func) in ('reversed', 'sorted', 'set', 'frozenset') for n in ast.walk(loop.iter)) \
                and not any(isinstance(n, ast.Slice) for n in ast.walk(loop.iter)):
            raise AnalysisError('resolve_blobs: the loop runs over `{}`, which is not followed back to the input list'.format(unparse(loop.iter)[:60]))
    rep.check(it_ok and n_ok >= 1, rule, 'resolve_blobs: every item of the input list, in order',
              lambda: Finding(rule, 'resolve_blobs', loop, 'the output is not the in-order concatenation of every blob\'s data', line=loop.lineno))
    # the buffer starts empty
    init = None
    for st in pre:
        init = st.env.get(out_name)
    empty = init is not None and ((init[0] == 'call' and init[1] in ('bytearray', 'bytes') and not init[3]
                                   and (not init[2] or (len(init[2]) == 1 and is_const(init[2][0]) and init[2][0][1] in (b'', 0))))
                                  or (is_const(init) and init[1] == b''))
    if not empty and not (init is not None and ((is_const(init) and isinstance(init[1], bytes)) or
                                                (init[0] == 'call' and init[1] in ('bytearray', 'bytes') and len(init[2]) == 1 and is_const(init[2][0])))):
        raise AnalysisError('resolve_blobs: the initial value of the output buffer ({}) is not understood'.format(show(init)[:60] if init else 'none'))
    inits = [s for s in fn.body if isinstance(s, ast.Assign) and isinstance(s.targets[0], ast.Name) and s.targets[0].id == out_name]
    rep.check(empty, rule, 'resolve_blobs: output starts empty',
              lambda: Finding(rule, 'resolve_blobs', inits[0] if inits else fn, 'the output buffer does not start empty', line=fn.lineno))


def IS_contains(v, x):
    return LR.contains_value(v, x)


def immfields(facts, val):
    """{constructor parameter: argument value} of a ('new', cls, args, kwargs) value."""
    from ..immsites import ctor_fields
    return ctor_fields(facts, val)


def zero_run(data):
    """(is the byte zero?, count) for a value that is a run of one byte value: b'\\x00' * n, n * b'\\x00', bytes(n), bytearray(n);
    None when the value is not understood as such a run."""
    if data[0] == 'bin' and data[1] == '*':
        for a, b in ((data[2], data[3]), (data[3], data[2])):
            if is_const(a) and isinstance(a[1], (bytes, bytearray)) and len(a[1]) == 1:
                return a[1] == b'\x00', b
        return None
    if data[0] == 'call' and data[1] in ('bytes', 'bytearray') and len(data[2]) == 1 and not data[3]:
        n = data[2][0]
        if is_const(n):
            return (True, n) if isinstance(n[1], int) and not isinstance(n[1], bool) else None
        if n[0] in ('list', 'tuple', 'comp', 'dict', 'accum'):
            return None
        return True, n            # bytes(n) with n a number: n zero bytes
    return None


def inline_padding_form(pa, cnt):
    """Normal form of a padding expression written out in resolve_aligns (N = <item>.alignment, p = the running offset)."""
    n_expr = show(('attr', pa.item, 'alignment'))
    try:
        expr = ast.parse(show(cnt), mode='eval').body
    except SyntaxError:
        raise AnalysisError('resolve_aligns: the padding count {} is not understood'.format(show(cnt)[:80]))
    out, ok = {}, True
    for case, want in (('zero', alignform.F()), ('nonzero', alignform.F(a=-1, b=1))):
        try:
            got = alignform.Eval(None, n_expr, pa.pos_var, case).ev(expr, {})
        except alignform.MaskNotModulo as e:
            out[case] = 'bit-mask `{}`: equals the residue modulo N only when N is a power of two'.format(e)
            ok = False
            continue
        except alignform.Undecided as e:
            raise AnalysisError('resolve_aligns: the padding count {} is neither resolution_size(offset) nor inside the linear-modular fragment: {}'.format(show(cnt)[:60], e))
        out[case] = repr(got)
        if got.key() != want.key():
            ok = False
    return ok, out


def check_align(rep, facts, rule):
    ci = facts.classes.get('Align')
    if ci is None or 'resolution_size' not in ci.methods:
        raise AnalysisError('anchor vanished: Align.resolution_size')
    m = ci.methods['resolution_size']
    try:
        ok, forms = alignform.padding_normal_form(m)
    except alignform.Undecided as e:
        raise AnalysisError('Align.resolution_size left the linear-modular fragment (undecided, not a violation): {}'.format(e))
    rep.sample({'resolution_size': forms})
    rep.check(ok, rule + '.minimal', 'resolution_size(p) == 0 if p % N == 0 else N - p % N',
              lambda: Finding(rule + '.minimal', 'Align.resolution_size', 'normal form',
                              'padding is not the least non-negative value making the offset a multiple of N: with p = qN + r it evaluates to {} '
                              '(r == 0) and {} (1 <= r <= N-1); expected 0 and N - r'.format(forms['zero'], forms['nonzero']), line=m.lineno))
    # resolve_aligns: padding computed at the item-start position and emitted as that many zero bytes
    pa = LR.pass_analysis(facts, 'resolve_aligns')
    n = 0
    from ..labelrules import plain_offset_value
    p_param = [a.arg for a in m.args.args][1] if len(m.args.args) == 2 else None
    for r in pa.rows:
        for val, node in r['app_values']:
            if val[0] == 'new' and val[1] == 'Blob':
                n += 1
                fields = immfields(facts, val)
                data = fields.get(dict(facts.full_attr_order('Blob')).get('data') or 'data')      # the constructor parameter stored as .data
                run = zero_run(data) if data is not None else None
                if run is None:
                    raise AnalysisError('resolve_aligns: the bytes of the emitted padding ({}) are not understood as a run of one byte value'.format(show(data)[:60] if data else '?'))
                good, cnt = run
                rep.check(good, rule + '.zeros', 'resolve_aligns pads with b"\\x00" * padding',
                          lambda node=node: Finding(rule + '.zeros', 'resolve_aligns', node, 'alignment padding is not a run of zero bytes', line=node.lineno))
                # the count: resolution_size of the running offset at the align item (any call spelling), or the formula written out
                pos = None
                if cnt[0] == 'mcall' and cnt[2] == 'resolution_size':
                    if cnt[1] == pa.item and len(cnt[3]) == 1 and not cnt[4]:
                        pos = cnt[3][0]
                    elif cnt[1] == pa.item and not cnt[3] and len(cnt[4]) == 1 and cnt[4][0][0] == p_param:
                        pos = cnt[4][0][1]
                    elif cnt[1][0] == 'name' and cnt[1][1] in facts.classes and facts.is_subclass(cnt[1][1], 'Align') and len(cnt[3]) == 2 and cnt[3][0] == pa.item and not cnt[4]:
                        pos = cnt[3][1]
                if pos is not None:
                    pass_params = {a.arg for a in pa.loop_fn.args.args + pa.loop_fn.args.kwonlyargs}

                    def understood(v):
                        # locals, parameters of the pass and integers combined by + - *: a value the rule can compare with the offset
                        if is_const(v):
                            return isinstance(v[1], int)
                        if v[0] == 'lv' or (v[0] == 'name' and len(v) == 2 and v[1] in pass_params):
                            return True
                        if v[0] == 'bin' and v[1] in ('+', '-', '*'):
                            return understood(v[2]) and understood(v[3])
                        return False
                    if pos != ('lv', pa.pos_var) and not plain_offset_value(pos) and not understood(pos):
                        raise AnalysisError('resolve_aligns: the offset handed to resolution_size ({}) is not followed back to the running offset'.format(show(pos)[:60]))
                    rep.check(pos == ('lv', pa.pos_var), rule + '.at-start', 'padding = item.resolution_size(offset at which the align item starts)',
                              lambda node=node, cnt=cnt: Finding(rule + '.at-start', 'resolve_aligns', node,
                                                                 'padding {} is not resolution_size of the running offset at the align item'.format(show(cnt)), line=node.lineno))
                    continue
                # the padding written out in the pass itself: the same normal form, with N = item.alignment and p = the running offset
                ok2, forms2 = inline_padding_form(pa, cnt)
                rep.sample({'inline padding': forms2})
                rep.check(ok2, rule + '.minimal', 'inline padding == 0 if p % N == 0 else N - p % N',
                          lambda node=node, cnt=cnt, forms2=forms2: Finding(rule + '.minimal', 'resolve_aligns', node,
                                                                           'padding {} is not the least non-negative value making the running offset a multiple of the alignment: {}'.format(
                                                                               show(cnt)[:80], forms2), line=node.lineno))
    rep.count('align emission sites', n)


def run(repo, tier):
    facts = Facts(repo.asm)
    rep = Report('C09', LEVEL,
                 'Every pass of the pipeline read from `assemble` is summarised per path of one loop iteration (symbolic path '
                 'enumeration, no execution).  Per path: bytes contributed by the consumed item (size algebra over the class '
                 'definitions) == bytes of the items appended + amount subtracted from later labels; the result list is built by '
                 'append only, in iteration order; a class-flow analysis shows that every item kind has exactly one handler and only '
                 'Blob reaches resolve_blobs, whose output is the in-order concatenation.  Align.resolution_size is normalised over '
                 'p = qN + r to 0 / N - r.')
    rep.trusted_base = ['CPython ast', 'bbverif.pathwalk / layout size algebra', 'struct standard sizes (oracle table)']
    # every rule is attempted: a no-verdict in one of them is deferred, so it cannot mask a violation another one establishes
    rep.attempt(check_pipeline_shape, rep, facts, 'R9.pipeline')
    from .. import labelrules as LB
    rep.attempt(LB.check_position_frozen, rep, facts, 'R9.align.frozen')
    movers = rep.attempt(LB.label_writing_passes, facts)
    for compress in (False, True):
        steps = rep.attempt(LR.class_flow, facts, compress)
        if steps is None:
            continue
        for name, node, inc, out in steps:
            def one(name=name, inc=inc):
                pa = LR.pass_analysis(facts, name, frozenset(inc))
                LR.check_conservation(rep, pa, 'R9.bytes', movers is None or name in movers)
                LR.check_order_only(rep, pa, 'R9.order')
                LR.check_shared_buffers(rep, facts, pa, 'R9.own-payload')
                rep.count('pass analyses')
            rep.attempt(one)
        final = steps[-1][3] if steps else set()
        rep.check(final == {'Blob'}, 'R9.class-flow', 'compress={}: only Blob items reach resolve_blobs'.format(compress),
                  lambda final=final: Finding('R9.class-flow', 'assemble', 'compress={}'.format(compress),
                                              'item kinds {} reach resolve_blobs unconverted'.format(sorted(final - {'Blob'})),
                                              line=facts.funcs['assemble'].lineno))
        rep.sample({'compress': compress, 'class_flow': [(n, sorted(i - o), sorted(o - i)) for n, _, i, o in steps]})
    rep.attempt(check_resolve_blobs, rep, facts, 'R9.concat')
    rep.attempt(check_align, rep, facts, 'R9.align')

    def samples():
        pa = LR.pass_analysis(facts, 'transform_pseudo_instructions')
        for r in pa.rows[:6]:
            rep.sample(LR.describe_row(r))
    rep.attempt(samples)
    rep.floor('pipeline steps', 12)
    rep.floor('pass paths accounted', 150)
    rep.floor('align emission sites', 1)
    rep.not_decided = ['byte-for-byte equality with an independent walk is the conjunction of these rules and C10']
    return rep
