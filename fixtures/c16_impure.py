"""Positive fixture for the C16 purity rules: every rule must fire at least once on this file (it is never imported)."""
import os
import random
import time
from collections import ChainMap
from functools import lru_cache

REGISTERS = {'x0': 0}
KEYWORDS = {'align'}
_cache = {}


def assemble(source, constants={}, labels=None):          # R16.2 mutable default
    global _counter                                        # R16.1 global statement
    _counter = 1
    constants[source] = 0                                  # ... and the shared default is changed
    REGISTERS[source] = 1                                  # R16.1 store into module table
    KEYWORDS.add(source)                                   # R16.1 mutating method on module set
    alias = _cache
    alias[source] = 2                                      # R16.1 through an alias
    env = ChainMap(REGISTERS, constants)                   # R16.1 module table in the writable position
    out = []
    for name in KEYWORDS & {'align', 'string'}:            # R16.4 iteration over a set
        out.append(name)
    first = list({'a', 'b'})[0]                            # R16.4 materialising a set
    stamp = time.time() + random.random() + id(out)        # R16.5 ambient inputs
    files = os.listdir('.')                                # R16.5 unsorted directory listing
    where = os.getcwd()                                    # R16.5 cwd outside the source-string branch
    value = eval(source, {}, env)                          # R16.6 builtins exposed
    helper.calls = getattr(helper, 'calls', 0) + 1         # R16.2 function attribute used as state
    return out, first, stamp, files, where, value, helper(source)


@lru_cache(maxsize=None)                                   # R16.2 memoised across calls
def helper(x):
    with open(x) as f:                                     # ... of something that depends on more than the argument
        return f.read()
