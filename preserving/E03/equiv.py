"""Differential test: original encoders (/repo, read-only) vs refactored copy.

Compares, for every mnemonic in INSTRUCTIONS (and for the raw *_type
functions), the returned integer or the type of the raised exception.
"""
import importlib.util
import inspect
import itertools
import os
import random
import sys

sys.dont_write_bytecode = True

HERE = os.path.dirname(os.path.abspath(__file__))


def load(name, path):
    spec = importlib.util.spec_from_file_location(name, path)
    mod = importlib.util.module_from_spec(spec)
    sys.modules[name] = mod
    spec.loader.exec_module(mod)
    return mod


orig = load('orig_asm', '/repo/bronzebeard/asm.py')
new = load('new_asm', os.environ.get('NEW_ASM', os.path.join(HERE, 'bronzebeard', 'asm.py')))
assert orig.__file__ != new.__file__

rng = random.Random(0xB20)
comparisons = 0
differences = []


def outcome(fn, args, kwargs):
    try:
        return ('ok', fn(*args, **kwargs))
    except Exception as e:  # noqa
        return ('exc', type(e).__name__)


def compare(label, fo, fn, args, kwargs=None, kwargs_new=None):
    global comparisons
    kwargs = kwargs or {}
    a = outcome(fo, args, kwargs)
    b = outcome(fn, args, kwargs if kwargs_new is None else kwargs_new)
    comparisons += 1
    if a != b:
        differences.append((label, args, kwargs, a, b))
        if len(differences) <= 25:
            print('DIFF', label, args, kwargs, a, b)


# --------------------------------------------------------------------------
# value pools
# --------------------------------------------------------------------------
VALID_REGS = list(orig.REGISTERS.keys())
ODD_REGS = ['0x1f', '0x8', '0b101', '0o17', '0X0A', ' 9 ', '1_0', '010', '08', 'x32', 'x-1', 32, -1, 8.0, 8.5,
            True, False, None, '', 'foo', 'X5', 'A0', 'zero ', b'9', '0x20', 100, -8, (1,), [1], {}, 'fp', 'x08']
ALL_REGS = VALID_REGS + ODD_REGS
SOME_REGS = [0, 'x1', 'sp', 5, 'x8', 'a0', 's1', 15, 'a6', 't6', '0x1f', 'x7', 'x16', 'bogus', [1]]

WINDOW = sorted({s * (1 << k) + d for k in range(22) for d in range(-40, 41) for s in (1, -1)})
EDGE = [0, 1, -1, 2**31, -2**31, 2**32, 2**32 - 1, 2**20 - 1, 2**20, 2**20 - 32, 2**20 - 33, 2**20 - 2**19,
        2**20 - 2**19 - 1, 2**20 + 1, 2**64, -2**64, 10**30]
EXOTIC_IMM = [0.0, 2.0, 4.0, 1.5, 16.0, -32.0, 1048575.0, 1048575.5, float('nan'), float('inf'), '4', 'x', None,
              True, False, [], 4j]


def rand_imm():
    k = rng.random()
    if k < 0.25:
        return rng.randint(-70, 70)
    if k < 0.45:
        return rng.randint(-600, 1100)
    if k < 0.65:
        return rng.randint(-5000, 5000)
    if k < 0.80:
        return rng.randint(-2**21 - 100, 2**21 + 100)
    if k < 0.90:
        return rng.randint(2**20 - 2**19 - 50, 2**20 + 50)
    if k < 0.95:
        return rng.randint(2**20 - 100, 2**20 + 10)
    return rng.randint(-2**33, 2**33)


def rand_reg():
    k = rng.random()
    if k < 0.45:
        return rng.randint(0, 31)
    if k < 0.6:
        return rng.randint(8, 15)
    if k < 0.9:
        return rng.choice(VALID_REGS)
    return rng.choice(ODD_REGS)


# --------------------------------------------------------------------------
# per-mnemonic tests through INSTRUCTIONS
# --------------------------------------------------------------------------
def positional_params(p):
    sig = inspect.signature(p)
    return [n for n, q in sig.parameters.items() if q.kind == q.POSITIONAL_OR_KEYWORD]


assert set(orig.INSTRUCTIONS) == set(new.INSTRUCTIONS)

for mnemonic in sorted(orig.INSTRUCTIONS):
    po, pn = orig.INSTRUCTIONS[mnemonic], new.INSTRUCTIONS[mnemonic]
    assert po.func.__name__ == pn.func.__name__
    kwo = {k: v for k, v in po.keywords.items() if k != 'cs'}
    kwn = {k: v for k, v in pn.keywords.items() if k != 'cs'}
    assert kwo == kwn, mnemonic
    assert [c.__name__ for c in po.keywords.get('cs') or []] is not None
    params = positional_params(po)
    assert params == positional_params(pn), mnemonic
    before = comparisons

    is_fence = po.func.__name__ == 'fence'
    is_atomic = po.func.__name__ == 'a_type'
    reg_idx = [i for i, n in enumerate(params) if n not in ('imm', 'succ', 'pred')]
    imm_idx = [i for i, n in enumerate(params) if n == 'imm']

    def call(args, kwargs=None, _po=po, _pn=pn, _m=mnemonic):
        compare(_m, _po, _pn, tuple(args), kwargs)

    if not params:
        call(())
        call((1,))
        continue

    if is_fence:
        # (c) succ / pred
        pool = list(range(-2, 21)) + ['0b11', '0xf', '0x10', '15', '16', '-1', '0o7', 'x', '', None, True, 1.0, 3.5]
        for s, p_ in itertools.product(pool, pool):
            call((s, p_))
        for _ in range(20000):
            call((rng.randint(-5, 25), rng.randint(-5, 25)))
        print('{:12s} {:8d}'.format(mnemonic, comparisons - before))
        continue

    # immediates that are known to be fine for this mnemonic (found by probing the original)
    def good_args():
        for _ in range(2000):
            args = [rng.randint(8, 15) if i in reg_idx else rng.choice([4, 8, 16, 32, 64, -16, 12])
                    for i in range(len(params))]
            if outcome(po, args, {})[0] == 'ok':
                return args
        raise AssertionError('no valid args for ' + mnemonic)

    base = good_args()

    # (a) register spellings: each register position over every spelling
    for i in reg_idx:
        for r in ALL_REGS:
            for other in (base, good_args()):
                args = list(other)
                args[i] = r
                call(args)
    # all pairs / triples of plain numbers and a mixed pool
    if len(reg_idx) >= 2:
        for combo in itertools.product(range(32), repeat=2):
            for tail in ([base[j] for j in range(len(params))],):
                args = list(tail)
                for i, r in zip(reg_idx, combo):
                    args[i] = r
                call(args)
        for combo in itertools.product(SOME_REGS, repeat=len(reg_idx)):
            args = list(base)
            for i, r in zip(reg_idx, combo):
                args[i] = r
            call(args)

    # (b) immediates
    if imm_idx:
        ii = imm_idx[0]
        for regs in ([rng.randint(8, 15) for _ in params], [0 for _ in params], [2 for _ in params],
                     [rand_reg() for _ in params]):
            for imm in itertools.chain(WINDOW, EDGE, EXOTIC_IMM):
                args = list(regs)
                args[ii] = imm
                call(args)
        # exotic immediates combined with bad registers (exception precedence)
        for imm in EXOTIC_IMM + [3, 10**9]:
            for r in ('bogus', 3, (1,), [1], None):
                args = [r for _ in params]
                args[ii] = imm
                call(args)
        for _ in range(20000):
            args = [rand_reg() for _ in params]
            args[ii] = rand_imm()
            call(args)
        # dense sweep
        for imm in range(-4200, 4200):
            args = list(base)
            args[ii] = imm
            call(args)
    else:
        for _ in range(20000):
            call([rand_reg() for _ in params])

    # (d) aq / rl
    if is_atomic:
        flags = [0, 1, 2, '1', '0', '2', '0b1', '0x0', -1, True, None, 1.0, 'x', '']
        for aq, rl in itertools.product(flags, flags):
            call(base, dict(aq=aq, rl=rl))
            call([rand_reg() for _ in params], dict(aq=aq, rl=rl))
        for aq in flags:
            call(base, dict(aq=aq))
            call(base, dict(rl=aq))

    # wrong arity
    call(base[:-1])
    call(base + [1])
    print('{:12s} {:8d}'.format(mnemonic, comparisons - before))


# --------------------------------------------------------------------------
# raw encoder functions: arbitrary opcode / funct values, constraint lists
# --------------------------------------------------------------------------
ENCODERS = ['r_type', 'i_type', 'ij_type', 's_type', 'b_type', 'u_type', 'j_type', 'fence', 'a_type', 'cr_type',
            'ci_type', 'cia_type', 'ciu_type', 'cil_type', 'css_type', 'ciw_type', 'cl_type', 'cs_type', 'ca_type',
            'cb_type', 'cbi_type', 'cj_type']
CONSTRAINTS = ['RegRdNotZero', 'RegRs1NotZero', 'RegRs2NotZero', 'RegRdRs1NotZero', 'RegRdRs1NotTwo', 'ImmNotZero',
               'ShamtBit5Zero']

for name in ENCODERS:
    fo, fn = getattr(orig, name), getattr(new, name)
    so, sn = inspect.signature(fo), inspect.signature(fn)
    assert str(so) == str(sn), (name, str(so), str(sn))

for name in ['lookup_register']:
    assert str(inspect.signature(getattr(orig, name))) == str(inspect.signature(getattr(new, name)))


def rand_fixed(pname):
    k = rng.random()
    if pname in ('rd', 'rs1'):  # fence's keyword registers
        return rand_reg()
    if k < 0.7:
        return rng.randint(0, 127)
    if k < 0.9:
        return rng.randint(-3, 2**33)
    return rng.choice([1.5, 'a', None, True])


before = comparisons
for name in ENCODERS:
    fo, fn = getattr(orig, name), getattr(new, name)
    sig = inspect.signature(fo)
    pos = [n for n, q in sig.parameters.items() if q.kind == q.POSITIONAL_OR_KEYWORD]
    kwonly = [n for n, q in sig.parameters.items() if q.kind == q.KEYWORD_ONLY]
    for _ in range(12000):
        args = []
        for n in pos:
            if n == 'imm':
                args.append(rand_imm() if rng.random() < 0.97 else rng.choice(EXOTIC_IMM))
            elif n in ('succ', 'pred'):
                args.append(rng.choice([rng.randint(-2, 18), '0b11', '7', 'q']))
            else:
                args.append(rand_reg())
        kwo, kwn = {}, {}
        for n in kwonly:
            if n == 'cs':
                k = rng.random()
                if k < 0.2:
                    continue
                if k < 0.3:
                    kwo[n] = kwn[n] = rng.choice([None, [], ()])
                    continue
                picked = rng.sample(CONSTRAINTS, rng.randint(1, 3))
                kwo[n] = [getattr(orig, c) for c in picked]
                kwn[n] = [getattr(new, c) for c in picked]
                if rng.random() < 0.2:
                    kwo[n], kwn[n] = iter(kwo[n]), iter(kwn[n])
            elif n in ('aq', 'rl'):
                if rng.random() < 0.5:
                    kwo[n] = kwn[n] = rng.choice([0, 1, 2, '1', '0', True, -1])
            else:
                if rng.random() < 0.01:
                    continue  # missing required keyword
                kwo[n] = kwn[n] = rand_fixed(n)
        compare(name, fo, fn, tuple(args), kwo, kwn)

    # which keyword names do the constraints receive?  record them with a spy
    if 'cs' in kwonly:
        for _ in range(300):
            args = [rand_imm() % 64 if n == 'imm' else rng.randint(0, 15) for n in pos]
            seen_o, seen_n = [], []
            kw = {n: rng.randint(0, 7) for n in kwonly if n != 'cs'}
            a = outcome(fo, args, dict(kw, cs=[lambda **k: seen_o.append(sorted(k.items()))]))
            b = outcome(fn, args, dict(kw, cs=[lambda **k: seen_n.append(sorted(k.items()))]))
            comparisons += 1
            if (a, seen_o) != (b, seen_n):
                differences.append((name + ':spy', args, kw, (a, seen_o), (b, seen_n)))
                print('DIFF spy', name, args, kw, a, seen_o, b, seen_n)
print('{:12s} {:8d}'.format('raw encoders', comparisons - before))

# lookup_register directly
before = comparisons
for r in ALL_REGS + list(range(-5, 40)) + [str(i) for i in range(-5, 40)] + [hex(i) for i in range(40)]:
    for comp in (False, True, 0, 1, None, 'yes'):
        compare('lookup_register', orig.lookup_register, new.lookup_register, (r, comp))
    compare('lookup_register', orig.lookup_register, new.lookup_register, (r,))
    compare('lookup_register', orig.lookup_register, new.lookup_register, (r,), dict(compressed=True))

# constraint objects and factories directly
for c in CONSTRAINTS:
    co, cn = getattr(orig, c), getattr(new, c)
    for v in list(range(-70, 70)) + [0.0, 2.0, 32.0, None, 'a']:
        for field in ('rd', 'rs1', 'rs2', 'rd_rs1', 'imm'):
            compare(c, co, cn, (), {field: v})
            compare(c, co, cn, (), {field: v, 'extra': 1})
for field, value in itertools.product(('a', 'b'), (0, 1, 5)):
    co, cn = orig.constraint_not(field, value), new.constraint_not(field, value)
    for v in range(-3, 8):
        compare('constraint_not', co, cn, (), {'a': v, 'b': 1})
for field, bit, value in itertools.product(('a',), range(6), (0, 1, 2, 4, 32)):
    co, cn = orig.constraint_bit(field, bit, value), new.constraint_bit(field, bit, value)
    for v in range(-70, 70):
        compare('constraint_bit', co, cn, (), {'a': v})
print('{:12s} {:8d}'.format('misc', comparisons - before))

# whole-program smoke comparison
PROGRAM = '''
start:
    addi x1, x2, 3
    c.addi x8, 1
    lui t0, %hi(0x12345678)
    addi t0, t0, %lo(0x12345678)
    beq x1, x2, start
    jal ra, start
    fence 0b11, 0b1111
    amoadd.w a0, a1, a2
    lr.w a0, a1, 1, 1
    c.lw x9, x10, 8
    c.j start
    sw x5, 12(sp)
    ebreak
'''
for kw in ({}, {'compress': True}):
    comparisons += 1
    a, b = orig.assemble(PROGRAM, **kw), new.assemble(PROGRAM, **kw)
    if a != b:
        differences.append(('assemble', kw, a, b))

print('comparisons:', comparisons)
print('differences:', len(differences))
sys.exit(1 if differences else 0)
