#!/bin/sh
# usage: tools/run_on_seed.sh <seed id> [props...]   - applies seeded/<id>/patch.diff to /repo, runs the checks, and undoes it
id=$1; shift
props=${@:-C01 C02 C03 C04 C05 C06 C07 C08 C09 C10 C11 C12 C13 C14 C15 C16 C17 C18 C19 C20}
git -C /repo apply /verif/seeded/$id/patch.diff || exit 2
for p in $props; do /venv/bin/python /verif/bbverif/check.py $p --no-evidence > /tmp/.seedrun.$$ 2>&1; rc=$?; [ $rc -ne 0 ] && echo "$p exit=$rc $(grep -m1 -E 'finding|ANALYSIS' /tmp/.seedrun.$$ | cut -c1-220)"; done
rm -f /tmp/.seedrun.$$
git -C /repo checkout -- .
