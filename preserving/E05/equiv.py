#!/venv/bin/python
"""Differential test: /repo/bronzebeard/asm.py (original, read-only) vs the
refactored encoders in /tmp/vw/abit/.scratch/rE/bronzebeard/asm.py.

For every mnemonic in INSTRUCTIONS the two encoders are called with the same
arguments; the outcome (returned int, or the *type* of the raised exception)
must be identical.
"""
import importlib.util
import itertools
import random
import sys
from collections import Counter

sys.dont_write_bytecode = True

HERE = '/tmp/vw/abit/.scratch/rE'
SEED = int(sys.argv[1]) if len(sys.argv) > 1 else 0xB17
NRANDOM = int(sys.argv[2]) if len(sys.argv) > 2 else 20000


def load(name, path):
    spec = importlib.util.spec_from_file_location(name, path)
    mod = importlib.util.module_from_spec(spec)
    sys.modules[name] = mod
    spec.loader.exec_module(mod)
    return mod


orig = load('orig_bronzebeard_asm', '/repo/bronzebeard/asm.py')
new = load('bit_bronzebeard_asm', HERE + '/bronzebeard/asm.py')
assert orig.__file__.startswith('/repo/') and new.__file__.startswith(HERE)
assert 'c_uint32' not in open(new.__file__).read()

rng = random.Random(SEED)
stats = Counter()
diffs = []


def outcome(f, args, kwargs):
    try:
        r = f(*args, **kwargs)
    except BaseException as e:  # noqa
        if isinstance(e, KeyboardInterrupt):
            raise
        return ('raise', type(e).__name__)
    return ('ok', type(r).__name__, r)


def compare(section, label, fo, fn, args, kwargs=None):
    kwargs = kwargs or {}
    a = outcome(fo, args, kwargs)
    b = outcome(fn, args, kwargs)
    stats[section] += 1
    stats['total'] += 1
    stats['outcome:' + (a[1] if a[0] == 'raise' else 'ok')] += 1
    if a != b:
        diffs.append((section, label, args, kwargs, a, b))


# ---------------------------------------------------------------- domains

VALID_REGS = list(orig.REGISTERS.keys())
ODD_REGS = [
    '0x1f', '0x08', '0x8', '0xf', '0x10', '0X0A', '0b1000', '0b01111', '0o17', '0o10', '0o7',
    ' 9 ', '1_0', '+9', '-0', '08', '010', '0x20', '32', 32, 33, -1, '-1', 255, 2**40,
    'x32', 'x-1', 'foo', '', ' ', 'X5', 'A0', 'a8', 's12', 't7', 'zero ', ' sp', 'x08', 'x0x8',
    None, True, False, 8.0, 3.5, 15.0, b'9', b'a0', (1,), 'pc', 'fp', 'ra\n',
]
ALL_REGS = VALID_REGS + ODD_REGS
# for "other operand" positions: mostly fine, some marginal, some invalid
BASE_REGS = ['a0', 9, 'x2', 0, 'x31', 'bogus', 16]
BASE_REGS_SHORT = ['a0', 'x2', 0, 'bogus']


def imm_windows():
    vals = set(range(-40, 41))
    for k in range(0, 22):
        p = 1 << k
        for d in range(-40, 41):
            vals.add(p + d)
            vals.add(-p + d)
    return sorted(vals)


IMM_WINDOWS = imm_windows()
IMM_FAR = [2**k + d for k in (22, 24, 31, 32, 33, 63, 64, 100) for d in (-2, -1, 0, 1, 2)]
IMM_FAR += [-v for v in IMM_FAR]
IMM_BOOL = [True, False]
IMM_BASE = [0, 1, 2, 4, 16, 32, -2, -16, -32, 33, 124, 252, 1020, 2046, 4094, 4096, -4096,
            0x7ffff, 0xfffe0, 0xfffff, 0x100000, 3, -1]
IMM_BASE_SHORT = [0, 4, 16, -2, 33, 0xffff0]


def random_imm():
    r = rng.random()
    if r < 0.20:
        return rng.randint(-(2**21) - 100, 2**21 + 100)
    if r < 0.35:
        return rng.randint(-5000, 5000)
    if r < 0.50:
        return rng.randint(-1100, 1100)
    if r < 0.60:
        return rng.randint(-70, 70)
    if r < 0.68:
        return rng.randint(0xfffe0 - 80, 0xfffff + 80)
    if r < 0.74:
        return rng.randint(0x80000 - 80, 0x80000 + 80)
    if r < 0.80:
        return rng.randint(0x7ffff - 50, 0x100000 + 50)
    if r < 0.86:
        # aligned values
        return rng.randint(-300, 300) * rng.choice([2, 4, 16])
    if r < 0.92:
        k = rng.randint(0, 34)
        return rng.choice([1, -1]) * ((1 << k) + rng.randint(-3, 3))
    if r < 0.96:
        return rng.randint(-(2**33), 2**33)
    return rng.randint(-(2**66), 2**66)


def random_reg():
    r = rng.random()
    if r < 0.80:
        return rng.choice(VALID_REGS)
    if r < 0.90:
        return rng.choice(['a0', 's1', 'x8', 15, 'x1', 'x2', 0])
    return rng.choice(ODD_REGS)


FENCE_VALS = list(range(-3, 21)) + ['0b11', '0xf', '0x10', '16', '15', '0', '-1', 'zz', '', 'iorw',
                                    True, None, 1.0, '0b1111', ' 3 ', 2**40]
AQRL_VALS = [0, 1, 2, '1', '0', '2', -1, 3, True, False, '0b1', '0x1', '0b10', 'x', '', None, 1.0,
             '-1', ' 1', 2**35]


# ------------------------------------------------------- mnemonic sweeps

def free_params(p):
    """positional parameter names of a partial that the caller still supplies"""
    code = p.func.__code__
    names = code.co_varnames[:code.co_argcount]
    return [n for n in names if n not in p.keywords]


def kind(name):
    if name == 'imm':
        return 'imm'
    if name in ('succ', 'pred'):
        return 'fence'
    assert name in ('rd', 'rs1', 'rs2', 'rd_rs1'), name
    return 'reg'


def sweep_mnemonic(name):
    fo, fn = orig.INSTRUCTIONS[name], new.INSTRUCTIONS[name]
    po, pn = free_params(fo), free_params(fn)
    assert po == pn, (name, po, pn)
    assert fo.keywords.keys() == fn.keywords.keys()
    params = po
    kinds = [kind(p) for p in params]
    is_atomic = fo.func is orig.a_type
    assert (fn.func is new.a_type) == is_atomic

    if not params:
        compare('noargs', name, fo, fn, ())
        compare('noargs', name, fo, fn, ('a0',))  # TypeError both
        return

    def base_for(k, short=False):
        if k == 'reg':
            return BASE_REGS_SHORT if short else BASE_REGS
        if k == 'imm':
            return IMM_BASE_SHORT if short else IMM_BASE
        return [0, 15, 16, '0b11']

    # (a) every register spelling in every register slot
    for i, k in enumerate(kinds):
        if k != 'reg':
            continue
        others = [base_for(kk, short=True) for j, kk in enumerate(kinds) if j != i]
        for rest in itertools.product(*others):
            for reg in ALL_REGS:
                args = list(rest)
                args.insert(i, reg)
                compare('regs', name, fo, fn, tuple(args))

    # (b) immediates: windows, far values, bools, randoms
    if 'imm' in kinds:
        i = kinds.index('imm')
        reg_combos = [['a0'] * (len(kinds) - 1), ['s1'] * (len(kinds) - 1)]
        for imm in IMM_WINDOWS + IMM_FAR + IMM_BOOL:
            for rest in reg_combos:
                args = list(rest)
                args.insert(i, imm)
                compare('imm-window', name, fo, fn, tuple(args))
        # window with marginal / invalid registers (order of checks)
        for imm in IMM_WINDOWS[::7] + IMM_BASE:
            for reg in (0, 'x2', 'x31', 'bogus'):
                args = [reg] * (len(kinds) - 1)
                args.insert(i, imm)
                compare('imm-window-oddreg', name, fo, fn, tuple(args))
        for _ in range(NRANDOM):
            args = [random_imm() if k == 'imm' else random_reg() for k in kinds]
            compare('imm-random', name, fo, fn, tuple(args))
        # non-int immediates where the register is invalid (exception type ordering)
        for imm in ('12', None):
            args = ['bogus'] * (len(kinds) - 1)
            args.insert(i, imm)
            compare('imm-nonint-badreg', name, fo, fn, tuple(args))
    elif all(k == 'reg' for k in kinds):
        for _ in range(2000):
            compare('reg-random', name, fo, fn, tuple(random_reg() for _ in kinds))

    # (c) fence
    if 'fence' in kinds:
        for s, p in itertools.product(FENCE_VALS, repeat=2):
            compare('fence', name, fo, fn, (s, p))
        compare('fence', name, fo, fn, (1,))
        compare('fence', name, fo, fn, ())

    # (d) aq / rl
    if is_atomic:
        for aq, rl in itertools.product(AQRL_VALS, repeat=2):
            for regs in (['a0'] * len(kinds), ['x31'] * len(kinds), ['bogus'] * len(kinds)):
                compare('aqrl', name, fo, fn, tuple(regs), {'aq': aq, 'rl': rl})
        for aq in AQRL_VALS:
            compare('aqrl', name, fo, fn, tuple(['t0'] * len(kinds)), {'aq': aq})
            compare('aqrl', name, fo, fn, tuple(['t0'] * len(kinds)), {'rl': aq})
        for _ in range(1000):
            compare('aqrl', name, fo, fn, tuple(random_reg() for _ in kinds),
                    {'aq': rng.choice(AQRL_VALS[:4]), 'rl': rng.choice(AQRL_VALS[:4])})


# ---------------------------------------------- direct (non-table) checks

def direct_checks():
    # lookup_register itself
    for reg in ALL_REGS:
        for c in (False, True, 0, 1, None, 'yes'):
            compare('lookup_register', 'lookup_register', orig.lookup_register, new.lookup_register, (reg, c))
        compare('lookup_register', 'lookup_register', orig.lookup_register, new.lookup_register, (reg,))
        compare('lookup_register', 'lookup_register', orig.lookup_register, new.lookup_register, (reg,),
                {'compressed': True})

    # REGISTERS table
    stats['total'] += 1
    stats['REGISTERS'] += 1
    if orig.REGISTERS != new.REGISTERS:
        diffs.append(('REGISTERS', 'REGISTERS', (), {}, None, None))

    # constraint objects
    names = ['RegRdNotZero', 'RegRs1NotZero', 'RegRs2NotZero', 'RegRdRs1NotZero', 'RegRdRs1NotTwo',
             'ImmNotZero', 'ShamtBit5Zero']
    for n in names:
        co, cn = getattr(orig, n), getattr(new, n)
        for field in ('rd', 'rs1', 'rs2', 'rd_rs1', 'imm'):
            for v in list(range(-70, 71)) + [2**31, -2**31, 0xfffe0, True, 0.0, 2.0, None, '0']:
                compare('constraint', n, co, cn, (), {field: v})
                compare('constraint', n, co, cn, (), {field: v, 'extra': 0})
        compare('constraint', n, co, cn, ())
        compare('constraint', n, co, cn, (1,))

    # constraint factories with other parameters
    for field, value in itertools.product(('imm', 'rd'), (0, 1, 2, 32, -1)):
        co, cn = orig.constraint_not(field, value), new.constraint_not(field, value)
        for v in range(-40, 41):
            compare('constraint_not', 'constraint_not', co, cn, (), {field: v})
    for bit, value in itertools.product((0, 1, 4, 5, 6, 11), (0, 1, 2, 16, 32, 64)):
        co, cn = orig.constraint_bit('imm', bit, value), new.constraint_bit('imm', bit, value)
        for v in range(-140, 141):
            compare('constraint_bit', 'constraint_bit', co, cn, (), {'imm': v})

    # encoders called directly with cs variants (None, (), [], custom lists)
    def both(n):
        return getattr(orig, n), getattr(new, n)

    def cs_pairs():
        yield None, None
        yield (), ()
        yield [], []
        yield [orig.ImmNotZero], [new.ImmNotZero]
        yield (orig.ImmNotZero, orig.ShamtBit5Zero), (new.ImmNotZero, new.ShamtBit5Zero)
        yield [orig.constraint_bit('imm', 2, 4)], [new.constraint_bit('imm', 2, 4)]
        yield [orig.constraint_not('imm', -32)], [new.constraint_not('imm', -32)]
        yield [orig.constraint_not('imm', 0xfffe0)], [new.constraint_not('imm', 0xfffe0)]
        yield [orig.constraint_not('imm', -16)], [new.constraint_not('imm', -16)]

    imm_types = {
        'ci_type': dict(opcode=1, funct3=2), 'ciu_type': dict(opcode=1, funct3=3),
        'cil_type': dict(opcode=2, funct3=2), 'css_type': dict(opcode=2, funct3=6),
        'ciw_type': dict(opcode=0, funct3=0), 'cb_type': dict(opcode=1, funct3=6),
        'cbi_type': dict(opcode=1, funct2=2, funct3=4),
    }
    imms = sorted(set(list(range(-600, 1100)) + list(range(0xfffe0 - 40, 0xfffff + 41))))
    for n, kw in imm_types.items():
        fo, fn = both(n)
        for cso, csn in cs_pairs():
            for imm in imms:
                for reg in ('a0', 'x2'):
                    a = outcome(fo, (reg, imm), dict(kw, cs=cso))
                    b = outcome(fn, (reg, imm), dict(kw, cs=csn))
                    stats['direct-cs'] += 1
                    stats['total'] += 1
                    if a != b:
                        diffs.append(('direct-cs', n, (reg, imm), kw, a, b))
    for n, kw in {'cia_type': dict(opcode=1, funct3=3), 'cj_type': dict(opcode=1, funct3=5)}.items():
        fo, fn = both(n)
        for cso, csn in cs_pairs():
            for imm in range(-2200, 2200):
                a = outcome(fo, (imm,), dict(kw, cs=cso))
                b = outcome(fn, (imm,), dict(kw, cs=csn))
                stats['direct-cs'] += 1
                stats['total'] += 1
                if a != b:
                    diffs.append(('direct-cs', n, (imm,), kw, a, b))
    for n, kw in {'cl_type': dict(opcode=0, funct3=2), 'cs_type': dict(opcode=0, funct3=6)}.items():
        fo, fn = both(n)
        for cso, csn in cs_pairs():
            for imm in range(-40, 200):
                for r1, r2 in (('a0', 's1'), ('x15', 'x8'), ('x7', 'a0'), ('a0', 'x16')):
                    a = outcome(fo, (r1, r2, imm), dict(kw, cs=cso))
                    b = outcome(fn, (r1, r2, imm), dict(kw, cs=csn))
                    stats['direct-cs'] += 1
                    stats['total'] += 1
                    if a != b:
                        diffs.append(('direct-cs', n, (r1, r2, imm), kw, a, b))

    # fence with other fm values (fm=0b1000 -> imm out of i_type range)
    fo, fn = both('fence')
    for fm in (0, 1, 7, 8, 15):
        for s, p in itertools.product(range(-1, 18), repeat=2):
            for rd, rs1 in ((0, 0), ('a0', 'x31'), ('bogus', 0)):
                compare('fence-fm', 'fence', fo, fn, (s, p), dict(opcode=0b0001111, funct3=0, rd=rd, rs1=rs1, fm=fm))

    # every funct field value through the plain formats
    fo, fn = both('r_type')
    for f3, f7 in itertools.product(range(8), range(128)):
        compare('funct', 'r_type', fo, fn, ('a0', 'x31', 17), dict(opcode=0b0110011, funct3=f3, funct7=f7))
    fo, fn = both('a_type')
    for f5 in range(32):
        for aq, rl in itertools.product((0, 1), repeat=2):
            compare('funct', 'a_type', fo, fn, ('a0', 'x31', 17), dict(opcode=0b0101111, funct3=2, funct5=f5, aq=aq, rl=rl))
    for n in ('i_type', 'ij_type', 's_type', 'b_type'):
        fo, fn = both(n)
        for f3, op in itertools.product(range(8), (0, 3, 0b1100111, 0b1111111)):
            for imm in (-2048, -2, 0, 2, 2046, 2047, -1):
                compare('funct', n, fo, fn, ('t6', 'x31', imm), dict(opcode=op, funct3=f3))

    # full register cross product through r-type
    fo, fn = orig.INSTRUCTIONS['add'], new.INSTRUCTIONS['add']
    for rd, rs1, rs2 in itertools.product(range(32), repeat=3):
        compare('rtype-cross', 'add', fo, fn, (rd, rs1, rs2))


def untouched_checks():
    # everything outside the encoder region must be byte-identical to /repo
    # (apart from the now unused c_uint32 import)
    def parts(path):
        s = open(path).read()
        a, b = s.index('def lookup_register('), s.index('def is_int(')
        c, d = s.index('def constraint_not('), s.index('# RV32I Base Integer Instruction Set\n')
        return s[:a].replace(', c_uint32', ''), s[b:c], s[d:]
    stats['total'] += 1
    stats['untouched-source'] += 1
    if parts(orig.__file__) != parts(new.__file__):
        diffs.append(('untouched-source', 'asm.py', (), {}, None, None))
    for rel in ('bronzebeard/dfu.py', 'bronzebeard/__init__.py'):
        stats['total'] += 1
        stats['untouched-source'] += 1
        if open('/repo/' + rel, 'rb').read() != open(HERE + '/' + rel, 'rb').read():
            diffs.append(('untouched-source', rel, (), {}, None, None))


def program_checks():
    # whole-program: every .asm under /repo assembled by both, with and without -c
    import glob
    files = sorted(set(glob.glob('/repo/**/*.asm', recursive=True)))
    inc = ['/repo/bronzebeard/definitions', '/repo/bronzebeard/libs']
    for f in files:
        for c in (False, True):
            def run(m):
                try:
                    return ('ok', bytes(m.assemble(f, compress=c, include_dirs=inc)))
                except Exception as e:
                    return ('raise', type(e).__name__)
            a, b = run(orig), run(new)
            stats['total'] += 1
            stats['program'] += 1
            if a != b:
                diffs.append(('program', f, (c,), {}, a[0], b[0]))
    snippets = [
        'addi x1, x2, 3\nc.addi x8, 1\n',
        'main:\n    li t0, 0x10012000\n    sw t1, 8(t0)\n    j main\n',
        'a:\n  beq a0, a1, a\n  jal ra, a\n  lui s0, 0xfffff\n  c.lui s0, 0xfffe1\n  fence\n  fence 0b11, 3\n',
        'amoadd.w a0, a1, (a2)\nlr.w t0, (t1), 1, 1\nc.lw a0, 4(a1)\nc.sw a0, 124(a1)\nc.addi16sp -512\n',
        'addi x1, x2, 2048\n', 'c.addi x0, 1\n', 'c.lw x1, 4(x9)\n', 'jal x1, 3\n',
    ]
    for src in snippets:
        for c in (False, True):
            def run(m):
                try:
                    return ('ok', bytes(m.assemble(src, compress=c)))
                except Exception as e:
                    return ('raise', type(e).__name__)
            a, b = run(orig), run(new)
            stats['total'] += 1
            stats['program'] += 1
            if a != b:
                diffs.append(('program', src, (c,), {}, a, b))


def main():
    assert sorted(orig.INSTRUCTIONS) == sorted(new.INSTRUCTIONS)
    names = sorted(orig.INSTRUCTIONS)
    untouched_checks()
    program_checks()
    for name in names:
        sweep_mnemonic(name)
    direct_checks()

    print('seed %#x, %d random immediates per mnemonic, %d mnemonics' % (SEED, NRANDOM, len(names)))
    for k in sorted(stats):
        if k != 'total':
            print('  %-22s %9d' % (k, stats[k]))
    print('comparisons: %d' % stats['total'])
    print('differences: %d' % len(diffs))
    for d in diffs[:40]:
        print('  DIFF', d)
    return 1 if diffs else 0


if __name__ == '__main__':
    sys.exit(main())
