#!/venv/bin/python
"""Entry point: /venv/bin/python /verif/bbverif/check.py <Cnn> [--tier quick|thorough] [--repo /repo]

exit 0  the decided clauses of the property hold on everything analysed (known findings are listed)
exit 1  at least one `VIOLATION property=<id> replay=<path>` line
exit 2  `ANALYSIS-ERROR ...`: no verdict (anchor vanished, construct outside the abstract domain, floor not met)
"""
import argparse
import importlib
import json
import os
import sys

sys.path.insert(0, os.path.dirname(os.path.dirname(os.path.abspath(__file__))))

from bbverif import core  # noqa: E402

LEVELS = {
    'C01': 'proof', 'C02': 'proof', 'C06': 'proof', 'C07': 'proof',
}


def main(argv=None):
    ap = argparse.ArgumentParser()
    ap.add_argument('prop')
    ap.add_argument('--tier', default=os.environ.get('VERIF_TIER', 'quick'), choices=['quick', 'thorough'])
    ap.add_argument('--repo', default='/repo')
    ap.add_argument('--no-evidence', action='store_true')
    ap.add_argument('--explain', metavar='REPLAY')
    args = ap.parse_args(argv)
    if args.explain:
        with open(args.explain) as f:
            print(json.dumps(json.load(f), indent=2))
        return 0
    prop = args.prop.upper()
    try:
        mod = importlib.import_module('bbverif.props.' + prop.lower())
    except ImportError as e:
        print('ANALYSIS-ERROR property={} no checker: {}'.format(prop, e))
        return 2
    seed = int(os.environ.get('VERIF_SEED', '0') or 0)
    write = not args.no_evidence and os.path.abspath(args.repo) == '/repo'
    code, _ = core.run_property(prop, mod.run, args.repo, args.tier, getattr(mod, 'LEVEL', 'other'), seed=seed,
                                write_evidence=write)
    return code


if __name__ == '__main__':
    sys.exit(main())
