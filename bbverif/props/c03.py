"""C03 - branches, jumps, call and tail land on their label; the label table is exact."""
import ast

from ..core import Report, Finding, AnalysisError
from ..facts import Facts
from ..astutil import unparse
from .. import layoutrules as LR, labelrules as LB, immsites as IS, encprops
from ..wiring import parse_item_outcomes
from ..pathwalk import show, is_const

LEVEL = 'other'

PC_RELATIVE = ['beq', 'bne', 'blt', 'bge', 'bltu', 'bgeu', 'jal', 'c.j', 'c.jal', 'c.beqz', 'c.bnez', 'auipc', 'jalr']


def check_target_wrapping(rep, facts, rule):
    """A branch / jump operand that is not an integer literal is wrapped in %offset by the parser."""
    arms, _ = parse_item_outcomes(facts)
    n = 0
    for key, test, outcomes in arms:
        if key not in (('table', 'B_TYPE_INSTRUCTIONS'), ('table', 'J_TYPE_INSTRUCTIONS')):
            continue
        for o in outcomes:
            if o.kind != 'return' or o.cls == 'PseudoInstruction':
                continue
            params = [p for p, _ in facts.init_params(o.cls)]
            imm = o.args[params.index('imm')] if 'imm' in params and params.index('imm') < len(o.args) else None
            is_int_path = any('is_int' in c[0] and c[1] for c in o.path.conds)
            label_path = any('is_int' in c[0] and not c[1] for c in o.path.conds)
            if label_path:
                n += 1
                ok = imm is not None and imm[0] == 'imm' and imm[1][0] == 'list' and len(imm[1][1]) == 2 \
                    and imm[1][1][0] == ('const', '%offset') and imm[1][1][1][0] == 'tok'
                # the expression node built directly: Offset(tok) is what parse_immediate(['%offset', tok]) returns
                ok = ok or (imm is not None and imm[0] == 'call' and imm[1] == 'Offset' and len(imm[2]) == 1 and not imm[3] and imm[2][0][0] == 'tok')
                plain = imm is not None and ((imm[0] == 'imm' and imm[1][0] in ('list', 'rest', 'tok')) or (imm[0] == 'call' and imm[1] == 'Arithmetic')
                                             or imm[0] in ('tok', 'lower', 'const'))
                if not ok and not plain:
                    raise AnalysisError('parse_item: how the target operand of {} is built on the label path is not understood: {}'.format(o.cls, imm))
                rep.check(ok, rule, '{}: label operand parsed as %offset(label)'.format(o.cls),
                          lambda o=o: Finding(rule, 'parse_item', o.node, 'a branch/jump target that is not an integer is not wrapped in %offset', line=o.node.lineno))
            elif not is_int_path:
                rep.fail(Finding(rule, 'parse_item', o.node, 'branch/jump operand is not classified into literal offset vs. label', line=o.node.lineno))
    rep.count('label-target parse paths', n)
    # pseudo pass: every B/J construction takes %offset of one of the pseudo's operands (or Hi/Lo of it in the far form)
    pa = LR.pass_analysis(facts, 'transform_pseudo_instructions')
    m = 0
    for r in pa.rows:
        for val, node in r['app_values']:
            if val[0] == 'new' and val[1] in ('BTypeInstruction', 'JTypeInstruction'):
                f = IS.ctor_fields(facts, val)
                imm = f.get('imm')
                m += 1
                ok = (imm is not None and imm[0] == 'call' and imm[1] == 'parse_immediate' and imm[2][0][0] == 'list'
                      and imm[2][0][1][0] == ('const', '%offset'))
                rep.check(ok, rule, 'pseudo expansion {}: target = %offset(operand)'.format(show(f.get('name'))),
                          lambda node=node, imm=imm: Finding(rule, 'transform_pseudo_instructions', node,
                                                             'a pc-relative expansion does not take %offset of its target operand: {}'.format(show(imm)), line=node.lineno),
                          nontrivial=False)
    rep.count('pc-relative pseudo expansions', m)


def run(repo, tier):
    facts = Facts(repo.asm)
    rep = Report('C03', LEVEL,
                 'Inductive layout invariant: after resolve_labels every label equals the prefix sum of size() (L1); each later pass '
                 'preserves it on every path of one loop iteration: bytes in = bytes out + shift applied to exactly the labels after the '
                 'item start (L2); nothing after resolve_aligns changes a size or a label (L3); final values are evaluated from the '
                 'item\'s own final offset, %offset = label - position (L4); passes never rebind the caller\'s label dict (L5).  Target '
                 'rules: non-literal targets are wrapped in %offset; a %lo(e) consumer is either guarded to 12 bits or paired with %hi(e) '
                 '(R-lo-width); the auipc/jalr pair is evaluated relative to the auipc at every site (R-auipc); bit layout of the '
                 'pc-relative immediates equals the ISA (C01/C02 summaries).')
    rep.trusted_base = ['CPython ast', 'bbverif.pathwalk / layout size algebra', 'bbverif.bitdom encoder summaries', 'ISA oracle tables']
    rep.not_decided = ['whether a near/far or li size decision taken on pessimistic label offsets is still the right one after labels moved '
                       '(value-dependent; always a safe choice for pure %offset targets because L2 only shrinks distances; a compressed form '
                       'without immediate chosen on such a value is decided by R3.final-immediate)']
    LB.check_L1(rep, facts, 'L1.establish')
    for compress in (False, True):
        steps = LR.class_flow(facts, compress)
        for name, node, inc, out in steps:
            pa = LR.pass_analysis(facts, name, frozenset(inc))
            LR.check_conservation(rep, pa, 'L2', name in LR.LABEL_PASSES_EXPECTED)
    for fname in ('transform_compressible', 'transform_pseudo_instructions', 'resolve_aligns'):
        LB.position_starts_at_zero(rep, facts, fname, 'L2.position')
    LB.check_L4(rep, facts, 'L4')
    LB.check_L5(rep, facts, 'L5.identity')
    LB.check_bake_after_mut(rep, facts, 'L3.order')
    check_target_wrapping(rep, facts, 'R3.target')
    IS.check_lo_pairing(rep, facts, 'R3.lo-width', 'R3.guard-fits', 'R3.hi-lo-pair')
    IS.check_auipc(rep, facts, 'R3.auipc-adjust', 'R3.auipc-sibling')
    from ..comprel import CompRel, check_final_immediates
    check_final_immediates(rep, CompRel(facts), 'R3.final-immediate')
    have = [m for m in PC_RELATIVE if m in facts.instructions()]
    encprops.check_layout(rep, facts, have, 'R3.imm-layout')
    pa = LR.pass_analysis(facts, 'transform_compressible')
    for r in pa.rows[2:6]:
        rep.sample(LR.describe_row(r))
    rep.floor('pass paths accounted', 150)
    rep.floor('label definition sites', 1)
    rep.floor('baking evaluation sites', 1)
    rep.floor('label-target parse paths', 2)
    rep.floor('pc-relative pseudo expansions', 12)
    rep.floor('%lo constructions examined', 5)
    rep.floor('item-immediate evaluation sites', 2)
    return rep
