"""C18 - a completed DFU run leaves the device flash equal to the firmware image (host-side protocol obligations).

All rules are stated over the ctrl_transfer events of the fully inlined paths of cli_main (see dfurules), so they do not depend on
how the code is split into helpers or on variable names."""
import ast

from ..core import Report, Finding, AnalysisError
from ..facts import Facts
from ..astutil import unparse
from ..pathwalk import show, is_const, C
from ..poly import Poly
from .. import dfurules as D, oracle
from ..dfurules import PAGE, LEN, strip

LEVEL = 'other'
FILE = 'bronzebeard/dfu.py'


def F(rule, construct, stmt, msg, line=None):
    return Finding(rule, construct, stmt, msg, file=FILE, line=line if line is not None else getattr(stmt, 'lineno', None))


def check_constants(rep, facts):
    """The protocol numbers the module names must be the specification's.  A name the module does not define at all is not a wrong
    number (whatever the requests are built from is folded and checked where it is used); a name that is bound to something the
    analysis cannot fold is no verdict."""
    consts = facts.consts
    for group in ('requests', 'states', 'status', 'dfuse', 'usb'):
        for name, val in oracle.DFU[group].items():
            have = consts.get(name)
            if name not in consts:
                if name in facts.assign_nodes:
                    rep.undecided('the value of the protocol constant {} (line {}) cannot be folded'.format(name, facts.assign_nodes[name].lineno))
                continue
            rep.check(have == val, 'R18.1.constants', '{} == {}'.format(name, val),
                      lambda name=name, val=val, have=have: F('R18.1.constants', name, name, '{} is {} but the DFU / DfuSe specification says {}'.format(name, have, val),
                                                              line=facts.assign_nodes[name].lineno if name in facts.assign_nodes else 1), nontrivial=False)
    states = [consts[n] for n in oracle.DFU['states'] if n in consts]
    rep.check(len(set(states)) == len(states), 'R18.1.constants', 'state numbers pairwise distinct',
              lambda: F('R18.1.constants', 'STATE_*', 'distinct', 'two DFU states share a number', line=1))


def check_requests(rep, facts, models):
    """R18.1: every request on every path is well-formed for its kind.  A field that cannot be folded to a number is no verdict."""
    seen = {}
    consts = models[0].consts if models else D.module_consts(facts)
    for m in models:
        for r in m.reqs:
            seen.setdefault((id(r.node), r.kind, r.bmRequestType, r.wValue, repr(r.pack[:2]) if r.pack else None,
                             D.fold_sym(r.data, consts) if r.kind == 'POLL' and r.data is not None else None), r)
    kinds = {}
    for r in seen.values():
        kinds[r.kind] = kinds.get(r.kind, 0) + 1
    rep.count('request forms classified', len(seen))
    for k in ('POLL', 'CLR', 'ERASE', 'SETADDR', 'DATA'):
        rep.check(kinds.get(k, 0) >= 1, 'R18.1.kinds', 'some path sends {}'.format(k),
                  lambda k=k: F('R18.1.kinds', 'cli_main', k, 'no path of cli_main sends a {} request (request numbers / DfuSe command bytes changed?)'.format(k), line=1))
    for r in seen.values():
        k = r.kind
        node = r.node
        if k in ('OTHER', 'DNLOAD?'):
            rep.fail(F('R18.1.kinds', 'ctrl_transfer', node, 'control request {} / payload command {} is not one of GETSTATUS, CLRSTATUS, DNLOAD with erase-page / set-address / data'.format(
                r.request, r.pack[1] if r.pack else None)), instance='unknown request')
            continue
        want_rt = oracle.DFU['bmRequestType_in'] if k == 'POLL' else oracle.DFU['bmRequestType_out']
        if not isinstance(r.bmRequestType, int) or not isinstance(r.wValue, int):
            rep.undecided('bmRequestType / wValue of the {} request at line {} cannot be folded to a number'.format(k, r.line))
            continue
        rep.check(r.bmRequestType == want_rt, 'R18.1.request-type', '{}: bmRequestType 0x{:02x}'.format(k, want_rt),
                  lambda r=r, want_rt=want_rt, node=node, k=k: F('R18.1.request-type', k, node,
                                                                 'bmRequestType is {} but a class/interface {} request is 0x{:02x}'.format(r.bmRequestType, 'IN' if want_rt & 0x80 else 'OUT', want_rt)))
        if k == 'POLL':
            n = D.fold_sym(r.data, consts) if r.data is not None else None
            if not isinstance(n, int):
                rep.undecided('the length GETSTATUS asks for (line {}) cannot be folded to a number: {}'.format(r.line, show(r.data)[:60] if r.data is not None else None))
                continue
            rep.check(n == oracle.DFU['getstatus_len'], 'R18.1.getstatus-len', 'GETSTATUS asks for 6 bytes',
                      lambda node=node, n=n: F('R18.1.getstatus-len', 'POLL', node, 'GETSTATUS reads {} bytes; the status block is 6 bytes'.format(n)))
        if k in ('ERASE', 'SETADDR'):
            fmt = r.pack[0]
            rep.check(fmt == '<BI' and r.wValue == 0 and len(r.pack[2]) == 1, 'R18.1.dfuse-command', '{}: wValue 0, payload <BI (command byte + LE 32-bit address)'.format(k),
                      lambda node=node, fmt=fmt, r=r, k=k: F('R18.1.dfuse-command', k, node,
                                                             'DfuSe command is sent with wValue={} and payload format {!r} ({} value(s)); commands travel in block 0 as command byte + little-endian 32-bit address'.format(
                                                                 r.wValue, fmt, len(r.pack[2]))))
        if k == 'DATA':
            rep.check(r.wValue == oracle.DFU['download_wvalue'], 'R18.1.block-number', 'data download uses wValue 2 (address pointer + 0)',
                      lambda node=node, r=r: F('R18.1.block-number', 'DATA', node,
                                               'data is downloaded with wValue={}; DfuSe writes at pointer + (wValue - 2) * wLength, and 0 / 1 are reserved for commands'.format(r.wValue)))


BWPOLLTIMEOUT = {1: 1, 2: 256, 3: 65536}


def milliseconds_of(arg, consts):
    """The term whose value in milliseconds a sleep argument (seconds) stands for: x / 1000, x * 0.001, x * (1 / 1000)."""
    arg = strip(arg) if arg is not None else None
    if arg is None:
        return None
    if arg[0] == 'bin' and arg[1] == '/' and D.fold_sym(arg[3], consts) in (1000, 1000.0):
        return arg[2]
    if arg[0] == 'bin' and arg[1] == '*':
        for x, y in ((arg[2], arg[3]), (arg[3], arg[2])):
            sy = strip(y)
            if is_const(sy) and sy[1] in (0.001, 1e-3):
                return x
            if sy[0] == 'bin' and sy[1] == '/' and D.fold_sym(sy[2], consts) in (1, 1.0) and D.fold_sym(sy[3], consts) in (1000, 1000.0):
                return x
    return None


def skipped_sleep(conds, r, consts):
    """A poll that is followed by no sleep on this path: True when the branch conditions between the poll and the next request hold
    only for a poll delay of zero (a zero delay needs no wait), False when no condition mentions the delay or the conditions
    also hold for some non-zero delay, None when a condition that mentions the delay cannot be evaluated."""
    relevant = []
    for kind, idx, node, (test, pol) in conds:
        terms = [(t, w) for t, w, uid in D.reply_terms(test, consts) if uid == r.uid and set(w) & set(BWPOLLTIMEOUT)]
        if terms:
            relevant.append((test, pol, terms))
    if not relevant:
        return False
    only_zero = False
    for test, pol, terms in relevant:
        if any(w != BWPOLLTIMEOUT for _, w in terms):
            return None
        outcomes = {}
        for ms in (0, 1, 2, 255, 256, 999, 1000, 65535, 65536, (1 << 24) - 1):
            got = D.eval_sym_test(test, {t: ms for t, _ in terms}, consts)
            if got is None:
                return None
            outcomes[ms] = got == pol
        if not outcomes[0]:
            return None            # the path condition excludes a zero delay and still there is no sleep: left to the caller
        if not any(v for ms, v in outcomes.items() if ms):
            only_zero = True
    return only_zero


def check_poll(rep, facts, models):
    """R18.2: after every GETSTATUS the host sleeps bwPollTimeout (bytes 1..3 of that reply, little endian, ms) before its next request."""
    seen = set()
    n = 0
    consts = models[0].consts if models else D.module_consts(facts)
    for m in models:
        evs = m.evs
        for j, (kind, idx, node, r) in enumerate(evs):
            if kind != 'REQ' or r.kind != 'POLL':
                continue
            sleep = None
            guard = None           # (test, polarity) under which the sleep is taken, for a sleep the walk did not fork on
            conds = []
            for e2 in evs[j + 1:]:
                kind2, idx2, node2, p2 = e2
                if kind2 == 'REQ':
                    break
                if kind2 == 'COND':
                    conds.append(e2)
                if kind2 == 'SLEEP':
                    sleep = (idx2, node2, p2)
                    break
                if kind2 == 'GSLEEP':
                    sleep = (idx2, node2, p2[0])
                    guard = (p2[1], p2[2])
                    break
            nxt = [e for e in evs[j + 1:] if e[0] == 'REQ']
            key = (id(r.node), sleep is not None, show(sleep[2])[:200] if sleep else tuple((show(c[3][0])[:80], c[3][1]) for c in conds), bool(nxt),
                   (show(guard[0])[:120], guard[1]) if guard else None)
            if key in seen:
                continue
            seen.add(key)
            n += 1
            if guard is not None and nxt:
                # the sleep is taken only when `guard` holds: where it does not hold the delay must be zero
                skipped = skipped_sleep(conds + [('COND', sleep[0], sleep[1], (guard[0], not guard[1]))], r, consts)
                if skipped is True:
                    rep.ok('R18.2.sleep', 'no sleep only where bwPollTimeout is zero')
                elif skipped is None:
                    rep.undecided('the sleep after GETSTATUS (line {}) is taken under a condition on the poll delay that cannot be evaluated: {}'.format(r.line, show(guard[0])[:80]))
                else:
                    rep.fail(F('R18.2.sleep', 'GETSTATUS', r.node,
                               'the poll delay the device asked for (bwPollTimeout) is waited for only when {}{}: every reply\'s delay must be waited for before the next request'.format(
                                   '' if guard[1] else 'not ', show(guard[0])[:100])), instance='sleep after poll')
            if sleep is None:
                if not nxt:
                    continue       # last poll of the run: nothing follows
                skipped = skipped_sleep(conds, r, consts)
                if skipped is True:
                    rep.ok('R18.2.sleep', 'no sleep only on the branch where bwPollTimeout is zero')
                elif skipped is None:
                    rep.undecided('a GETSTATUS (line {}) is followed by no sleep on a branch whose condition on the poll delay cannot be evaluated'.format(r.line))
                else:
                    rep.fail(F('R18.2.sleep', 'GETSTATUS', r.node, 'the poll delay the device asked for (bwPollTimeout) is not waited for before the next request'),
                             instance='sleep after poll')
                continue
            ms = milliseconds_of(sleep[2], consts)
            val = D.reply_value(ms, consts) if ms is not None else None
            if val is None or val[0] != 'int' or val[3] is None:
                # not understood: no verdict for this rule, and the other rules still run (a violation they establish must not be masked)
                rep.undecided('cannot interpret the sleep after GETSTATUS as a function of the reply: {}'.format(show(sleep[2])[:100] if sleep[2] is not None else None))
                continue
            weights, const, reply = val[1], val[2], val[3]
            rep.check(weights == BWPOLLTIMEOUT and const == 0, 'R18.2.delay', 'slept seconds * 1000 == byte1 | byte2 << 8 | byte3 << 16',
                      lambda weights=weights, const=const, r=r: F('R18.2.delay', 'GETSTATUS', r.node,
                                                                  'the sleep is not bwPollTimeout (bytes 1..3 of the reply, little endian, milliseconds): byte weights {}{}'.format(
                                                                      {k: v for k, v in sorted(weights.items())}, ' + {}'.format(const) if const else '')))
            rep.check(D.reply_uid(reply) == r.uid, 'R18.2.delay', 'the delay is taken from the reply just received',
                      lambda r=r: F('R18.2.delay', 'GETSTATUS', r.node, 'the sleep uses the poll timeout of an earlier reply'), nontrivial=False)
    rep.count('poll sites', n)


def check_typestate(rep, facts, models):
    """R18.3: no request while the previous download request has not settled: between a download-class request and the next
    request the path must carry a constraint (loop exit or branch) on the state byte of the *latest* GETSTATUS reply that is
    false when that byte is dfuDNBUSY."""
    consts = models[0].consts if models else D.module_consts(facts)
    busy = oracle.DFU['states']['STATE_DFU_DNBUSY']
    n_req = 0
    n_settle = 0
    loops = {}
    undecided = set()

    def unsettled(finding, instance, unclear):
        """The request was not seen to settle: a finding when every test on the way was read, no verdict when one was not."""
        if unclear is not None:
            key = (getattr(unclear[0], 'lineno', None), show(unclear[1])[:80])
            if key not in undecided:
                undecided.add(key)
                rep.undecided('whether the device has left dfuDNBUSY is decided by a test the rules cannot read (line {}): {}'.format(*key))
        else:
            rep.fail(finding, instance=instance)

    for m in models:
        pending = None          # Request not yet settled
        last_poll = None
        unclear = None          # (node, test) of a test since `pending` that uses the latest reply in a way the rules cannot read
        loop_first_req = {}
        for kind, idx, node, payload in m.evs:
            if kind == 'REQ':
                r = payload
                if r.kind == 'POLL':
                    last_poll = r
                    unclear = None       # whatever was tested before this poll says nothing about its reply
                    continue
                if r.kind in D.DNLOAD_KINDS or r.kind == 'CLR':
                    n_req += 1
                    if pending is not None:
                        unsettled(F('R18.3.settle', 'cli_main', r.site,
                                    'a {} request is issued while the {} request before it (line {}) has not been polled out of dfuDNBUSY'.format(r.kind, pending.kind, pending.line)),
                                  '{} after {}'.format(r.kind, pending.kind), unclear)
                    else:
                        rep.ok('R18.3.settle', '{} only when the previous request has settled'.format(r.kind))
                    if r.kind != 'CLR':
                        pending = r
                        last_poll = None
                        unclear = None
            elif kind in ('COND', 'ENDWHILE', 'ENDWHILE0'):
                test, pol = payload if kind == 'COND' else (payload, False)
                if kind != 'COND':
                    loops.setdefault(id(node), [node, test, None])
                if pending is None or last_poll is None:
                    continue
                terms = D.reply_terms(test, consts)
                state_terms = [t for t, w, uid in terms if w == {4: 1} and uid == last_poll.uid]
                if not state_terms:
                    if kind != 'COND' and any(w == {4: 1} for t, w, uid in terms):
                        loops[id(node)][2] = 'stale'
                    if D.unread_reply_use(test, last_poll.uid, consts) or any(uid == last_poll.uid and 4 in w and w != {4: 1} for t, w, uid in terms):
                        unclear = (node, test)
                    continue
                subst = {t: busy for t in state_terms}
                val = D.eval_sym_test(test, subst, consts)
                if val is None:
                    unclear = (node, test)
                    continue
                if val != pol:
                    # on this path the latest state is not dfuDNBUSY
                    pending = None
                    n_settle += 1
                    if kind != 'COND':
                        loops[id(node)][2] = 'good'
                elif kind != 'COND' and loops[id(node)][2] is None:
                    loops[id(node)][2] = 'exits-busy'
            elif kind == 'ENDLOOP':
                if pending is not None and any(lp[1] is node for lp in m.loops_of.get(pending.idx, [])):
                    unsettled(F('R18.3.settle', 'cli_main', pending.site,
                                'the loop goes round to its next request while this {} request has not been polled out of dfuDNBUSY'.format(pending.kind)),
                              'loop-back after {}'.format(pending.kind), unclear)
                    pending = None
    rep.analysed['requests on paths'] = n_req
    rep.count('settle points', n_settle)
    rep.count('polling loops', len(loops))
    settle_failed = any(f.rule == 'R18.3.settle' for f in rep.findings)
    for node, test, verdict in loops.values():
        if verdict == 'good':
            rep.ok('R18.3.poll-loop', 'polling loop `while {}` keeps polling while the device is busy'.format(unparse(node.test)))
        elif verdict in ('exits-busy', 'stale') and settle_failed:
            # diagnostic for the settle failure above (a loop that is not the settling loop is not a violation by itself)
            rep.fail(F('R18.3.poll-loop', 'polling loop', node.test,
                       'this loop {}'.format('stops polling although the device may still report dfuDNBUSY' if verdict == 'exits-busy' else
                                             'tests a state that the GETSTATUS inside it does not refresh'), line=node.lineno),
                     instance='poll loop {}'.format(verdict))


understood = D.understood


def other_length_guard(m, sym, before_idx):
    """Text of a branch condition before `before_idx` that compares the length of a bound buffer other than the flashed one."""
    for kind, idx, node, payload in m.evs:
        if kind == 'COND' and idx < before_idx:
            g = sym.gt(payload[0])
            if g is not None and not D.mentions(g, LEN) and any(isinstance(s_, tuple) and s_ and s_[0] == 'len' for k in g.terms for s_ in k):
                return show(payload[0])[:80]
    return None


def check_layout(rep, facts, fn, models):
    """R18.4 - R18.8: addresses, chunks, padding, guard and the variant table, per path that sends a data download."""
    consts = models[0].consts if models else D.module_consts(facts)
    base = oracle.DFU['flash_base']
    seen = set()
    table = {}
    n_pad = 0
    n_paths = 0
    write_loops = set()        # ids of the For nodes whose body sends the data download, over all paths

    def once(*key):
        if key in seen:
            return False
        seen.add(key)
        return True

    def undecided(msg):
        if once('undecided', msg):
            rep.undecided(msg)

    erase_loops = set()        # likewise for the erase request
    for m in models:
        for r in m.reqs:
            if r.kind == 'DATA':
                write_loops.update(id(lp[1]) for lp in m.loops_of.get(r.idx, []))
            if r.kind == 'ERASE':
                erase_loops.update(id(lp[1]) for lp in m.loops_of.get(r.idx, []))

    for m in models:
        datas = [r for r in m.reqs if r.kind == 'DATA']
        erases = [r for r in m.reqs if r.kind == 'ERASE']
        setaddrs = [r for r in m.reqs if r.kind == 'SETADDR']
        if not datas:
            if erases and m.p.end != 'raise' and once('erase-only', id(erases[0].node)):
                # a path that erases but never writes and ends normally: the write loop ran zero times although the erase loop ran
                ran = [node for kind, idx, node, payload in m.evs if kind == 'LOOP' and id(node) in write_loops]
                try:
                    el = m.page_loop(erases[0])
                    sym = m.base_sym(m.raw())
                    skipped = [(node, D.loop_range(payload)) for kind, idx, node, payload in m.evs if kind == 'LOOP0' and id(node) in write_loops]
                    n_e = m.trip_count(el.rng, sym) if el is not None else None
                    n_w = m.trip_count(skipped[0][1], sym) if skipped and skipped[0][1] is not None else None
                except D.Undecided:
                    n_e = n_w = None
                if ran:
                    # the write loop did run on this path, and an iteration of it went by without a download
                    rep.fail(F('R18.4.erase-first', 'cli_main', erases[0].site, 'a run can erase pages and end normally without writing them'), instance='erase-only path')
                elif n_e is None or n_w is None or not (understood(n_e, sym) and understood(n_w, sym)):
                    undecided('a path erases pages and ends without writing them, and the trip counts of its erase and write loops cannot be compared')
                else:
                    rep.fail(F('R18.4.erase-first', 'cli_main', erases[0].site, 'a run can erase pages and end normally without writing them'), instance='erase-only path')
            continue
        n_paths += 1
        d = datas[0]
        try:
            shape = m.data_shape(d)
            if isinstance(shape, str):
                if once('shape', shape):
                    rep.fail(F('R18.5.chunk', 'cli_main', d.site, 'the chunk written to a page is not the page-sized slice of the padded image: ' + shape), instance='chunk shape')
                continue
            fw, lo, hi, S, raw = shape
            if raw is None:
                raise D.Undecided('the buffer sliced by the data download does not lead back to a value read from the file: {}'.format(show(fw)[:80]))
            if once('image', repr(strip(raw))):
                is_file, what = D.flashed_image_is_file(raw)
                if is_file is None:
                    undecided('whether the buffer that is padded and written is the content of the firmware file is not known: ' + what)
                else:
                    node_r = next((ev[-1] for ev in m.p.events if ev[0] == 'value' and ev[1] == raw), fn)
                    rep.check(is_file, 'R18.6.image', 'the buffer that is padded and written is the content of the firmware file',
                              lambda what=what, node_r=node_r: F('R18.6.image', 'cli_main', node_r,
                                                                 'the image that is padded and written is not the firmware file but {}: flash will not hold the file'.format(what),
                                                                 line=getattr(node_r, 'lineno', fn.lineno)))
            wl = m.page_loop(d, raw)
            if wl is None:
                if once('noloop', id(d.node)):
                    rep.fail(F('R18.4.same-range', 'cli_main', d.site, 'the data download is not inside a loop over range(pages)'), instance='write loop')
                continue
            sym_w = m.sym_for(d, raw)
            # R18.5 chunk: firmware[PAGE*S : PAGE*S + S], S free of PAGE
            ok = (not D.mentions(S, PAGE)) and not S.is_zero() and lo == Poly.sym(PAGE) * S
            if not ok and not (understood(lo, sym_w, (PAGE,)) and understood(hi, sym_w, (PAGE,))):
                undecided('the bounds of the chunk firmware[{} : {}] are not expressions the rules can follow'.format(lo, hi))
                continue
            if once('chunk', repr(lo), repr(hi)):
                rep.check(ok, 'R18.5.chunk', 'chunk == padded firmware[page*S : (page+1)*S]',
                          lambda d=d, lo=lo, hi=hi: F('R18.5.chunk', 'cli_main', d.site,
                                                      'the chunk written to a page is firmware[{} : {}] instead of the page-sized slice at the same offset as its address'.format(lo, hi)))
            if not ok:
                continue
            # R18.4 addresses
            for r in erases + setaddrs:
                sym = m.sym_for(r, raw)
                pl = m.page_loop(r, raw)
                got = sym.poly(r.addr) if r.addr is not None else None
                want = Poly.const(base) + Poly.sym(PAGE) * S
                if got is not None and not (got == want) and not understood(got, sym, (PAGE,)):
                    undecided('the address of the {} request at line {} is not an expression the rules can follow: {}'.format(r.kind, r.line, got))
                    continue
                if once('addr', r.kind, repr(got), repr(want)):
                    rep.check(pl is not None and got is not None and got == want, 'R18.4.address', '{} address == 0x08000000 + page * S (S = size of the chunk written)'.format(r.kind),
                              lambda r=r, got=got, want=want: F('R18.4.address', 'cli_main', r.site, '{} is sent address {} instead of {}'.format(r.kind, got, want)))
            # R18.4 erase loop completes before the write loop, over the same range
            er_ok = bool(erases)
            why = 'no page is erased before the write loop starts'
            n_w = m.trip_count(wl.rng, sym_w)
            if not erases:
                # the erase loop exists but ran zero times on this path although the write loop ran: their trip counts differ, or are
                # not comparable
                skipped = [D.loop_range(payload) for kind, idx, node, payload in m.evs if kind == 'LOOP0' and id(node) in erase_loops and idx < wl.idx]
                if skipped:
                    n_e = m.trip_count(skipped[0], sym_w) if skipped[0] is not None else None
                    if n_e is None or n_w is None or not (understood(n_e, sym_w) and understood(n_w, sym_w)):
                        raise D.Undecided('the trip counts of the erase loop over {} and the write loop over {} cannot be compared'.format(
                            show(skipped[0])[:60] if skipped[0] is not None else '?', show(wl.rng)[:60]))
                    why = ('the erase loop runs {} times but the write loop {} times: every page must be erased and then written exactly once').format(n_e, n_w)
            for r in erases:
                el = m.page_loop(r, raw)
                if el is None:
                    er_ok, why = False, 'the erase request is not inside a loop over range(pages)'
                    continue
                end = m.loop_end.get(el.idx)
                if el.idx == wl.idx:
                    er_ok, why = False, 'pages are erased in the same loop that writes them'
                elif end is None or end > wl.idx:
                    er_ok, why = False, 'the erase loop has not completed when the write loop starts'
                elif el.rng != wl.rng:
                    n_e = m.trip_count(el.rng, m.sym_for(r, raw))
                    if n_e is None or n_w is None or (not (n_e == n_w) and not (understood(n_e, sym_w) and understood(n_w, sym_w))):
                        raise D.Undecided('the trip counts of the erase loop over {} and the write loop over {} cannot be compared'.format(show(el.rng)[:60], show(wl.rng)[:60]))
                    if not (n_e == n_w):
                        er_ok, why = False, ('the erase loop runs {} times ({}) but the write loop {} times ({}): every page must be erased and then written exactly once '
                                             '(a page that is only erased keeps 0xff where the padded image has data or zero padding; a page that is only written was not erased)').format(
                                                 n_e, show(el.rng)[:60], n_w, show(wl.rng)[:60])
                if er_ok and r.idx > d.idx:
                    er_ok, why = False, 'a page is erased after it has been written'
            if once('erase-first', er_ok, why if not er_ok else ''):
                rep.check(er_ok, 'R18.4.erase-first', 'one erase loop completes, then the write loop runs over the same range',
                          lambda d=d, why=why: F('R18.4.erase-first', 'cli_main', d.site, why))
            for r in setaddrs:
                sl = m.page_loop(r, raw)
                if once('setaddr-loop', sl is not None and sl.idx == wl.idx):
                    rep.check(sl is not None and sl.idx == wl.idx and r.idx < d.idx, 'R18.4.address', 'set-address precedes the data download in the same iteration',
                              lambda r=r: F('R18.4.address', 'cli_main', r.site, 'the address pointer is not set in the iteration that downloads the chunk'), nontrivial=False)
            if not setaddrs and once('nosetaddr'):
                rep.fail(F('R18.4.address', 'cli_main', d.site, 'the data download is not preceded by a set-address command'), instance='set-address')
            rng = wl.rng
            N = n_w
            if N is None:
                raise D.Undecided('the number of iterations of {} is not a polynomial the rules can follow'.format(show(rng)[:80]))
            # R18.6 padding: len(FW) == N*S given LEN = Q*S + R from a Euclidean division of the path, zero bytes only
            dms = [dm for dm in sym_w.divmods if dm.q is not None and dm.r is not None and dm.pa == Poly.sym(LEN)]
            if not dms:
                others = [dm for dm in sym_w.divmods if dm.q is not None and dm.r is not None]
                if others and all(understood(dm.pa, sym_w) and understood(dm.pb, sym_w) for dm in others) and D.mentions(sym_w.normal(N), others[0].q):
                    dm = others[0]
                    rep.fail(F('R18.6.padding', 'cli_main', 'divmod', 'the page count is derived from divmod({}, {}) instead of divmod(len(firmware), page size)'.format(dm.pa, dm.pb), line=fn.lineno),
                             instance='pages, rem = divmod(len(firmware), S)')
                    continue
                raise D.Undecided('the page count {} is not derived from a division of len(firmware) by the page size (divmod, or // and %)'.format(show(rng)[:80]))
            dm = dms[0]
            dm_ok = dm.pb == S
            if not dm_ok and not (understood(dm.pb, sym_w) and understood(S, sym_w)):
                undecided('the page size the page count is computed with ({}) and the size of the chunk written ({}) cannot be compared'.format(dm.pb, S))
                continue
            rep.check(dm_ok, 'R18.6.padding', 'pages, rem = divmod(len(firmware), S)',
                      lambda d=d, dm=dm: F('R18.6.padding', 'cli_main', 'divmod', 'the page count is derived from divmod({}, {}) instead of divmod(len(firmware), page size)'.format(
                          dm.pa, dm.pb), line=fn.lineno), nontrivial=False)
            if not dm_ok:
                continue
            r_zero = dm.r_zero
            Q = Poly.sym(dm.q)
            n_norm = sym_w.normal(N)
            if r_zero is None and dm.r_free:
                # the path is taken for rem == 0 and for rem != 0 alike, so its page count cannot be right for both
                if not understood(n_norm, sym_w):
                    undecided('the page count {} is not an expression the rules can follow'.format(n_norm))
                    continue
                if once('pages-free', repr(n_norm)):
                    rep.fail(F('R18.6.padding', 'cli_main', 'page count',
                               'the loops run over {} pages whether or not len(firmware) is a multiple of the page size: a firmware of q*S + rem bytes occupies q pages when rem == 0 and q + 1 otherwise'.format(n_norm),
                               line=fn.lineno), instance='page count independent of rem')
                continue
            if r_zero is None:
                undecided('whether the remainder of len(firmware) / page size is zero on a flashing path is not decided by its branch conditions')
                continue
            n_want = Q if r_zero else Q + Poly.const(1)
            if not (n_norm == n_want):
                if not understood(n_norm, sym_w):
                    undecided('the page count {} is not an expression the rules can follow'.format(n_norm))
                    continue
                if once('pages', repr(n_norm), r_zero):
                    rep.fail(F('R18.6.padding', 'cli_main', 'page count (rem {} 0)'.format('==' if r_zero else '!='),
                               'the loops run over {} pages; a firmware of q*S + rem bytes with rem {} 0 occupies {} pages (q = {})'.format(n_norm, '==' if r_zero else '!=', n_want, Q),
                               line=fn.lineno), instance='page count (rem {} 0)'.format('==' if r_zero else '!='))
                continue
            total = sym_w.length(fw)
            diff = sym_w.normal(total - N * S)
            # a padding loop that ran zero times means its count is zero: reduce modulo that relation
            for ev in m.p.events:
                if ev[0] == 'loop0':
                    it = strip(ev[1])
                    if it[0] == 'call' and it[1] == 'range' and len(it[2]) == 1 and it != wl.rng:
                        X = sym_w.normal(sym_w.poly(it[2][0]))
                        for k in (1, -1):
                            if (diff + X * Poly.const(k)).is_zero():
                                diff = Poly()
            if not diff.is_zero() and not understood(diff, sym_w):
                undecided('the length of the padded image minus pages * page size is {}: not an expression the rules can follow'.format(diff))
                continue
            if once('pad', repr(diff), r_zero, show(fw)[:80]):
                n_pad += 1
                rep.check(diff.is_zero(), 'R18.6.padding', 'rem {} 0: padded length == pages * S'.format('==' if r_zero else '!='),
                          lambda diff=diff, r_zero=r_zero: F('R18.6.padding', 'cli_main', 'padding (rem {} 0)'.format('==' if r_zero else '!='),
                                                             'with len(firmware) = q*S + rem the length of the buffer the chunks are sliced from, minus pages*S, is {} (must be 0): the last page is partly written / out of range'.format(diff),
                                                             line=fn.lineno))
                zeros = sym_w.zero_extension(fw)
                if zeros is None:
                    undecided('what the firmware image is padded with is not a construction the rules can read: {}'.format(show(fw)[:80]))
                else:
                    rep.check(zeros, 'R18.6.zeros', 'the image is only ever extended by zero bytes at its end',
                              lambda: F('R18.6.zeros', 'cli_main', 'padding bytes', 'the firmware image is padded with something other than zero bytes', line=fn.lineno), nontrivial=False)
            # R18.7 guard: before the first request, LEN - CAP > 0 -> refuse, CAP = S * C
            first = min(r.idx for r in m.sends) if m.sends else d.idx
            guards = [g for g in m.capacity(sym_w, first) if g[2] is False]
            cap = None
            for idx, node, pol, g in guards:
                a, b, high = D.split_by(g, LEN)
                if not high and b == Poly.const(1):
                    cap = -a
            if cap is None and not m.unread_inequalities(sym_w, first) and m.unread_inequalities(sym_w, first, lengths=False) == [] and other_length_guard(m, sym_w, first):
                undecided('the size guard looks at the length of another buffer ({}) than the one that is padded and written'.format(other_length_guard(m, sym_w, first)))
                continue
            if cap is None and m.unread_inequalities(sym_w, first):
                t = m.unread_inequalities(sym_w, first)[0]
                undecided('a size comparison before the first request is not one the rules can relate to the firmware length (line {}): {}'.format(
                    getattr(t[1], 'lineno', '?'), show(t[2])[:80]))
                continue
            if once('guard', repr(cap)):
                rep.check(cap is not None, 'R18.7.in-range', 'size guard len(firmware) > CAP -> refuse precedes the first request',
                          lambda d=d: F('R18.7.in-range', 'cli_main', 'size guard', 'requests can be sent without the firmware length having been checked against the flash size', line=fn.lineno))
            if cap is None:
                continue
            # R18.8 variant table: the capacity per serial-number letter
            letter = m.gd32_letter()
            s_const = S.terms.get((), None) if len(S.terms) == 1 and () in S.terms else None
            by_key, key = D.table_values(cap, consts)
            if by_key is not None:
                # CAP is looked up in a module-level table (bytes, or pages times a constant page size): one capacity per key
                ks = strip(key)
                if s_const is None or not (ks[0] == 'sub' and ks[2] == C(2)):
                    undecided('the flash capacity is looked up in a table by {} with a page size of {}: not the serial-number letter / a constant page size'.format(show(key)[:40], S))
                    continue
                if once('guard-cap-table', repr(cap), repr(S)):
                    bad = {k_: v_ for k_, v_ in by_key.items() if v_ % s_const}
                    rep.check(not bad, 'R18.7.in-range', 'CAP == S * page_count (all addresses below base + CAP)',
                              lambda bad=bad, S=S: F('R18.7.in-range', 'cli_main', 'size guard', 'the size guard admits {} bytes, which is not a whole number of pages of {} bytes'.format(
                                  sorted(bad.values()), S), line=fn.lineno))
                tl = [D.table_lookup(s_, consts) for mono in cap.terms for s_ in mono if isinstance(s_, tuple)]
                where = facts.assign_nodes.get(tl[0][0]) if tl and tl[0] else None
                for k_, v_ in by_key.items():
                    if v_ % s_const == 0:
                        table[k_] = (v_ // s_const, s_const, where)
                continue
            Cq = D.divide(cap, S)
            if Cq is None and not (understood(cap, sym_w) and understood(S, sym_w)):
                undecided('the capacity the size guard admits ({}) is not an expression the rules can follow'.format(cap))
                continue
            if once('guard-cap', repr(cap), repr(S)):
                rep.check(Cq is not None and not D.mentions(Cq, PAGE), 'R18.7.in-range', 'CAP == S * page_count (all addresses below base + CAP)',
                          lambda cap=cap, S=S: F('R18.7.in-range', 'cli_main', 'size guard', 'the size guard admits {} bytes, which is not a whole number of pages of {} bytes'.format(cap, S), line=fn.lineno))
            if Cq is None:
                continue
            if letter is not None:
                if len(Cq.terms) <= 1 and all(k == () for k in Cq.terms) and s_const is not None:
                    table[letter[0]] = (Cq.terms.get((), 0), s_const, letter[1])
        except D.Undecided as e:
            undecided(str(e))
            continue
    rep.count('padding cases', n_pad)
    rep.count('flashing paths', n_paths)
    if not table:
        if n_paths and not rep.findings and not rep.__dict__.get('_undecided'):
            raise AnalysisError('cli_main: how the page count of a GD32 part follows from its serial number is not understood (no variant could be read)')
        return
    for letter, n in oracle.DFU['gd32_pages'].items():
        have = table.get(letter)
        if have is None:
            # no flashing path was read for this letter: the dispatch on the serial number has a spelling the rules did not follow
            # (or the part is refused) - nothing is known to be wrong
            rep.undecided('no flashing path could be read for GD32 serial-number letter {!r} (read: {})'.format(letter, ', '.join(sorted(table))))
            continue
        rep.check(have is not None and have[0] == n and have[1] == oracle.DFU['gd32_page_size'], 'R18.8.variants',
                  'GD32 serial letter {} -> {} pages of {} bytes'.format(letter, n, oracle.DFU['gd32_page_size']),
                  lambda letter=letter, n=n, have=have: F('R18.8.variants', 'cli_main', have[2] if have and have[2] is not None else 'serial number table',
                                                          'GD32 variant {!r} is flashed as {} pages of {} bytes; the part has {} pages of 1024 bytes'.format(
                                                              letter, have[0] if have else None, have[1] if have else None, n),
                                                          line=getattr(have[2], 'lineno', fn.lineno) if have else fn.lineno))


def run(repo, tier):
    facts = Facts(repo.dfu, FILE)
    rep = Report('C18', LEVEL,
                 'Host-side obligations of the DfuSe download protocol decided on the syntax tree of dfu.py.  cli_main is path-enumerated '
                 'with all helpers inlined; the events are the ctrl_transfer calls classified by their folded arguments.  Protocol constants '
                 'vs. DFU 1.1 / DfuSe; every request well-formed for its kind; after every GETSTATUS the host sleeps bwPollTimeout of that '
                 'reply; typestate over every path: no download-class request while the previous one has not been polled out of dfuDNBUSY '
                 '(a path constraint on the state byte of the latest reply that is false for dfuDNBUSY); erase loop completes before the '
                 'write loop over the same range; erase / set-address addresses normalise to 0x08000000 + page*S where S is the size of the '
                 'chunk written, and the chunk is the slice at page*S; padding identity len = q*S + r => length of the sliced buffer = '
                 'pages*S with zero bytes only, pages = q (+1 when r != 0), the padded buffer is the content of the file; size guard with capacity S*C '
                 'precedes the first request; GD32 variant table.  Whatever is not read (a request field that does not fold, a loop or a '
                 'test the rules cannot follow, a residue over terms that are not understood) ends without verdict, never in a finding.')
    rep.trusted_base = ['CPython ast', 'bbverif.pathwalk / poly', 'DFU 1.1 and DfuSe numbers (oracle)']
    rep.not_decided = ['that the *device* ends up holding those bytes under all busy/error schedules (needs a device model and schedule exploration)',
                       'len <= S*C  =>  ceil(len/S) <= C is arithmetic, stated, not checked']
    fn, paths = D.main_paths(facts)
    rep.count('paths through cli_main', len(paths))
    consts = D.module_consts(facts)
    models = [D.PathModel(p, consts) for p in paths]
    check_constants(rep, facts)
    check_requests(rep, facts, models)
    check_poll(rep, facts, models)
    check_typestate(rep, facts, models)
    check_layout(rep, facts, fn, models)
    rep.floor('paths through cli_main', 20)
    rep.floor('request forms classified', 5)
    rep.floor('polling loops', 1)
    rep.floor('settle points', 3)
    rep.floor('padding cases', 2)
    rep.floor('requests on paths', 10)
    rep.floor('poll sites', 1)
    return rep
