#!/venv/bin/python
"""Regenerate /verif/MANIFEST.json from the table below (single source of truth for claims)."""
import json
import os

ROOT = os.path.dirname(os.path.dirname(os.path.abspath(__file__)))

CLAIMS = {
    'C01': dict(
        category='proof', design='DESIGN.md §4 C01, §3.2',
        technique='bit-provenance abstract interpretation of the encoders (ast) vs. ISA oracle table; token-provenance dataflow over parse_item',
        text='For each of the 66 32-bit mnemonic bindings the exact operand-tuple -> word function is derived for all operand values at once '
             'by a sound abstract interpretation of the encoder source and compared bit for bit with a table written from the ISA manual; '
             'injectivity is decided on the derived accepted sets; the text front end is followed token -> field -> encoder parameter. '
             'A universally quantified statement over 2^12..2^20 immediates x 32^3 registers needs a proof-style argument, not samples.',
        note='Trusted: CPython ast; the transfer functions of bbverif/bitdom.py; the oracle table (bbverif/oracle.py); Python eval/int mapping a literal '
             'token to the integer it spells. Constructs outside the abstract domain end the run with ANALYSIS-ERROR (exit 2), never a pass.'),
    'C02': dict(
        category='proof', design='DESIGN.md §4 C02, §3.2',
        technique='bit-provenance abstract interpretation of the c.* encoders and constraint closures vs. RVC oracle table; exhaustive reverse walk of all 65 536 halfwords over the derived closed forms',
        text='Forward: for the 27 compressed bindings the derived layout, constant bits and legal operand sets equal the RVC table for all operand values. '
             'Reverse: the images of the derived closed forms are compared over all 65 536 halfwords with an independent RV32C decoder written from the ISA listing, '
             'so accepted operand tuples and legal non-hint encodings correspond one-to-one. The quantifier is finite but far beyond what tests pin; the derivation is symbolic in every operand bit.',
        note='Trusted: CPython ast; bbverif/bitdom.py transfer functions; the RVC table and rvc_decode in bbverif/oracle.py. The repository is never executed: the images enumerated are those of the analysis\' own closed forms.'),
    'C06': dict(
        category='proof', design='DESIGN.md §4 C06, §3.2',
        technique='partitioned interval x congruence abstract interpretation of every encoder guard; accepted set == legal set per operand; mask-after-guard dominance rule',
        text='For every operand of the 93 bindings the accepted set (intervals, congruences, alias windows, constraint closures) is derived from the guards on every path and compared, both inclusions, '
             'with the legal set from the ISA tables; every mask of an operand-derived value must be dominated by a range guard that fits the masked width; the evaluated immediate reaches the encoder untransformed, and a compression rule that drops an immediate pins it to the one value the compressed form stands for (the encoder never sees it). Off-by-one bounds, dropped scale checks and wrapped operands are decided for all values.',
        note='Trusted: CPython ast; bbverif/bitdom.py; operand ranges in bbverif/oracle.py (jalr uses the documented, stricter even-offset set). A guard placed on already-extracted bits is over-approximated and then reported or refused (exit 2), never passed.'),
    'C07': dict(
        category='proof', design='DESIGN.md §4 C07, §3.2',
        technique='abstract interpretation of sign_extend/relocate_hi/relocate_lo over linear forms in the bits of an unbounded two\'s-complement input; coefficient identities modulo 2^12/2^20/2^32',
        text='relocate_lo and relocate_hi are reduced to closed forms over the bits of an arbitrary integer v (exact linear form / signed residue); lo == v (mod 2^12), hi == (v>>12)+v[11] (mod 2^20) and (hi<<12)+lo == v (mod 2^32) '
             'are then identities between coefficients, hence hold for all 2^32 values and every negative or >2^31 spelling; ranges are compared with the accepted sets derived for lui/auipc and all I/S-type consumers; Hi/Lo.eval and parse_immediate are followed by def-use; both halves of a pair are taken of the same value: evaluated at the item\'s own final offset against the final tables, relative to the auipc at every site, nothing added after the split, the stored operand being the value evaluated on that very path.',
        note='Trusted: CPython ast; the linear-form arithmetic of bbverif/relocdom.py; accepted sets from bbverif/bitdom.py. The pairing of the two halves emitted by the pseudo-instruction pass is decided under C03/C05.'),
    'C03': dict(
        category='other', design='DESIGN.md §4 "The layout invariant", C03',
        technique='inductive layout invariant discharged per path by symbolic path enumeration of each pass (ast); size algebra; def-use rules R-lo-width / R-auipc; encoder summaries for pc-relative immediates',
        text='labels[l] == sum of size() of the items before l is established by resolve_labels and preserved by every later pass on every path of one loop iteration (bytes in = bytes out + shift of exactly the labels after the item start), '
             'on both arms of -c; final immediates are evaluated from the item\'s own final offset with %offset = label - position; %lo consumers are guarded or paired with %hi; the auipc/jalr pair is evaluated relative to the auipc at every site. '
             'The argument is per path, so it covers every program and layout at once; it is not a machine-checked proof, hence "other".',
        note='Not decided: whether a near/far, li or compression decision taken on pessimistic label values is still valid after labels moved (value-dependent). Trusted: CPython ast, bbverif pathwalk/layout/bitdom, oracle tables.'),
    'C08': dict(
        category='other', design='DESIGN.md §4 C08',
        technique='pass-order effect analysis (MUT/BAKE/PEEK) over the pipeline read from assemble; normal forms of Offset/Position evaluation (linear forms); kind dataflow for expression-carrying fields',
        text='Every pass is classified by what it does with label-dependent evaluations; on both arms of compress the only baking pass is ordered after the last label-moving pass and evaluates at the item\'s own final offset against ChainMap(constants, labels); '
             'early evaluations flow only into comparisons; all expression-carrying fields are the one the baking site reads. Together with the layout invariant this fixes, for all placements, which offsets the encoded values are computed from.',
        note='Not decided: staleness of early (PEEK) decisions. Trusted: CPython ast, bbverif pathwalk.'),
    'C09': dict(
        category='other', design='DESIGN.md §4 C09',
        technique='per-path byte accounting of every pass (symbolic path enumeration + size algebra), append-only/in-order rule, class-flow exhaustiveness, linear-modular normal form of Align.resolution_size',
        text='For every path through one iteration of every pass: bytes contributed by the consumed item == bytes of the appended items + label shift, appended in iteration order only; class flow shows each item kind has exactly one handler and only Blob reaches the concatenation; '
             'resolution_size normalises over p = qN + r to 0 / N - r and is emitted as that many zero bytes at the item-start offset; assemble threads the list from pass to pass and never changes it in place between passes. This decides the concatenation/align statement for all item sequences and all N at all residues.',
        note='Trusted: CPython ast, struct standard sizes (oracle), bbverif pathwalk/layout/alignform. An align expression outside the linear-modular fragment yields exit 2, not a violation.'),
    'C04': dict(
        category='other', design='DESIGN.md §4 "The compression relation", C04',
        technique='compression relation lifted from the AST (predicate factories -> formula templates, construction provenance) composed with the C02 encoder closed forms and the RVC decode/expansion oracle; exhaustive walk of the lifted regions',
        text='For each of the criteria rules and every operand tuple on which it is the first to fire, the halfword given by the derived encoder closed form is decoded and expanded by an independent RVC oracle and must have the architectural effect of the replaced instruction; '
             'regions lie inside the encoders\' accepted sets; replacing paths shift later labels by exactly 2; every c.* encoder re-validates what it masks; auipc pairs are evaluated consistently; round order. All literal operand values and register choices are covered, not sampled.',
        note='Rules that drop the immediate must test it label-independently (R4.8, found defect F11); rules that keep it are covered by C12 R12.7. The walk enumerates the analysis\' own lifted formulas and closed forms; no repository code is executed. Trusted: CPython ast, bbverif comprel/predlift/bitdom/pathwalk, RVC oracle.'),
    'C12': dict(
        category='other', design='DESIGN.md §4 C12',
        technique='region-within-accepted-set on the lifted compression relation; stability of every compression decision (label-free immediate or jump/branch target) on the lifted formulas; str|int|Expr kind dataflow of constructor arguments; totality of predicates on item classes',
        text='Decides the operand-independent ways -c can turn success into failure: a rule that manufactures an instruction its encoder refuses, a register-kinded field re-interpreted as an expression (wrong representation or environment), a predicate or construction reading a field its item class lacks, a criteria key without construction arm.',
        note='Label motion after a compression decision is decided structurally (R12.7, found defect F12): a rule may look at an immediate only if it is label-free or the label target of a jump / branch; that such targets only move closer rests on the monotone-size rule of C20. Trusted: CPython ast, bbverif comprel/predlift/bitdom.'),
    'C20': dict(
        category='other', design='DESIGN.md §4 C20',
        technique='completeness of the lifted compression relation against the RVC oracle (exhaustive over legal operand tuples); per-path monotone-size rule; pipeline order',
        text='Every 32-bit instruction equal to the expansion of a legal non-hint RV32C instruction (all register choices x all legal immediates, both spellings of lui) satisfies some criteria rule; on every path of every pass emitted bytes <= consumed bytes and label shifts >= 0; a compression round follows pseudo expansion.',
        note='Not decided: "never longer" for whole programs with align needs monotonicity of rounding up (outside the code). Trusted: CPython ast, bbverif comprel/pathwalk, RVC oracle.'),
    'C05': dict(
        category='other', design='DESIGN.md §4 C05',
        technique='expansion templates from symbolic path summaries of the pseudo pass vs. ISA pseudo-instruction table and the parsed documentation table; %hi/%lo pairing and guard-width rules',
        text='For each of the 27 pseudo-instructions the expansion template (base mnemonic, constant registers/immediates, which pseudo operand feeds which field) is derived from the code on every path and compared with the standard table and with docs/instruction_reference.rst; '
             'li/call/tail: guard width vs. consumer, %hi/%lo of the same expression with chained registers, documented link/scratch registers, full offset in the near form. With C01 and C07 the documented effect follows for all operands and values.',
        note='Not decided: execution of the emitted code against an independent ISA semantics. Trusted: CPython ast, bbverif pathwalk, ISA pseudo table; verdicts of C01/C07 for the base instructions.'),
    'C18': dict(
        category='other', design='DESIGN.md §4 C18',
        technique='typestate and ordering rules over the ctrl_transfer events of the fully inlined, symbolically enumerated paths of dfu.cli_main (helper- and name-independent); protocol constants vs. DFU 1.1/DfuSe oracle; polynomial normal forms for addresses, slices and the padding identity',
        text='dfu.py has no tests at all. Decided statically: request numbers, DfuSe command bytes and payload formats; the GETSTATUS helper waits bwPollTimeout and returns (status, state); on every path no download-class request is issued while the previous one has not been polled out of dfuDNBUSY; '
             'erase loop before write loop over the same page range; addresses = 0x08000000 + page*page_size and chunk = slice at the same offset; len = q*S + r => padded length = pages*S with zeros only; size guard before the first request; GD32 variant table.',
        note='Not decided: that the device ends up holding those bytes under all busy/error schedules (needs a device model; model-checking family). Trusted: CPython ast, bbverif pathwalk/poly, DFU/DfuSe numbers in the oracle.'),
    'C19': dict(
        category='other', design='DESIGN.md §4 C19',
        technique='dominance of the normalised size guard over every request on all paths; checked-then-ignored (stated belief) rule on the status tests; def-use presence of a status test after every erase/data request',
        text='The size guard, normalised as len(firmware) - page_size*page_count > 0 -> SystemExit, precedes every DNLOAD/CLRSTATUS request on every path; wherever the polled status is compared with STATUS_OK the bad edge must leave through a non-zero, non-empty exit and send nothing more; '
             'every erase and data request has its polled status tested before the next request or the end.',
        note='Not decided: device errors that surface only as USB stalls; errors during SET_ADDRESS. Trusted: CPython ast, bbverif pathwalk/poly.'),
    'C17': dict(
        category='other', design='DESIGN.md §4 C17',
        technique='side-effect ordering over the typed event stream (add_argument, parse_args, assemble, open, write, bin2hex, raise, try/except) of the fully inlined paths of asm.cli_main; option roles resolved through the add_argument events; label-line templates',
        text='On every path through cli_main no failing exit is reachable after a file has been opened for writing and assemble() precedes every write (no-clobber); the -o handle is binary and receives exactly the value returned by assemble once; '
             'the -l lines come from items() of the very dict passed as labels=; bin2hex runs after the binary is closed with int(hex_offset, 0); AssemblerError becomes a failing SystemExit and no handler swallows an error; -c/-i wiring.',
        note='Not decided: OS-level write failures between the files; correctness of intelhex.bin2hex. Trusted: CPython ast, bbverif pathwalk.'),
    'C15': dict(
        category='other', design='DESIGN.md §4 C15',
        technique='abstract interpretation of assemble() over the syntax tree (bbverif/absint.py: classes / callables a value may be, exceptions in flight and the handlers they cross, provenance tags of Line-carrying objects, user text vs program text) to a fixed point for compress False / True',
        text='Every explicit raise of a non-assembler exception and every struct/int() call fed with user data reachable from assemble() is followed along all call chains; each chain must cross a handler that converts it into AssemblerError(message, Line). '
             'Internal-invariant raises are discharged by class-flow / dispatch exhaustiveness; a lookup dominated by the matched rule\'s own predicates is discharged through the lifted relation. Every AssemblerError carries a Line; every item the parser or a pass builds carries the line of its source; Lines are created per physical line with the reading file\'s path and a 1-based number.',
        note='Not decided: exceptions Python raises implicitly on malformed arity/syntax (listed as escape candidates); duplicate labels are never refused. Anything the interpreter does not model (unknown callee, lost line provenance, hand-kept line counters) ends with exit 2, never a finding. Trusted: CPython ast, transfer functions of bbverif/absint.py.'),
    'C16': dict(
        category='other', design='DESIGN.md §4 C16',
        technique='purity / determinism effect analysis over everything reachable from assemble() in a repository-specific call graph; positive fixture keeps zero-instance rules alive',
        text='For the ~160 functions reachable from assemble(): no writes to module-level state at call time (stores, mutating methods, aliases, ChainMap first position), no mutable defaults / memo decorators / function attributes, no iteration or materialisation of set-kinded values (set algebra on dict views included), '
             'no ambient inputs (time, random, id, hash, environment, unsorted listings; cwd only on the source-string branch), eval with pinned builtins. These are exactly the mechanisms by which a result could depend on earlier calls, call order or the hash seed; absence is a property of the code shape, for all interleavings.',
        note='Trusted: CPython ast; call resolution of bbverif/callgraph.py; determinism of CPython and struct. A fixture with one instance of every rule must fire on each run, otherwise the run ends with ANALYSIS-ERROR.'),
    'C10': dict(
        category='other', design='DESIGN.md §4 C10',
        technique='table agreement (docs grids, size() tables, struct format letters, reference widths); per-path format/sign rule and no-narrowing def-use; codec round-trip rule; path-provenance kinds for include_bytes',
        text='Documented widths == size() == struct size of the format letter == reference for all nine keywords; on every path the format is "<" + the letter, lower-cased exactly when the tested value is negative, and that same value reaches struct.pack untouched (a mask there would be silent truncation); '
             'pack passes format and value through; strings are emitted/measured as UTF-8 and escape processing must use a codec whose round trip through unicode_escape is the identity; include_bytes size and content both use the path the include search returned.',
        note='Trusted: struct refuses out-of-range values for standard sizes (library contract); Latin-1 contract of unicode_escape; CPython ast; bbverif pathwalk/prov.'),
    'C14': dict(
        category='other', design='DESIGN.md §4 C14',
        technique='cwd-sensitivity effect analysis: provenance kinds (Resolved / Dir / AdjDir / CwdDir / UserGiven / CliArgs / RawToken / Literal) solved as one fixed point over parameters, returns, attributes, closures and generators for every filesystem argument reachable from assemble(); splice rule on what each line contributes; CLI absoluteness rule',
        text='Only paths produced by the include search or given by the caller reach open/exists/getsize; os.getcwd() only on the source-string branch; the recursive read passes the resolved path, include=True and unchanged include_dirs; the directory of the including file is searched at every depth; '
             'included lines are spliced at the include line by extend, others appended once in order; the CLI makes input and -i directories absolute. Independence from the working directory is a property of which values can flow to filesystem calls, for all include trees.',
        note='Not decided: equality of the resulting binaries (follows from splice order and C16 purity, not re-proved); which directory wins for duplicate names. Trusted: CPython ast, kind rules of bbverif/prov.py.'),
    'C11': dict(
        category='other', design='DESIGN.md §4 C11',
        technique='must-pass-through of the exact-int test on all return paths of Arithmetic.eval; sequential-evaluation and alias-substitution rules from path summaries; register-kinded fields derived from encoder summaries; str|int|Expr kind dataflow',
        text='Decided in part: every evaluated result is returned only after type(result) == int (or is ord of a character literal) with builtins pinned off; constants are evaluated in order over the constants so far and stored under their own name, shadowing refused; '
             'aliases are resolved before every consumer, in exactly the register-kinded fields, by a positional rebuild; a register field moved into an immediate under -c keeps representation and environment; constants inside %hi/%lo/%position reach the same evaluator; no compression rule asks whether an operand is spelled as a literal.',
        note='Not decided: the arithmetic itself (delegated to Python eval; trusted) and what the regex tokenizer does to quotes, #, commas and parentheses inside a token (character literals) - value semantics of library string processing on particular inputs.'),
    'C13': dict(
        category='other', design='DESIGN.md §4 C13',
        technique='table check of REGISTERS vs. ABI names; token-provenance dataflow for imm(reg) vs reg, imm; abstract values of the line text followed through re.sub / compiled patterns / partition / strip / split / comprehensions to the token list (regex ASTs via re._parser); numbering and hand-over rules; numeric-literal test vs int(., 0)',
        text='Decided in part: all documented register spellings map to the architectural number; both base+offset spellings reach the same constructor parameters by role for every load/store/jalr; the separator pattern consumes exactly runs of whitespace and commas; the comment pattern is removed first and the text stripped before splitting; '
             'blank lines are skipped without disturbing numbering.',
        note='Not decided: equality of whole binaries under arbitrary combinations of rewrites (interaction of string/error lexing with indentation and comments; integer forms only eval or only int(., 0) accepts). A lexer rewritten beyond the def-use rules yields ANALYSIS-ERROR, not a violation.'),
}

NOT_YET = 'check not built yet (framework under construction)'


def main():
    ids = [json.loads(l)['id'] for l in open(os.path.join(ROOT, 'properties.jsonl'))]
    checks = []
    na = []
    for i in ids:
        c = CLAIMS.get(i)
        if c is None:
            na.append({'property_id': i, 'reason': NOT_YET})
            continue
        if c.get('not_applicable'):
            na.append({'property_id': i, 'reason': c['not_applicable']})
            continue
        checks.append({
            'property_id': i,
            'quick_cmd': '/venv/bin/python bbverif/check.py {} --tier quick'.format(i),
            'thorough_cmd': '/venv/bin/python bbverif/check.py {} --tier thorough'.format(i),
            'evidence_file': 'evidence/{}.json'.format(i),
            'replay_cmd_template': '/venv/bin/python bbverif/check.py {} --explain {{path}}'.format(i),
            'engine': 'bbverif',
            'level_claimed': {'category': c['category'], 'text': c['text'], 'design_ref': c['design']},
            'level_note': c['note'],
            'technique': c['technique'],
        })
    m = {
        'version': 1,
        'setup_cmd': '/venv/bin/python -m compileall -q bbverif',
        'hooks': {
            'guard': 'BRONZEBEARD_VERIF',
            'enable': 'no hooks: every check parses /repo sources with ast; nothing in /repo is instrumented or executed',
            'baseline_off_cmd': 'cd /repo && /venv/bin/python -m pytest -q -p no:cacheprovider --timeout=900',
            'source_commits': [],
            'add_only': True,
        },
        'engines': [{
            'name': 'bbverif', 'path': 'bbverif/check.py', 'serves_properties': [c['property_id'] for c in checks],
            'kind_free_text': 'repository-specific static analysers over the Python ast: bit-provenance abstract interpreter, '
                              'token/kind dataflow, statement CFG with ordering/dominance/typestate rules, table agreement vs. oracle tables',
        }],
        'checks': checks,
        'not_applicable': na,
        'notes': 'Static analysis only: no check imports, runs or symbolically executes bronzebeard. Exit 2 + ANALYSIS-ERROR means no verdict.',
    }
    with open(os.path.join(ROOT, 'MANIFEST.json'), 'w') as f:
        json.dump(m, f, indent=1)
    print('checks:', len(checks), 'not_applicable:', len(na))


if __name__ == '__main__':
    main()
