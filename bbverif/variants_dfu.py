"""Self-test variants for the DFU rules (dfurules / props c18, c19): behaviour-preserving edits of bronzebeard/dfu.py found by the
white-box audit of round 7 (each was compared with the original by a differential harness: stub usb modules, a scripted device,
every ctrl_transfer / sleep / exit recorded over 182 scenarios), each with a breaking twin - the same construct with the property
actually broken - so that the rule provably still fires.  Same format as variants.py, merged into its lists at import time.
Generated from the audit's edit list; edit here by hand from now on."""

D = 'bronzebeard/dfu.py'

PRESERVING = [
    # state numbers bound by one `(A, B, ..) = range(11)`, unused protocol constants deleted
    ('p7-dfu-e1', ['C18', 'C19'], [(D, 'STATE_APP_IDLE = 0\nSTATE_APP_DETACH = 1\nSTATE_DFU_IDLE = 2\nSTATE_DFU_DNLOAD_SYNC = 3\nSTATE_DFU_DNBUSY = 4\nSTATE_DFU_DNLOAD_IDLE = 5\nSTATE_DFU_MANIFEST_SYNC = 6\nSTATE_DFU_MANIFEST = 7\nSTATE_DFU_MANIFEST_WAIT_RESET = 8\nSTATE_DFU_UPLOAD_IDLE = 9\nSTATE_DFU_ERROR = 10\n', '(STATE_APP_IDLE, STATE_APP_DETACH, STATE_DFU_IDLE, STATE_DFU_DNLOAD_SYNC, STATE_DFU_DNBUSY, STATE_DFU_DNLOAD_IDLE,\n STATE_DFU_MANIFEST_SYNC, STATE_DFU_MANIFEST, STATE_DFU_MANIFEST_WAIT_RESET, STATE_DFU_UPLOAD_IDLE, STATE_DFU_ERROR) = range(11)\n'),
        (D, 'DFUSE_CMD_MASS_ERASE = 0x41  # len = 1\nDFUSE_CMD_READ_UNPROTECT = 0x92  # len = 1\n', ''),
        (D, 'REQUEST_DFU_DETACH = 0\n', '# 0 = DFU_DETACH (not used)\n'),
        (D, 'REQUEST_DFU_UPLOAD = 2\n', ''),
        (D, 'REQUEST_DFU_GETSTATE = 5\nREQUEST_DFU_ABORT = 6\n', '')]),
    # GETSTATUS length from struct.calcsize of a named format
    ('p7-dfu-e2', ['C18', 'C19'], [(D, 'def dfu_get_status(device):', "GETSTATUS_FORMAT = '<BBBBBB'\n\n\ndef dfu_get_status(device):"),
        (D, '        data_or_wLength=6,\n', '        data_or_wLength=struct.calcsize(GETSTATUS_FORMAT),\n'),
        (D, '    assert len(response) == 6\n', '    assert len(response) == struct.calcsize(GETSTATUS_FORMAT)\n'),
        (D, "struct.unpack('<BBBBBB', response)", 'struct.unpack(GETSTATUS_FORMAT, response)')]),
    # DfuSe command payload as bytes([cmd]) + address.to_bytes(4, "little")
    ('p7-dfu-e3', ['C18', 'C19'], [(D, "    request = struct.pack('<BI', DFUSE_CMD_ERASE_PAGE, address)", "    request = bytes([DFUSE_CMD_ERASE_PAGE]) + address.to_bytes(4, 'little')"),
        (D, "    request = struct.pack('<BI', DFUSE_CMD_SET_ADDRESS, address)", "    request = bytes([DFUSE_CMD_SET_ADDRESS]) + address.to_bytes(4, 'little')")]),
    # precompiled struct.Struct('<BL') packs the DfuSe commands
    ('p7-dfu-e4', ['C18', 'C19'], [(D, 'def dfuse_erase_page(device, address):', "DFUSE_ADDRESS_COMMAND = struct.Struct('<BL')\n\n\ndef dfuse_erase_page(device, address):"),
        (D, "    request = struct.pack('<BI', DFUSE_CMD_ERASE_PAGE, address)", '    request = DFUSE_ADDRESS_COMMAND.pack(DFUSE_CMD_ERASE_PAGE, address)'),
        (D, "    request = struct.pack('<BI', DFUSE_CMD_SET_ADDRESS, address)", '    request = DFUSE_ADDRESS_COMMAND.pack(DFUSE_CMD_SET_ADDRESS, address)')]),
    # the reply is converted with bytes(..) before it is unpacked
    ('p7-dfu-e5', ['C18', 'C19'], [(D, '    response = device.ctrl_transfer(\n        USB_ENDPOINT_IN | USB_REQUEST_TYPE_CLASS | USB_RECIPIENT_INTERFACE,\n        REQUEST_DFU_GETSTATUS,\n        data_or_wLength=6,\n        timeout=1000)\n', '    response = bytes(device.ctrl_transfer(\n        USB_ENDPOINT_IN | USB_REQUEST_TYPE_CLASS | USB_RECIPIENT_INTERFACE,\n        REQUEST_DFU_GETSTATUS,\n        data_or_wLength=6,\n        timeout=1000))\n')]),
    # no sleep when the device asks for a delay of zero (`if poll_timeout > 0`): the walk does not fork on it
    ('p7-dfu-e6', ['C18', 'C19'], [(D, '    time.sleep(poll_timeout)\n', '    if poll_timeout > 0:\n        time.sleep(poll_timeout)\n')]),
    # a busy flag drives the polling loops
    ('p7-dfu-e7', ['C18', 'C19'], [(D, '        status, state = dfu_get_status(dev)\n        while state == STATE_DFU_DNBUSY:\n            status, state = dfu_get_status(dev)\n', '        status, state = dfu_get_status(dev)\n        busy = state == STATE_DFU_DNBUSY\n        while busy:\n            status, state = dfu_get_status(dev)\n            busy = state == STATE_DFU_DNBUSY\n', 'all')]),
    # busy / settled states as module-level sets
    ('p7-dfu-e8', ['C18', 'C19'], [(D, 'USB_ENDPOINT_OUT = 0b00000000', 'BUSY_STATES = frozenset([STATE_DFU_DNBUSY])\nWRITE_SETTLED_STATES = {STATE_DFU_DNLOAD_IDLE, STATE_DFU_ERROR}\n\nUSB_ENDPOINT_OUT = 0b00000000'),
        (D, '        while state == STATE_DFU_DNBUSY:\n', '        while state in BUSY_STATES:\n', 'all'),
        (D, '        while state not in [STATE_DFU_DNLOAD_IDLE, STATE_DFU_ERROR]:\n', '        while state not in WRITE_SETTLED_STATES:\n')]),
    # page addresses precomputed in a list comprehension; erase loop over it, write loop over enumerate(it)
    ('p7-dfu-e10', ['C18', 'C19'], [(D, '    # erase flash\n    for page in range(pages):\n        start = 0x08000000\n        addr = start + (page * page_size)\n', '    page_addresses = [0x08000000 + (page * page_size) for page in range(pages)]\n\n    # erase flash\n    for addr in page_addresses:\n'),
        (D, '    for page in range(pages):\n        addr_start = 0x08000000\n        addr = addr_start + (page * page_size)\n', '    for page, addr in enumerate(page_addresses):\n')]),
    # write loop over range(0, len(firmware), page_size)
    ('p7-dfu-e11', ['C18', 'C19'], [(D, '    for page in range(pages):\n        addr_start = 0x08000000\n        addr = addr_start + (page * page_size)\n        code_start = page * page_size\n        code_end = code_start + page_size\n        code = firmware[code_start:code_end]\n', '    for offset in range(0, len(firmware), page_size):\n        addr = 0x08000000 + offset\n        code = firmware[offset:offset + page_size]\n')]),
    # `if rem > 0` and a named pad byte
    ('p7-dfu-e12', ['C18', 'C19'], [(D, '    if rem != 0:\n', '    if rem > 0:\n'),
        (D, "            firmware += b'\\x00'\n", '            firmware += PAD_BYTE\n'),
        (D, 'USB_ENDPOINT_OUT = 0b00000000', "PAD_BYTE = b'\\x00'\n\nUSB_ENDPOINT_OUT = 0b00000000")]),
    # padding length by the negative-modulo idiom
    ('p7-dfu-e13', ['C18', 'C19'], [(D, "        for _ in range(page_size - rem):\n            firmware += b'\\x00'\n", '        firmware += bytes(-len(firmware) % page_size)\n')]),
    # // and % instead of divmod
    ('p7-dfu-e14', ['C18', 'C19'], [(D, '    pages, rem = divmod(len(firmware), page_size)\n', '    pages = len(firmware) // page_size\n    rem = len(firmware) % page_size\n')]),
    # the image is read into a bytearray
    ('p7-dfu-e15', ['C18', 'C19'], [(D, '        firmware = f.read()\n', '        firmware = bytearray(f.read())\n')]),
    # chunks are slices of a memoryview of the padded image
    ('p7-dfu-e16', ['C18', 'C19'], [(D, '    print()\n\n    # write flash\n', '    print()\n\n    image = memoryview(firmware)\n\n    # write flash\n'),
        (D, '        code = firmware[code_start:code_end]\n', '        code = image[code_start:code_end]\n')]),
    # table of flash sizes in bytes per serial letter; page count derived; guard against the size
    ('p7-dfu-e17', ['C18', 'C19'], [(D, 'USB_ENDPOINT_OUT = 0b00000000', "# GD32 flash size in bytes, keyed by the third character of the serial number\nGD32_FLASH_SIZES = {'B': 128 * 1024, '8': 64 * 1024, '6': 32 * 1024, '4': 16 * 1024}\n\nUSB_ENDPOINT_OUT = 0b00000000"),
        (D, "        if sn[2] == 'B':\n            page_count = 128\n        elif sn[2] == '8':\n            page_count = 64\n        elif sn[2] == '6':\n            page_count = 32\n        elif sn[2] == '4':\n            page_count = 16\n        else:\n            raise SystemExit('invalid serial number for a GD32 device: {}'.format(sn))\n", "        if sn[2] not in GD32_FLASH_SIZES:\n            raise SystemExit('invalid serial number for a GD32 device: {}'.format(sn))\n        flash_size = GD32_FLASH_SIZES[sn[2]]\n        page_count = flash_size // page_size\n"),
        (D, '    if len(firmware) > (page_size * page_count):\n', '    if len(firmware) > flash_size:\n')]),
    # flash size in KiB per serial letter, page count computed
    ('p7-dfu-e18', ['C18', 'C19'], [(D, '            page_count = 128\n', '            flash_kib = 128\n'),
        (D, '            page_count = 64\n', '            flash_kib = 64\n'),
        (D, '            page_count = 32\n', '            flash_kib = 32\n'),
        (D, '            page_count = 16\n', '            flash_kib = 16\n'),
        (D, "            raise SystemExit('invalid serial number for a GD32 device: {}'.format(sn))\n", "            raise SystemExit('invalid serial number for a GD32 device: {}'.format(sn))\n        page_count = flash_kib * 1024 // page_size\n")]),
    # die(message) helper: print to stderr and sys.exit(1)
    ('p7-dfu-e19', ['C18', 'C19'], [(D, 'def cli_main():', 'def die(message):\n    print(message, file=sys.stderr)\n    sys.exit(1)\n\n\ndef cli_main():'),
        (D, "        raise SystemExit('Firmware file is too large for device')\n", "        die('Firmware file is too large for device')\n"),
        (D, "            raise SystemExit('error erasing page: {}'.format(STATUS_DESCRIPTION[status]))\n", "            die('error erasing page: {}'.format(STATUS_DESCRIPTION[status]))\n"),
        (D, "            raise SystemExit('error writing page: {}'.format(STATUS_DESCRIPTION[status]))\n", "            die('error writing page: {}'.format(STATUS_DESCRIPTION[status]))\n")]),
    # status compared by order (`status > STATUS_OK`, `status >= STATUS_ERR_TARGET`)
    ('p7-dfu-e20', ['C18', 'C19'], [(D, "        if status != STATUS_OK:\n            print()\n            raise SystemExit('error erasing", "        if status > STATUS_OK:\n            print()\n            raise SystemExit('error erasing"),
        (D, "        if status != STATUS_OK:\n            print()\n            raise SystemExit('error writing", "        if status >= STATUS_ERR_TARGET:\n            print()\n            raise SystemExit('error writing")]),
    # erase failure remembered, loop left by break, raised after the loop
    ('p7-dfu-e21', ['C18', 'C19'], [(D, "        if status != STATUS_OK:\n            print()\n            raise SystemExit('error erasing page: {}'.format(STATUS_DESCRIPTION[status]))\n\n    print()\n", "        if status != STATUS_OK:\n            failure = 'error erasing page: {}'.format(STATUS_DESCRIPTION[status])\n            break\n\n    print()\n    if failure is not None:\n        raise SystemExit(failure)\n"),
        (D, '    # erase flash\n', '    failure = None\n\n    # erase flash\n')]),
    # dfu_get_status returns a NamedTuple
    ('p7-dfu-e22', ['C18', 'C19'], [(D, 'import usb.core\n', 'import typing\n\nimport usb.core\n'),
        (D, 'def dfu_get_status(device):', 'class DfuStatus(typing.NamedTuple):\n    status: int\n    poll_timeout: float\n    state: int\n\n\ndef dfu_get_status(device):'),
        (D, '    return status, state\n', '    return DfuStatus(status, poll_timeout, state)\n'),
        (D, "        status, state = dfu_get_status(dev)\n        while state == STATE_DFU_DNBUSY:\n            status, state = dfu_get_status(dev)\n\n        if status != STATUS_OK:\n            print()\n            raise SystemExit('error erasing page: {}'.format(STATUS_DESCRIPTION[status]))", "        reply = dfu_get_status(dev)\n        while reply.state == STATE_DFU_DNBUSY:\n            reply = dfu_get_status(dev)\n\n        if reply.status != STATUS_OK:\n            print()\n            raise SystemExit('error erasing page: {}'.format(STATUS_DESCRIPTION[reply.status]))"),
        (D, 'status, state = dfu_get_status(dev)', 'status, _, state = dfu_get_status(dev)', 'all')]),
    # pathlib read_bytes; the guard through a boolean
    ('p7-dfu-e23', ['C18', 'C19'], [(D, 'import os\n', 'import os\nimport pathlib\n'),
        (D, "    with open(args.binary_file, 'rb') as f:\n        firmware = f.read()\n", '    firmware = pathlib.Path(args.binary_file).read_bytes()\n'),
        (D, '    if len(firmware) > (page_size * page_count):\n', '    flash_size = page_size * page_count\n    too_large = len(firmware) > flash_size\n    if too_large:\n')]),
    # poll delay as struct.unpack('<I', bytes(response[1:4]) + b'\x00')
    ('p7-dfu-e24', ['C18', 'C19'], [(D, "    status, pt0, pt1, pt2, state, desc = struct.unpack('<BBBBBB', response)\n    poll_timeout = pt2 << 16 | pt1 << 8 | pt0  # rebuild timeout from 3 bytes (little-endian)\n", "    status, state = response[0], response[4]\n    poll_timeout, = struct.unpack('<I', bytes(response[1:4]) + b'\\x00')\n")]),
    # padding with ljust up to pages * page_size
    ('p7-dfu-f2', ['C18', 'C19'], [(D, "        for _ in range(page_size - rem):\n            firmware += b'\\x00'\n", "        firmware = firmware.ljust(pages * page_size, b'\\x00')\n")]),
    # write loop over enumerate(range(0, len(firmware), page_size))
    ('p7-dfu-f3', ['C18', 'C19'], [(D, '    for page in range(pages):\n        addr_start = 0x08000000\n        addr = addr_start + (page * page_size)\n        code_start = page * page_size\n        code_end = code_start + page_size\n        code = firmware[code_start:code_end]\n', '    for page, code_start in enumerate(range(0, len(firmware), page_size)):\n        addr_start = 0x08000000\n        addr = addr_start + (page * page_size)\n        code = firmware[code_start:code_start + page_size]\n')]),
    # GETSTATUS reply parsed by a precompiled Struct('<B3sBB') and int.from_bytes
    ('p7-dfu-f4', ['C18', 'C19'], [(D, 'def dfu_get_status(device):', "GETSTATUS_REPLY = struct.Struct('<B3sBB')\n\n\ndef dfu_get_status(device):"),
        (D, '        data_or_wLength=6,\n', '        data_or_wLength=GETSTATUS_REPLY.size,\n'),
        (D, '    assert len(response) == 6\n', '    assert len(response) == GETSTATUS_REPLY.size\n'),
        (D, "    status, pt0, pt1, pt2, state, desc = struct.unpack('<BBBBBB', response)\n    poll_timeout = pt2 << 16 | pt1 << 8 | pt0  # rebuild timeout from 3 bytes (little-endian)\n", "    status, poll_bytes, state, desc = GETSTATUS_REPLY.unpack(response)\n    poll_timeout = int.from_bytes(poll_bytes, byteorder='little')\n")]),
    # dfu_get_status returns a dict, a poll() helper picks status and state
    ('p7-dfu-f5', ['C18', 'C19'], [(D, '    return status, state\n', "    return {'status': status, 'state': state, 'poll_timeout': poll_timeout}\n"),
        (D, 'def cli_main():', "def poll(device):\n    reply = dfu_get_status(device)\n    return reply['status'], reply['state']\n\n\ndef cli_main():"),
        (D, 'status, state = dfu_get_status(dev)', 'status, state = poll(dev)', 'all')]),
    # status check in a helper that returns early on STATUS_OK
    ('p7-dfu-f8', ['C18', 'C19'], [(D, 'def cli_main():', "def check_status(status, what):\n    if status == STATUS_OK:\n        return\n    print()\n    raise SystemExit('error {} page: {}'.format(what, STATUS_DESCRIPTION[status]))\n\n\ndef cli_main():"),
        (D, "        if status != STATUS_OK:\n            print()\n            raise SystemExit('error erasing page: {}'.format(STATUS_DESCRIPTION[status]))\n", "        check_status(status, 'erasing')\n"),
        (D, "        if status != STATUS_OK:\n            print()\n            raise SystemExit('error writing page: {}'.format(STATUS_DESCRIPTION[status]))\n", "        check_status(status, 'writing')\n")]),
    # image pre-split into a list of page-sized chunks, write loop over enumerate(chunks)
    ('p7-dfu-f16', ['C18', 'C19'], [(D, '    print()\n\n    # write flash\n    for page in range(pages):\n        addr_start = 0x08000000\n        addr = addr_start + (page * page_size)\n        code_start = page * page_size\n        code_end = code_start + page_size\n        code = firmware[code_start:code_end]\n', '    print()\n\n    chunks = [firmware[offset:offset + page_size] for offset in range(0, len(firmware), page_size)]\n\n    # write flash\n    for page, code in enumerate(chunks):\n        addr_start = 0x08000000\n        addr = addr_start + (page * page_size)\n')]),
    # serial letter through a local name; the last arm tests `in ('4',)`
    ('p7-dfu-f17', ['C18', 'C19'], [(D, "        if sn[2] == 'B':\n            page_count = 128\n        elif sn[2] == '8':\n            page_count = 64\n        elif sn[2] == '6':\n            page_count = 32\n        elif sn[2] == '4':\n            page_count = 16\n", "        flash_code = sn[2]\n        if flash_code == 'B':\n            page_count = 128\n        elif flash_code == '8':\n            page_count = 64\n        elif flash_code == '6':\n            page_count = 32\n        elif flash_code in ('4',):\n            page_count = 16\n")]),
    # micro/X10-e2: starred unpack of the reply and sum(byte << (8 * i) ...) for the poll delay
    ('p7-dfu-x10e2', ['C18', 'C19'], [(D, "    status, pt0, pt1, pt2, state, desc = struct.unpack('<BBBBBB', response)\n    poll_timeout = pt2 << 16 | pt1 << 8 | pt0  # rebuild timeout from 3 bytes (little-endian)\n", "    status, *poll_bytes, state, desc = struct.unpack('<BBBBBB', response)\n    # rebuild timeout from 3 bytes (little-endian)\n    poll_timeout = sum(byte << (8 * i) for i, byte in enumerate(poll_bytes))\n")]),
    # micro/Y10-e2: chunks from a generator of pages consumed through enumerate
    ('p7-dfu-y10e2', ['C18', 'C19'], [(D, 'def cli_main():', 'def iter_pages(data, page_size):\n    """Yield successive page_size-byte slices of data."""\n    for offset in range(0, len(data), page_size):\n        yield data[offset:offset + page_size]\n\n\ndef cli_main():'),
        (D, '    for page in range(pages):\n        addr_start = 0x08000000\n        addr = addr_start + (page * page_size)\n        code_start = page * page_size\n        code_end = code_start + page_size\n        code = firmware[code_start:code_end]\n', '    for page, code in enumerate(iter_pages(firmware, page_size)):\n        addr_start = 0x08000000\n        addr = addr_start + (page * page_size)\n')]),
    # explicit open / read / close in try-finally
    ('p7-dfu-g2', ['C18', 'C19'], [(D, "    with open(args.binary_file, 'rb') as f:\n        firmware = f.read()\n", "    f = open(args.binary_file, 'rb')\n    try:\n        firmware = f.read()\n    finally:\n        f.close()\n")]),
    # the fit check in a helper ensure_fits(image, page_size, page_count)
    ('p7-dfu-g3', ['C18', 'C19'], [(D, 'def cli_main():', "def ensure_fits(image, page_size, page_count):\n    capacity = page_size * page_count\n    if len(image) > capacity:\n        raise SystemExit('Firmware file is too large for device')\n\n\ndef cli_main():"),
        (D, "    if len(firmware) > (page_size * page_count):\n        raise SystemExit('Firmware file is too large for device')\n", '    ensure_fits(firmware, page_size, page_count)\n')]),
    # divmod result bound to one name and indexed
    ('p7-dfu-g7', ['C18', 'C19'], [(D, '    pages, rem = divmod(len(firmware), page_size)\n', '    full_and_rest = divmod(len(firmware), page_size)\n    pages = full_and_rest[0]\n    rem = full_and_rest[1]\n')]),
    # erase / write loops in helpers, KeyboardInterrupt handler around the erase
    ('p7-dfu-g8', ['C18', 'C19'], [(D, '    # erase flash\n    for page in range(pages):\n        start = 0x08000000\n', "    # erase flash\n    try:\n        erase_all(dev, pages, page_size)\n    except KeyboardInterrupt:\n        raise SystemExit('interrupted while erasing')\n\n    print()\n    write_all(dev, firmware, pages, page_size)\n    print()\n    print('done!')\n\n\ndef erase_all(dev, pages, page_size):\n    for page in range(pages):\n        start = 0x08000000\n"),
        (D, "            raise SystemExit('error erasing page: {}'.format(STATUS_DESCRIPTION[status]))\n\n    print()\n\n    # write flash\n", "            raise SystemExit('error erasing page: {}'.format(STATUS_DESCRIPTION[status]))\n\n\ndef write_all(dev, firmware, pages, page_size):\n    # write flash\n"),
        (D, "            raise SystemExit('error writing page: {}'.format(STATUS_DESCRIPTION[status]))\n\n    print()\n    print('done!')\n", "            raise SystemExit('error writing page: {}'.format(STATUS_DESCRIPTION[status]))\n")]),
    # oversize firmware refused through parser.error(..): exit status 2, nothing sent (the message format differs, the property holds)
    ('p7-dfu-parser-error', ['C18', 'C19'], [(D, "        raise SystemExit('Firmware file is too large for device')\n", "        parser.error('Firmware file is too large for device')\n")]),
]

BREAKING = [
    # e1 twin: the state numbers are off by one
    ('c7-dfu-range-consts-shifted', ['C18'], [(D, 'STATE_APP_IDLE = 0\nSTATE_APP_DETACH = 1\nSTATE_DFU_IDLE = 2\nSTATE_DFU_DNLOAD_SYNC = 3\nSTATE_DFU_DNBUSY = 4\nSTATE_DFU_DNLOAD_IDLE = 5\nSTATE_DFU_MANIFEST_SYNC = 6\nSTATE_DFU_MANIFEST = 7\nSTATE_DFU_MANIFEST_WAIT_RESET = 8\nSTATE_DFU_UPLOAD_IDLE = 9\nSTATE_DFU_ERROR = 10\n', '(STATE_APP_IDLE, STATE_APP_DETACH, STATE_DFU_IDLE, STATE_DFU_DNLOAD_SYNC, STATE_DFU_DNBUSY, STATE_DFU_DNLOAD_IDLE,\n STATE_DFU_MANIFEST_SYNC, STATE_DFU_MANIFEST, STATE_DFU_MANIFEST_WAIT_RESET, STATE_DFU_UPLOAD_IDLE, STATE_DFU_ERROR) = range(1, 12)\n'),
        (D, 'DFUSE_CMD_MASS_ERASE = 0x41  # len = 1\nDFUSE_CMD_READ_UNPROTECT = 0x92  # len = 1\n', ''),
        (D, 'REQUEST_DFU_DETACH = 0\n', '# 0 = DFU_DETACH (not used)\n'),
        (D, 'REQUEST_DFU_UPLOAD = 2\n', ''),
        (D, 'REQUEST_DFU_GETSTATE = 5\nREQUEST_DFU_ABORT = 6\n', '')]),
    # e2 twin: five bytes are asked for
    ('c7-dfu-calcsize-short', ['C18'], [(D, 'def dfu_get_status(device):', "GETSTATUS_FORMAT = '<BBBBB'\n\n\ndef dfu_get_status(device):"),
        (D, '        data_or_wLength=6,\n', '        data_or_wLength=struct.calcsize(GETSTATUS_FORMAT),\n'),
        (D, '    assert len(response) == 6\n', '    assert len(response) == struct.calcsize(GETSTATUS_FORMAT)\n'),
        (D, "struct.unpack('<BBBBBB', response)", 'struct.unpack(GETSTATUS_FORMAT, response)')]),
    # e3 twin: big-endian address
    ('c7-dfu-to-bytes-big', ['C18'], [(D, "    request = struct.pack('<BI', DFUSE_CMD_ERASE_PAGE, address)", "    request = bytes([DFUSE_CMD_ERASE_PAGE]) + address.to_bytes(4, 'big')"),
        (D, "    request = struct.pack('<BI', DFUSE_CMD_SET_ADDRESS, address)", "    request = bytes([DFUSE_CMD_SET_ADDRESS]) + address.to_bytes(4, 'little')")]),
    # e4 twin: 16-bit address field
    ('c7-dfu-struct-bh', ['C18'], [(D, 'def dfuse_erase_page(device, address):', "DFUSE_ADDRESS_COMMAND = struct.Struct('<BH')\n\n\ndef dfuse_erase_page(device, address):"),
        (D, "    request = struct.pack('<BI', DFUSE_CMD_ERASE_PAGE, address)", '    request = DFUSE_ADDRESS_COMMAND.pack(DFUSE_CMD_ERASE_PAGE, address)'),
        (D, "    request = struct.pack('<BI', DFUSE_CMD_SET_ADDRESS, address)", '    request = DFUSE_ADDRESS_COMMAND.pack(DFUSE_CMD_SET_ADDRESS, address)')]),
    # e5 twin: the converted reply is still a poll - and its delay is not waited for
    ('c7-dfu-bytes-reply-no-sleep', ['C18'], [(D, '    response = device.ctrl_transfer(\n        USB_ENDPOINT_IN | USB_REQUEST_TYPE_CLASS | USB_RECIPIENT_INTERFACE,\n        REQUEST_DFU_GETSTATUS,\n        data_or_wLength=6,\n        timeout=1000)\n', '    response = bytes(device.ctrl_transfer(\n        USB_ENDPOINT_IN | USB_REQUEST_TYPE_CLASS | USB_RECIPIENT_INTERFACE,\n        REQUEST_DFU_GETSTATUS,\n        data_or_wLength=6,\n        timeout=1000))\n'),
        (D, '    time.sleep(poll_timeout)\n', '')]),
    # e6 twin: a delay of 1 ms is skipped
    ('c7-dfu-sleep-over-1ms', ['C18'], [(D, '    time.sleep(poll_timeout)\n', '    if poll_timeout > 0.001:\n        time.sleep(poll_timeout)\n')]),
    # seeded C18r7m1: the delay is waited for only in dfuDNBUSY
    ('c7-dfu-sleep-only-busy', ['C18'], [(D, '    time.sleep(poll_timeout)\n', '    if state == STATE_DFU_DNBUSY:\n        time.sleep(poll_timeout)\n')]),
    # e7 twin: the flag is cleared after one more poll whatever it says
    ('c7-dfu-busy-flag-stale', ['C18'], [(D, '        status, state = dfu_get_status(dev)\n        while state == STATE_DFU_DNBUSY:\n            status, state = dfu_get_status(dev)\n', '        status, state = dfu_get_status(dev)\n        busy = state == STATE_DFU_DNBUSY\n        while busy:\n            status, state = dfu_get_status(dev)\n            busy = False\n', 'all')]),
    # e8 twin: the set names another state
    ('c7-dfu-busy-set-wrong', ['C18'], [(D, 'USB_ENDPOINT_OUT = 0b00000000', 'BUSY_STATES = frozenset([STATE_DFU_DNLOAD_SYNC])\nWRITE_SETTLED_STATES = {STATE_DFU_DNLOAD_IDLE, STATE_DFU_ERROR}\n\nUSB_ENDPOINT_OUT = 0b00000000'),
        (D, '        while state == STATE_DFU_DNBUSY:\n', '        while state in BUSY_STATES:\n', 'all'),
        (D, '        while state not in [STATE_DFU_DNLOAD_IDLE, STATE_DFU_ERROR]:\n', '        while state not in WRITE_SETTLED_STATES:\n')]),
    # e10 twin: the list starts one page up
    ('c7-dfu-address-list-off', ['C18'], [(D, '    # erase flash\n    for page in range(pages):\n        start = 0x08000000\n        addr = start + (page * page_size)\n', '    page_addresses = [0x08000400 + (page * page_size) for page in range(pages)]\n\n    # erase flash\n    for addr in page_addresses:\n'),
        (D, '    for page in range(pages):\n        addr_start = 0x08000000\n        addr = addr_start + (page * page_size)\n', '    for page, addr in enumerate(page_addresses):\n')]),
    # e11 twin: the first page is not written
    ('c7-dfu-offset-loop-short', ['C18'], [(D, '    for page in range(pages):\n        addr_start = 0x08000000\n        addr = addr_start + (page * page_size)\n        code_start = page * page_size\n        code_end = code_start + page_size\n        code = firmware[code_start:code_end]\n', '    for offset in range(page_size, len(firmware), page_size):\n        addr = 0x08000000 + offset\n        code = firmware[offset:offset + page_size]\n')]),
    # e12 twin: a remainder of one byte is not padded
    ('c7-dfu-rem-gt-1', ['C18'], [(D, '    if rem != 0:\n', '    if rem > 1:\n'),
        (D, "            firmware += b'\\x00'\n", '            firmware += PAD_BYTE\n'),
        (D, 'USB_ENDPOINT_OUT = 0b00000000', "PAD_BYTE = b'\\x00'\n\nUSB_ENDPOINT_OUT = 0b00000000")]),
    # e12 twin: the named pad byte is not zero
    ('c7-dfu-pad-byte-one', ['C18'], [(D, '    if rem != 0:\n', '    if rem > 0:\n'),
        (D, "            firmware += b'\\x00'\n", '            firmware += PAD_BYTE\n'),
        (D, 'USB_ENDPOINT_OUT = 0b00000000', "PAD_BYTE = b'\\x01'\n\nUSB_ENDPOINT_OUT = 0b00000000")]),
    # e13 twin: one byte too many
    ('c7-dfu-negmod-plus-1', ['C18'], [(D, "        for _ in range(page_size - rem):\n            firmware += b'\\x00'\n", '        firmware += bytes(-len(firmware) % page_size + 1)\n')]),
    # e14 twin: padding one byte short
    ('c7-dfu-floordiv-pad-short', ['C18'], [(D, '    pages, rem = divmod(len(firmware), page_size)\n', '    pages = len(firmware) // page_size\n    rem = len(firmware) % page_size\n'),
        (D, '        for _ in range(page_size - rem):', '        for _ in range(page_size - rem - 1):')]),
    # e15 twin: capped read inside bytearray(..)
    ('c7-dfu-bytearray-capped', ['C19', 'C18'], [(D, '        firmware = f.read()\n', '        firmware = bytearray(f.read(page_size * page_count))\n')]),
    # e16 twin: chunk one byte off
    ('c7-dfu-view-offset', ['C18'], [(D, '    print()\n\n    # write flash\n', '    print()\n\n    image = memoryview(firmware)\n\n    # write flash\n'),
        (D, '        code = firmware[code_start:code_end]\n', '        code = image[code_start + 1:code_end + 1]\n')]),
    # e17 twin: the 64 KiB part is given 128 KiB
    ('c7-dfu-size-table-wrong', ['C18', 'C19'], [(D, 'USB_ENDPOINT_OUT = 0b00000000', "# GD32 flash size in bytes, keyed by the third character of the serial number\nGD32_FLASH_SIZES = {'B': 128 * 1024, '8': 128 * 1024, '6': 32 * 1024, '4': 16 * 1024}\n\nUSB_ENDPOINT_OUT = 0b00000000"),
        (D, "        if sn[2] == 'B':\n            page_count = 128\n        elif sn[2] == '8':\n            page_count = 64\n        elif sn[2] == '6':\n            page_count = 32\n        elif sn[2] == '4':\n            page_count = 16\n        else:\n            raise SystemExit('invalid serial number for a GD32 device: {}'.format(sn))\n", "        if sn[2] not in GD32_FLASH_SIZES:\n            raise SystemExit('invalid serial number for a GD32 device: {}'.format(sn))\n        flash_size = GD32_FLASH_SIZES[sn[2]]\n        page_count = flash_size // page_size\n"),
        (D, '    if len(firmware) > (page_size * page_count):\n', '    if len(firmware) > flash_size:\n')]),
    # e18 twin: 125 pages for the 128 KiB part
    ('c7-dfu-kib-1000', ['C18', 'C19'], [(D, '            page_count = 128\n', '            flash_kib = 128\n'),
        (D, '            page_count = 64\n', '            flash_kib = 64\n'),
        (D, '            page_count = 32\n', '            flash_kib = 32\n'),
        (D, '            page_count = 16\n', '            flash_kib = 16\n'),
        (D, "            raise SystemExit('invalid serial number for a GD32 device: {}'.format(sn))\n", "            raise SystemExit('invalid serial number for a GD32 device: {}'.format(sn))\n        page_count = flash_kib * 1000 // page_size\n")]),
    # e19 twin: die() forgets to exit
    ('c7-dfu-die-returns', ['C19'], [(D, 'def cli_main():', 'def die(message):\n    print(message, file=sys.stderr)\n\n\ndef cli_main():'),
        (D, "        raise SystemExit('Firmware file is too large for device')\n", "        die('Firmware file is too large for device')\n"),
        (D, "            raise SystemExit('error erasing page: {}'.format(STATUS_DESCRIPTION[status]))\n", "            die('error erasing page: {}'.format(STATUS_DESCRIPTION[status]))\n"),
        (D, "            raise SystemExit('error writing page: {}'.format(STATUS_DESCRIPTION[status]))\n", "            die('error writing page: {}'.format(STATUS_DESCRIPTION[status]))\n")]),
    # e20 twin: errTARGET slips through
    ('c7-dfu-status-gt-target', ['C19'], [(D, "        if status != STATUS_OK:\n            print()\n            raise SystemExit('error erasing", "        if status > STATUS_OK:\n            print()\n            raise SystemExit('error erasing"),
        (D, "        if status != STATUS_OK:\n            print()\n            raise SystemExit('error writing", "        if status > STATUS_ERR_TARGET:\n            print()\n            raise SystemExit('error writing")]),
    # e20 twin: only some error codes are treated as errors
    ('c7-dfu-status-known-only', ['C19'], [(D, "        if status != STATUS_OK:\n            print()\n            raise SystemExit('error erasing", "        if status > STATUS_OK:\n            print()\n            raise SystemExit('error erasing"),
        (D, "        if status != STATUS_OK:\n            print()\n            raise SystemExit('error writing", "        if status in (STATUS_ERR_WRITE, STATUS_ERR_ERASE, STATUS_ERR_PROG, STATUS_ERR_VERIFY):\n            print()\n            raise SystemExit('error writing")]),
    # e21 twin: the remembered failure is only printed
    ('c7-dfu-failure-printed', ['C19'], [(D, "        if status != STATUS_OK:\n            print()\n            raise SystemExit('error erasing page: {}'.format(STATUS_DESCRIPTION[status]))\n\n    print()\n", "        if status != STATUS_OK:\n            failure = 'error erasing page: {}'.format(STATUS_DESCRIPTION[status])\n            break\n\n    print()\n    if failure is not None:\n        print(failure)\n"),
        (D, '    # erase flash\n', '    failure = None\n\n    # erase flash\n')]),
    # e22 twin: fields swapped
    ('c7-dfu-namedtuple-swapped', ['C18'], [(D, 'import usb.core\n', 'import typing\n\nimport usb.core\n'),
        (D, 'def dfu_get_status(device):', 'class DfuStatus(typing.NamedTuple):\n    status: int\n    poll_timeout: float\n    state: int\n\n\ndef dfu_get_status(device):'),
        (D, '    return status, state\n', '    return DfuStatus(state, poll_timeout, status)\n'),
        (D, "        status, state = dfu_get_status(dev)\n        while state == STATE_DFU_DNBUSY:\n            status, state = dfu_get_status(dev)\n\n        if status != STATUS_OK:\n            print()\n            raise SystemExit('error erasing page: {}'.format(STATUS_DESCRIPTION[status]))", "        reply = dfu_get_status(dev)\n        while reply.state == STATE_DFU_DNBUSY:\n            reply = dfu_get_status(dev)\n\n        if reply.status != STATUS_OK:\n            print()\n            raise SystemExit('error erasing page: {}'.format(STATUS_DESCRIPTION[reply.status]))"),
        (D, 'status, state = dfu_get_status(dev)', 'status, _, state = dfu_get_status(dev)', 'all')]),
    # e23 twin: one page of slack
    ('c7-dfu-bool-guard-slack', ['C19', 'C18'], [(D, 'import os\n', 'import os\nimport pathlib\n'),
        (D, "    with open(args.binary_file, 'rb') as f:\n        firmware = f.read()\n", '    firmware = pathlib.Path(args.binary_file).read_bytes()\n'),
        (D, '    if len(firmware) > (page_size * page_count):\n', '    flash_size = page_size * page_count\n    too_large = len(firmware) > flash_size + page_size\n    if too_large:\n')]),
    # e24 twin: bytes 0..2 instead of 1..3
    ('c7-dfu-unpack-i-wrong-bytes', ['C18'], [(D, "    status, pt0, pt1, pt2, state, desc = struct.unpack('<BBBBBB', response)\n    poll_timeout = pt2 << 16 | pt1 << 8 | pt0  # rebuild timeout from 3 bytes (little-endian)\n", "    status, state = response[0], response[4]\n    poll_timeout, = struct.unpack('<I', bytes(response[0:3]) + b'\\x00')\n")]),
    # e24 twin: a constant 16777216 ms added
    ('c7-dfu-unpack-i-const', ['C18'], [(D, "    status, pt0, pt1, pt2, state, desc = struct.unpack('<BBBBBB', response)\n    poll_timeout = pt2 << 16 | pt1 << 8 | pt0  # rebuild timeout from 3 bytes (little-endian)\n", "    status, state = response[0], response[4]\n    poll_timeout, = struct.unpack('<I', bytes(response[1:4]) + b'\\x01')\n")]),
    # f2 twin: padded with 0xff
    ('c7-dfu-ljust-ff', ['C18'], [(D, "        for _ in range(page_size - rem):\n            firmware += b'\\x00'\n", "        firmware = firmware.ljust(pages * page_size, b'\\xff')\n")]),
    # f3 twin: page numbers start at 1
    ('c7-dfu-enumerate-start-1', ['C18'], [(D, '    for page in range(pages):\n        addr_start = 0x08000000\n        addr = addr_start + (page * page_size)\n        code_start = page * page_size\n        code_end = code_start + page_size\n        code = firmware[code_start:code_end]\n', '    for page, code_start in enumerate(range(0, len(firmware), page_size), 1):\n        addr_start = 0x08000000\n        addr = addr_start + (page * page_size)\n        code = firmware[code_start:code_start + page_size]\n')]),
    # f4 twin: the three delay bytes are taken one byte late
    ('c7-dfu-struct-reply-shifted', ['C18'], [(D, 'def dfu_get_status(device):', "GETSTATUS_REPLY = struct.Struct('<BB3sB')\n\n\ndef dfu_get_status(device):"),
        (D, '        data_or_wLength=6,\n', '        data_or_wLength=GETSTATUS_REPLY.size,\n'),
        (D, '    assert len(response) == 6\n', '    assert len(response) == GETSTATUS_REPLY.size\n'),
        (D, "    status, pt0, pt1, pt2, state, desc = struct.unpack('<BBBBBB', response)\n    poll_timeout = pt2 << 16 | pt1 << 8 | pt0  # rebuild timeout from 3 bytes (little-endian)\n", "    status, poll_bytes, state, desc = GETSTATUS_REPLY.unpack(response)\n    poll_timeout = int.from_bytes(poll_bytes, byteorder='little')\n")]),
    # f5 twin: dict fields swapped
    ('c7-dfu-dict-swapped', ['C18'], [(D, '    return status, state\n', "    return {'status': state, 'state': status, 'poll_timeout': poll_timeout}\n"),
        (D, 'def cli_main():', "def poll(device):\n    reply = dfu_get_status(device)\n    return reply['status'], reply['state']\n\n\ndef cli_main():"),
        (D, 'status, state = dfu_get_status(dev)', 'status, state = poll(dev)', 'all')]),
    # f8 twin: the helper returns on errors
    ('c7-dfu-check-status-inverted', ['C19'], [(D, 'def cli_main():', "def check_status(status, what):\n    if status != STATUS_OK:\n        return\n    print()\n    raise SystemExit('error {} page: {}'.format(what, STATUS_DESCRIPTION[status]))\n\n\ndef cli_main():"),
        (D, "        if status != STATUS_OK:\n            print()\n            raise SystemExit('error erasing page: {}'.format(STATUS_DESCRIPTION[status]))\n", "        check_status(status, 'erasing')\n"),
        (D, "        if status != STATUS_OK:\n            print()\n            raise SystemExit('error writing page: {}'.format(STATUS_DESCRIPTION[status]))\n", "        check_status(status, 'writing')\n")]),
    # f16 twin: every other page of the image
    ('c7-dfu-chunk-list-stride', ['C18'], [(D, '    print()\n\n    # write flash\n    for page in range(pages):\n        addr_start = 0x08000000\n        addr = addr_start + (page * page_size)\n        code_start = page * page_size\n        code_end = code_start + page_size\n        code = firmware[code_start:code_end]\n', '    print()\n\n    chunks = [firmware[offset:offset + page_size] for offset in range(0, 2 * len(firmware), 2 * page_size)]\n\n    # write flash\n    for page, code in enumerate(chunks):\n        addr_start = 0x08000000\n        addr = addr_start + (page * page_size)\n')]),
    # f17 twin: the 16 KiB part is given 32 pages
    ('c7-dfu-letter-in-wrong-count', ['C18'], [(D, "        if sn[2] == 'B':\n            page_count = 128\n        elif sn[2] == '8':\n            page_count = 64\n        elif sn[2] == '6':\n            page_count = 32\n        elif sn[2] == '4':\n            page_count = 16\n", "        flash_code = sn[2]\n        if flash_code == 'B':\n            page_count = 128\n        elif flash_code == '8':\n            page_count = 64\n        elif flash_code == '6':\n            page_count = 32\n        elif flash_code in ('4',):\n            page_count = 32\n")]),
    # X10-e2 twin: weights one byte up
    ('c7-dfu-sum-shifted', ['C18'], [(D, "    status, pt0, pt1, pt2, state, desc = struct.unpack('<BBBBBB', response)\n    poll_timeout = pt2 << 16 | pt1 << 8 | pt0  # rebuild timeout from 3 bytes (little-endian)\n", "    status, *poll_bytes, state, desc = struct.unpack('<BBBBBB', response)\n    # rebuild timeout from 3 bytes (little-endian)\n    poll_timeout = sum(byte << (8 * (i + 1)) for i, byte in enumerate(poll_bytes))\n")]),
    # Y10-e2 twin: the generator yields pages one byte short
    ('c7-dfu-generator-short-pages', ['C18'], [(D, 'def cli_main():', 'def iter_pages(data, page_size):\n    """Yield successive page_size-byte slices of data."""\n    for offset in range(0, len(data), page_size):\n        yield data[offset:offset + page_size - 1]\n\n\ndef cli_main():'),
        (D, '    for page in range(pages):\n        addr_start = 0x08000000\n        addr = addr_start + (page * page_size)\n        code_start = page * page_size\n        code_end = code_start + page_size\n        code = firmware[code_start:code_end]\n', '    for page, code in enumerate(iter_pages(firmware, page_size)):\n        addr_start = 0x08000000\n        addr = addr_start + (page * page_size)\n')]),
    # parser.error twin: the usage text is printed and the run goes on
    ('c7-dfu-parser-usage-only', ['C19'], [(D, "        raise SystemExit('Firmware file is too large for device')\n", '        parser.print_usage()\n')]),
    # g3 twin: one byte of slack
    ('c7-dfu-helper-guard-slack', ['C19', 'C18'], [(D, 'def cli_main():', "def ensure_fits(image, page_size, page_count):\n    capacity = page_size * page_count + 1\n    if len(image) > capacity:\n        raise SystemExit('Firmware file is too large for device')\n\n\ndef cli_main():"),
        (D, "    if len(firmware) > (page_size * page_count):\n        raise SystemExit('Firmware file is too large for device')\n", '    ensure_fits(firmware, page_size, page_count)\n')]),
    # g7 twin: quotient and remainder swapped
    ('c7-dfu-divmod-index-swapped', ['C18'], [(D, '    pages, rem = divmod(len(firmware), page_size)\n', '    full_and_rest = divmod(len(firmware), page_size)\n    pages = full_and_rest[1]\n    rem = full_and_rest[0]\n')]),
    # g2 twin: capped read
    ('c7-dfu-explicit-read-capped', ['C19', 'C18'], [(D, "    with open(args.binary_file, 'rb') as f:\n        firmware = f.read()\n", "    f = open(args.binary_file, 'rb')\n    try:\n        firmware = f.read(1 << 20)\n    finally:\n        f.close()\n")]),
    # g8 twin: the erase helper returns on a device error
    ('c7-dfu-helper-erase-returns', ['C19'], [(D, '    # erase flash\n    for page in range(pages):\n        start = 0x08000000\n', "    # erase flash\n    try:\n        erase_all(dev, pages, page_size)\n    except KeyboardInterrupt:\n        raise SystemExit('interrupted while erasing')\n\n    print()\n    write_all(dev, firmware, pages, page_size)\n    print()\n    print('done!')\n\n\ndef erase_all(dev, pages, page_size):\n    for page in range(pages):\n        start = 0x08000000\n"),
        (D, "            raise SystemExit('error erasing page: {}'.format(STATUS_DESCRIPTION[status]))\n\n    print()\n\n    # write flash\n", "            raise SystemExit('error erasing page: {}'.format(STATUS_DESCRIPTION[status]))\n\n\ndef write_all(dev, firmware, pages, page_size):\n    # write flash\n"),
        (D, "            raise SystemExit('error writing page: {}'.format(STATUS_DESCRIPTION[status]))\n\n    print()\n    print('done!')\n", "            raise SystemExit('error writing page: {}'.format(STATUS_DESCRIPTION[status]))\n"),
        (D, "            print()\n            raise SystemExit('error erasing page: {}'.format(STATUS_DESCRIPTION[status]))\n", '            print()\n            return\n')]),
    # seeded C18r7m2 (core): the image is stripped after the guard, what is written is not the file
    ('c7-dfu-rstrip-after-guard', ['C18'], [(D, "    print('old size:', len(firmware))\n", "    print('old size:', len(firmware))\n    firmware = firmware.rstrip(b'\\xff')\n")]),
]

UNDECIDED = [
    # g5: the erase address is a running sum (addr += page_size), a loop-carried value
    ('u7-dfu-running-address', ['C18'], [(D, '    # erase flash\n    for page in range(pages):\n        start = 0x08000000\n        addr = start + (page * page_size)\n', '    # erase flash\n    addr = 0x08000000 - page_size\n    for page in range(pages):\n        addr += page_size\n')]),
    # e9: erase / write loops as `while page < pages` with an explicit counter (not followed)
    ('u7-dfu-while-loops', ['C18'], [(D, '    for page in range(pages):\n        start = 0x08000000\n', '    page = 0\n    while page < pages:\n        start = 0x08000000\n'),
        (D, "            raise SystemExit('error erasing page: {}'.format(STATUS_DESCRIPTION[status]))\n", "            raise SystemExit('error erasing page: {}'.format(STATUS_DESCRIPTION[status]))\n        page += 1\n"),
        (D, '    for page in range(pages):\n        addr_start = 0x08000000\n', '    page = 0\n    while page < pages:\n        addr_start = 0x08000000\n'),
        (D, "            raise SystemExit('error writing page: {}'.format(STATUS_DESCRIPTION[status]))\n", "            raise SystemExit('error writing page: {}'.format(STATUS_DESCRIPTION[status]))\n        page += 1\n")]),
    # f7: states in an enum.IntEnum class (members are not folded)
    ('u7-dfu-intenum-states', ['C18'], [(D, 'import usb.core\n', 'import enum\n\nimport usb.core\n'),
        (D, 'USB_ENDPOINT_OUT = 0b00000000', 'class State(enum.IntEnum):\n    DFU_IDLE = 2\n    DFU_DNBUSY = 4\n    DFU_DNLOAD_IDLE = 5\n    DFU_ERROR = 10\n\n\nUSB_ENDPOINT_OUT = 0b00000000'),
        (D, 'state == STATE_DFU_DNBUSY', 'state == State.DFU_DNBUSY', 'all'),
        (D, '[STATE_DFU_DNLOAD_IDLE, STATE_DFU_ERROR]', '[State.DFU_DNLOAD_IDLE, State.DFU_ERROR]'),
        (D, '    if state == STATE_DFU_ERROR:', '    if state == State.DFU_ERROR:')]),
    # f18: the guard compares -(-len // page_size) with the page count
    ('u7-dfu-ceil-pages-guard', ['C18', 'C19'], [(D, '    if len(firmware) > (page_size * page_count):\n', '    if -(-len(firmware) // page_size) > page_count:\n')]),
]
