"""Concrete evaluation of pathwalk's symbolic values under a binding of their free symbols.

A rule that must hold "for every keyword of a table and every sign of the value" binds the keyword symbol (`item.name`) and the
value symbol to concrete samples and evaluates the symbolic format / size / condition expressions: local dict literals, module
level constants and tables (including ones *derived* by a dict comprehension or struct.calcsize), string methods, conditional
expressions and comparisons are all followed.  Nothing of the analysed repository is executed: the evaluator interprets the
symbolic value tree with the semantics of the few Python operations it models and raises `Undecided` for everything else.
"""
import ast
import operator
import re

from .pathwalk import Walker, PathState, is_const

STRUCT_STANDARD = {'x': 1, 'c': 1, 'b': 1, 'B': 1, '?': 1, 'h': 2, 'H': 2, 'i': 4, 'I': 4, 'l': 4, 'L': 4, 'q': 8, 'Q': 8, 'e': 2, 'f': 4, 'd': 8}

_BIN = {'+': operator.add, '-': operator.sub, '*': operator.mul, '//': operator.floordiv, '%': operator.mod, '<<': operator.lshift,
        '>>': operator.rshift, '|': operator.or_, '&': operator.and_, '^': operator.xor, '**': operator.pow}
_CMP = {'==': operator.eq, '!=': operator.ne, '<': operator.lt, '<=': operator.le, '>': operator.gt, '>=': operator.ge,
        'in': lambda a, b: a in b, 'not in': lambda a, b: a not in b, 'is': lambda a, b: a is b or (a == b and a is None is b),
        'is not': lambda a, b: not (a is b)}
_STR_METHODS = {'lower', 'upper', 'strip', 'lstrip', 'rstrip', 'format', 'join', 'startswith', 'endswith', 'replace', 'title', 'swapcase',
                'capitalize', 'casefold', 'isupper', 'islower', 'zfill', 'split', 'rsplit', 'partition', 'rpartition', 'splitlines', 'find',
                'rfind', 'index', 'count', 'removeprefix', 'removesuffix', 'isspace', 'isdigit', 'expandtabs'}
_RE_FUNCS = {'re.compile': re.compile, 're.match': re.match, 're.search': re.search, 're.fullmatch': re.fullmatch, 're.sub': re.sub, 're.split': re.split,
             're.findall': re.findall}
_PATTERN_METHODS = {'match', 'search', 'fullmatch', 'sub', 'split', 'findall'}
_MATCH_METHODS = {'group', 'groups', 'start', 'end', 'span'}
_DICT_METHODS = {'items', 'keys', 'values', 'get'}


_BUILTIN_TYPES = {'str': str, 'int': int, 'bytes': bytes, 'list': list, 'tuple': tuple, 'dict': dict, 'bool': bool, 'float': float, 'set': set}


class RepoClass:
    """A class of the analysed repository (never instantiated here): plain sample values are not instances of it."""

    def __init__(self, name):
        self.name = name

    def __eq__(self, o):
        return isinstance(o, RepoClass) and o.name == self.name

    def __hash__(self):
        return hash(('RepoClass', self.name))


class Undecided(Exception):
    pass


class UnpackFailed(Undecided):
    """A sequence is unpacked into the wrong number of targets (the analysed code would raise ValueError)."""


class LookupFailed(Undecided):
    """A table has no entry for the key (the analysed code would raise KeyError / IndexError)."""


class StructObj:
    """struct.Struct(fmt) for a format with an explicit standard-size prefix."""

    def __init__(self, fmt):
        self.format = fmt
        self.size = calcsize(fmt)

    def __eq__(self, o):
        return isinstance(o, StructObj) and o.format == self.format

    def __hash__(self):
        return hash(('Struct', self.format))

    def __repr__(self):
        return 'Struct({!r})'.format(self.format)


class Lin:
    """a * L + b for one symbolic non-negative integer L (the number of values of a sequence)."""

    def __init__(self, a, b=0):
        self.a, self.b = a, b

    def _coerce(self, o):
        if isinstance(o, Lin):
            return o
        if isinstance(o, int) and not isinstance(o, bool):
            return Lin(0, o)
        raise Undecided('arithmetic between a length and {!r}'.format(o))

    def __add__(self, o):
        o = self._coerce(o)
        return Lin(self.a + o.a, self.b + o.b)
    __radd__ = __add__

    def __sub__(self, o):
        o = self._coerce(o)
        return Lin(self.a - o.a, self.b - o.b)

    def __rsub__(self, o):
        return self._coerce(o) - self

    def __mul__(self, o):
        o = self._coerce(o)
        if self.a and o.a:
            raise Undecided('non-linear size')
        return Lin(self.a * o.b + o.a * self.b, self.b * o.b)
    __rmul__ = __mul__

    def __eq__(self, o):
        return isinstance(o, Lin) and (self.a, self.b) == (o.a, o.b)

    def __hash__(self):
        return hash((self.a, self.b))

    def __repr__(self):
        return '{}*n + {}'.format(self.a, self.b)


def calcsize(fmt):
    """struct.calcsize for formats with an explicit standard-size prefix; native sizes are platform dependent (Undecided)."""
    if not isinstance(fmt, str) or not fmt:
        raise Undecided('struct format {!r}'.format(fmt))
    if fmt[0] not in '<>=!':
        raise Undecided('struct format {!r} has no byte-order prefix: native sizes and alignment are platform dependent'.format(fmt))
    total = 0
    count = ''
    for ch in fmt[1:]:
        if ch.isdigit():
            count += ch
            continue
        if ch.isspace():
            continue
        if ch == 's' or ch == 'p':
            total += int(count or '1')
        elif ch in STRUCT_STANDARD:
            total += STRUCT_STANDARD[ch] * int(count or '1')
        else:
            raise Undecided('struct format character {!r}'.format(ch))
        count = ''
    return total


class SymEval:
    def __init__(self, facts, bindings=None, classes=None):
        self.facts = facts
        self.bind = dict(bindings or {})
        self.classes = dict(classes or {})      # symbolic object -> its class name (for class-level attributes)
        self.table_domains = []          # keys of every constant dict that was indexed / iterated
        self._module = {}
        self._busy = set()

    def with_bindings(self, extra):
        e = SymEval(self.facts, dict(self.bind), self.classes)
        e.bind.update(extra)
        e._module = self._module
        e.table_domains = self.table_domains
        return e

    def module_value(self, name):
        if name in self.facts.consts:
            return self.facts.consts[name]
        if name in self._module:
            return self._module[name]
        st = self.facts.assign_nodes.get(name)
        if st is None or name in self._busy:
            raise Undecided('name {}'.format(name))
        self._busy.add(name)
        try:
            w = Walker(self.facts, inline='all')
            v = SymEval(self.facts).ev(w.sym(st.value, PathState()))
        finally:
            self._busy.discard(name)
        self._module[name] = v
        return v

    def call_function(self, fn, args, kwargs):
        """A module-level function whose body is a single `return <expression>` applied to concrete arguments."""
        body = [b for b in fn.body if not (isinstance(b, ast.Expr) and isinstance(b.value, ast.Constant))]
        a = fn.args
        if len(body) != 1 or not isinstance(body[0], ast.Return) or body[0].value is None or a.vararg or a.kwarg or fn.name in self._busy:
            raise Undecided('call {}'.format(fn.name))
        params = [x.arg for x in a.args + a.kwonlyargs]
        bound = dict(zip([x.arg for x in a.args], args))
        bound.update(kwargs)
        if set(bound) - set(params) or len(args) > len(a.args) or set(params) - set(bound):
            raise Undecided('call {}: arguments'.format(fn.name))
        st = PathState()
        for p_ in params:
            st.env[p_] = ('var', '$' + p_)
        self._busy.add(fn.name)
        try:
            v = Walker(self.facts, inline='all').sym(body[0].value, st)
            e = SymEval(self.facts, {('var', '$' + p_): val for p_, val in bound.items()}, {})
            e._module = self._module
            return e.ev(v)
        finally:
            self._busy.discard(fn.name)

    def class_attr(self, v):
        """Cls.X, self.X, type(self).X, self.__class__.X for an X assigned in the class body (looked up along the MRO)."""
        base, attr = v[1], v[2]
        cls = None
        if base[0] == 'name' and base[1] in self.facts.classes:
            cls = base[1]
        elif base in self.classes:
            cls = self.classes[base]
        elif base[0] == 'call' and base[1] == 'type' and len(base[2]) == 1 and base[2][0] in self.classes:
            cls = self.classes[base[2][0]]
        elif base[0] == 'attr' and base[2] == '__class__' and base[1] in self.classes:
            cls = self.classes[base[1]]
        if cls is None:
            raise Undecided('attribute {} of {}'.format(attr, str(base)[:40]))
        for c in self.facts.mro(cls):
            for st in self.facts.classes[c].node.body:
                if isinstance(st, ast.Assign) and any(isinstance(t, ast.Name) and t.id == attr for t in st.targets):
                    key = (c, attr)
                    if key not in self._module:
                        if key in self._busy:
                            raise Undecided('recursive class attribute')
                        self._busy.add(key)
                        try:
                            w = Walker(self.facts, inline='all')
                            self._module[key] = ClassBody(self.facts, c).ev(w.sym(st.value, PathState()))
                        finally:
                            self._busy.discard(key)
                    return self._module[key]
        raise Undecided('class {} has no attribute {}'.format(cls, attr))

    def ev(self, v):
        if not isinstance(v, tuple) or not v:
            raise Undecided(repr(v))
        try:
            if v in self.bind:
                return self.bind[v]
        except TypeError:
            pass
        k = v[0]
        if k == 'const':
            return v[1]
        if k == 'name':
            if v[1] in ('True', 'False', 'None'):
                return {'True': True, 'False': False, 'None': None}[v[1]]
            if v[1] in _BUILTIN_TYPES and (self.facts is None or v[1] not in self.facts.assign_nodes):
                return _BUILTIN_TYPES[v[1]]
            if self.facts is not None and v[1] in self.facts.classes:
                return RepoClass(v[1])
            return self.module_value(v[1])
        if k == 'attr':
            try:
                return self.class_attr(v)
            except Undecided:
                base = self.ev(v[1])
                if isinstance(base, StructObj) and v[2] in ('format', 'size'):
                    return getattr(base, v[2])
                raise
        if k == 'dict':
            out = {}
            for a, b in v[1]:
                out[self.ev(a)] = self.ev(b)
            return out
        if k in ('list', 'tuple', 'set'):
            vals = []
            for x in v[1]:
                if x[0] == 'star':
                    vals.extend(self.ev(x[1]))
                else:
                    vals.append(self.ev(x))
            return vals if k == 'list' else tuple(vals) if k == 'tuple' else set(vals)
        if k == 'sub':
            base = self.ev(v[1])
            idx = self.ev(v[2])
            if isinstance(base, dict):
                self.table_domains.append(tuple(base.keys()))
            try:
                return base[idx]
            except (KeyError, IndexError) as e:
                raise LookupFailed('lookup {!r} fails: {}'.format(idx, type(e).__name__))
            except TypeError as e:
                raise Undecided('lookup {!r}: {}'.format(idx, e))
        if k == 'unpack':
            base = self.ev(v[1])
            n = v[3] if len(v) > 3 else None
            try:
                seq = list(base.items()) if False else list(base)
            except TypeError:
                raise Undecided('unpacking a {}'.format(type(base).__name__))
            if isinstance(n, int) and n > 0 and len(seq) != n:
                raise UnpackFailed('unpacking {} values into {} targets'.format(len(seq), n))
            idx = v[2]
            if ':' in idx:
                a, b = idx.split(':')
                return seq[int(a):(int(b) if b else None)]
            return seq[int(idx)]
        if k == 'slice':
            base = self.ev(v[1])
            lo, hi, step = (self.ev(x) for x in v[2:5])
            try:
                return base[lo:hi:step]
            except TypeError:
                raise Undecided('slice')
        if k == 'bin':
            a, b = self.ev(v[2]), self.ev(v[3])
            if v[1] not in _BIN:
                raise Undecided('operator ' + v[1])
            try:
                return _BIN[v[1]](a, b)
            except Undecided:
                raise
            except Exception as e:
                raise Undecided('{} {} {}: {}'.format(a, v[1], b, e))
        if k == 'un':
            a = self.ev(v[2])
            try:
                return {'not': operator.not_, '-': operator.neg, '+': operator.pos, '~': operator.invert}[v[1]](a)
            except Exception as e:
                raise Undecided(str(e))
        if k == 'cmp':
            a, b = self.ev(v[2]), self.ev(v[3])
            try:
                return bool(_CMP[v[1]](a, b))
            except Exception as e:
                raise Undecided(str(e))
        if k == 'bool':
            val = None
            for x in v[2]:
                val = self.ev(x)
                if (v[1] == 'and' and not val) or (v[1] == 'or' and val):
                    return val
            return val
        if k == 'ifexp':
            return self.ev(v[2]) if self.ev(v[1]) else self.ev(v[3])
        if k == 'mcall':
            recv = self.ev(v[1])
            args = [self.ev(a) for a in v[3]]
            kwargs = {n: self.ev(a) for n, a in v[4]}
            if isinstance(recv, str) and v[2] in _STR_METHODS:
                try:
                    return getattr(recv, v[2])(*args, **kwargs)
                except Exception as e:
                    raise Undecided(str(e))
            if isinstance(recv, re.Pattern) and v[2] in _PATTERN_METHODS or isinstance(recv, re.Match) and v[2] in _MATCH_METHODS:
                # the library's regular-expression engine applied to a pattern read from the source and a sample text
                try:
                    return getattr(recv, v[2])(*args, **kwargs)
                except Exception as e:
                    raise Undecided(str(e))
            if isinstance(recv, dict) and v[2] in _DICT_METHODS:
                self.table_domains.append(tuple(recv.keys()))
                r = getattr(recv, v[2])(*args)
                return list(r) if v[2] != 'get' else r
            raise Undecided('method {} of {}'.format(v[2], type(recv).__name__))
        if k == 'call':
            name = v[1]
            args = [self.ev(a) for a in v[2]]
            kwargs = {n: self.ev(a) for n, a in v[3]}
            if name in _RE_FUNCS:
                try:
                    return _RE_FUNCS[name](*args, **kwargs)
                except Exception as e:
                    raise Undecided(str(e))
            if name == 'struct.calcsize' and len(args) == 1 and not kwargs:
                return calcsize(args[0])
            if name == 'struct.Struct' and len(args) == 1 and not kwargs:
                return StructObj(args[0])
            if name == 'type' and len(args) == 1 and not kwargs:
                return type(args[0])
            if name == 'isinstance' and len(args) == 2 and not kwargs:
                classes = args[1] if isinstance(args[1], tuple) else (args[1],)
                if all(isinstance(c, (type, RepoClass)) for c in classes) and isinstance(args[0], (str, int, bytes, list, tuple, dict, type(None))):
                    return any(isinstance(c, type) and isinstance(args[0], c) for c in classes)
                raise Undecided('isinstance')
            if name in ('len', 'int', 'str', 'bool', 'abs', 'min', 'max', 'list', 'tuple', 'sorted', 'dict', 'set', 'frozenset', 'sum', 'ord', 'chr', 'range', 'zip', 'enumerate'):
                try:
                    r = {'len': len, 'int': int, 'str': str, 'bool': bool, 'abs': abs, 'min': min, 'max': max, 'list': list, 'tuple': tuple, 'sorted': sorted,
                         'dict': dict, 'set': set, 'frozenset': frozenset, 'sum': sum, 'ord': ord, 'chr': chr, 'range': range, 'zip': zip, 'enumerate': enumerate}[name](*args, **kwargs)
                except Undecided:
                    raise
                except Exception as e:
                    raise Undecided('{}(...): {}'.format(name, e))
                return list(r) if name in ('range', 'zip', 'enumerate') else r
            if name in self.facts.funcs:
                return self.call_function(self.facts.funcs[name], args, kwargs)
            raise Undecided('call ' + name)
        if k in ('comp', 'dictcomp'):
            if k == 'comp':
                _, kind, elt, names, it, ifs = v
                key = None
            else:
                _, key, elt, names, it, ifs = v
                kind = 'DictComp'
            names = names.split(',')
            out = []
            for x in self.ev(it):
                if len(names) == 1:
                    extra = {('var', names[0]): x}
                else:
                    x = tuple(x)
                    if len(x) != len(names):
                        raise Undecided('unpacking in comprehension')
                    extra = {('var', n): xv for n, xv in zip(names, x)}
                e = self.with_bindings(extra)
                if all(e.ev(c) for c in ifs):
                    out.append((e.ev(key), e.ev(elt)) if key is not None else e.ev(elt))
            if kind == 'DictComp':
                return dict(out)
            return set(out) if kind == 'SetComp' else out
        raise Undecided('{} value {}'.format(k, str(v)[:60]))


class ClassBody(SymEval):
    """Evaluation inside a class body: bare names refer to earlier class-level assignments first."""

    def __init__(self, facts, cls):
        super().__init__(facts)
        self.cls = cls

    def module_value(self, name):
        for st in self.facts.classes[self.cls].node.body:
            if isinstance(st, ast.Assign) and any(isinstance(t, ast.Name) and t.id == name for t in st.targets):
                w = Walker(self.facts, inline='all')
                return ClassBody(self.facts, self.cls).ev(w.sym(st.value, PathState()))
        return super().module_value(name)


def breakpoints(values, sym, evaluator):
    """Integers at which the truth of some comparison involving `sym` inside the given symbolic values may change.  Every
    comparison that mentions `sym` must have `sym` itself on one side and an evaluable integer on the other (Undecided otherwise):
    the integers then partition the number line into intervals on which all comparisons are constant."""
    from .immsites import find_all, contains
    out = set()
    for v in values:
        for t in find_all(v, lambda t: t[0] == 'cmp' and contains(t, sym)):
            a, b = t[2], t[3]
            if a == sym and not contains(b, sym):
                other = b
            elif b == sym and not contains(a, sym):
                other = a
            else:
                raise Undecided('comparison {} does not compare the value itself'.format(str(t)[:80]))
            c = evaluator.ev(other)
            if isinstance(c, bool) or not isinstance(c, int):
                raise Undecided('the value is compared with {!r}'.format(c))
            out.add(c)
    return out
