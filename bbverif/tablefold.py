"""Module-level tables that are completed after their literal: `T = {...}` followed by `T[k] = v`, `T.update({...})`,
`S.add(x)`, `S |= {...}` ...

`facts` folds the literal (and `T.update(OTHER)` / `S.update(OTHER.keys())` of known tables).  A rule that compares such a table
with a reference must see the *final* content - or know that it cannot: `settle(facts, name)` folds the remaining module-level
statements that modify the table with constant operands into facts.tables / facts.sets / facts.consts (idempotent), and raises
AnalysisError when the name is modified in a way that is not folded (with computed operands, rebound; inside a function unless the
caller only judges the table as it stands after import).
"""
import ast

from .core import AnalysisError
from .astutil import fold, NotConstant, unparse

_MUTATORS = {'update', 'setdefault', 'pop', 'popitem', 'clear', 'add', 'discard', 'remove', 'difference_update', 'intersection_update',
             'symmetric_difference_update', '__setitem__', '__delitem__', '__ior__', '__iand__', '__isub__'}


def _const(node, facts):
    try:
        return fold(node, facts.consts)
    except NotConstant:
        raise AnalysisError('table is modified with a value the rules cannot fold: {}'.format(unparse(node)[:80]))


def settle(facts, name, runtime_writes_matter=True):
    if getattr(facts, '_settled', None) is None:
        facts._settled = set()
    if name in facts._settled:
        return
    is_set = name in facts.sets
    if not is_set and name not in facts.tables:
        return            # the caller reports the vanished anchor
    value = set(facts.sets[name]) if is_set else dict(facts.tables[name])
    first = facts.assign_nodes.get(name)
    module_stmts = {id(st): st for st in facts.tree.body}
    handled = set()
    for st in facts.tree.body:
        # --- statements this function folds -----------------------------------------------------------------------
        if isinstance(st, ast.Assign) and len(st.targets) == 1:
            t = st.targets[0]
            if isinstance(t, ast.Subscript) and isinstance(t.value, ast.Name) and t.value.id == name and not is_set:
                value[_const(t.slice, facts)] = _const(st.value, facts)
                handled.add(id(st))
            continue
        if isinstance(st, ast.AugAssign) and isinstance(st.target, ast.Name) and st.target.id == name:
            if isinstance(st.op, ast.BitOr):
                other = _const(st.value, facts)
                if is_set and isinstance(other, (set, frozenset)):
                    value |= other
                    handled.add(id(st))
                    continue
                if not is_set and isinstance(other, dict):
                    value.update(other)
                    handled.add(id(st))
                    continue
            raise AnalysisError('{} is modified by `{}` (not folded)'.format(name, unparse(st)[:80]))
        if isinstance(st, ast.Delete):
            for t in st.targets:
                if isinstance(t, ast.Subscript) and isinstance(t.value, ast.Name) and t.value.id == name and not is_set:
                    value.pop(_const(t.slice, facts), None)
                    handled.add(id(st))
            continue
        if (isinstance(st, ast.Expr) and isinstance(st.value, ast.Call) and isinstance(st.value.func, ast.Attribute)
                and isinstance(st.value.func.value, ast.Name) and st.value.func.value.id == name):
            call, attr = st.value, st.value.func.attr
            if attr not in _MUTATORS:
                continue
            if attr == 'update':
                for a in call.args:
                    if isinstance(a, ast.Name) and (a.id in facts.tables or a.id in facts.sets):
                        other = facts.sets[a.id] if a.id in facts.sets else facts.tables[a.id]
                    elif (isinstance(a, ast.Call) and isinstance(a.func, ast.Attribute) and a.func.attr == 'keys'
                          and isinstance(a.func.value, ast.Name) and a.func.value.id in facts.tables):
                        other = set(facts.tables[a.func.value.id])
                    else:
                        other = _const(a, facts)
                    if is_set:
                        value |= set(other)
                    else:
                        value.update(dict(other))
                for k in call.keywords:
                    if k.arg is None or is_set:
                        raise AnalysisError('{}.update(**...) is not folded'.format(name))
                    value[k.arg] = _const(k.value, facts)
            elif attr == 'add' and is_set and len(call.args) == 1:
                value.add(_const(call.args[0], facts))
            elif attr in ('discard', 'remove') and is_set and len(call.args) == 1:
                value.discard(_const(call.args[0], facts))
            elif attr == 'setdefault' and not is_set and len(call.args) == 2:
                value.setdefault(_const(call.args[0], facts), _const(call.args[1], facts))
            elif attr == 'pop' and not is_set and call.args:
                value.pop(_const(call.args[0], facts), None)
            else:
                raise AnalysisError('{} is modified by `{}` (not folded)'.format(name, unparse(st)[:80]))
            handled.add(id(st))
    # --- every other place that modifies the name ----------------------------------------------------------------------
    for n in ast.walk(facts.tree):
        bad = None
        if isinstance(n, ast.Subscript) and isinstance(n.value, ast.Name) and n.value.id == name and isinstance(n.ctx, (ast.Store, ast.Del)):
            bad = n
        elif isinstance(n, ast.Name) and n.id == name and isinstance(n.ctx, (ast.Store, ast.Del)):
            par = getattr(n, '_parent', None)
            if par is not first and not (isinstance(par, ast.AugAssign) and id(par) in handled):
                bad = n
        elif (isinstance(n, ast.Call) and isinstance(n.func, ast.Attribute) and n.func.attr in _MUTATORS
              and isinstance(n.func.value, ast.Name) and n.func.value.id == name):
            bad = n
        elif isinstance(n, (ast.Global, ast.Nonlocal)) and name in n.names:
            bad = n
        if bad is None:
            continue
        st = bad
        inside_function = False
        while st is not None and id(st) not in module_stmts:
            inside_function = inside_function or isinstance(st, (ast.FunctionDef, ast.AsyncFunctionDef, ast.Lambda))
            st = getattr(st, '_parent', None)
        inside_function = inside_function or isinstance(st, (ast.FunctionDef, ast.AsyncFunctionDef, ast.ClassDef))
        if inside_function and not runtime_writes_matter:
            continue          # the caller judges the table as it is after import; what a function adds while running is another rule's matter
        if st is not None and id(st) in handled:
            continue
        raise AnalysisError('{} is also modified at line {} (`{}`) in a way the rules do not fold: its final content is not known'.format(
            name, getattr(bad, 'lineno', '?'), unparse(st if st is not None else bad)[:80]))
    if is_set:
        facts.sets[name] = value
    else:
        facts.tables[name] = value
    facts.consts[name] = value
    facts._settled.add(name)
