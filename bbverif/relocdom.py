"""Abstract interpreter for the %hi/%lo arithmetic (sign_extend, relocate_hi, relocate_lo).

The unknown input v is an unbounded two's-complement integer written as
        v = 2**K * SH + sum_{j<K} 2**j * B_j          (B_j in {0,1}, SH any integer, K = 48)
Abstract values are *linear forms* over the atoms B_j and SH (exact integers), or residue wrappers:
        Lin(coefs, const)          exact value
        ModU(lin, m)               value == lin mod 2**m, in [0, 2**m - 1]
        BitOfMod(lin, m)           value == 2**m * (bit m of (lin mod 2**(m+1)))
        SRes(lin, m)               value == lin (mod 2**m), in [-2**(m-1), 2**(m-1) - 1]
A branch on a single bit substitutes that bit on each arm; arms are re-joined as  f + B * (t - f)  when t - f is a
constant.  No path conditions are kept, no solver is used; every operation is closed-form arithmetic on coefficients.
"""
import ast

from .core import AnalysisError
from .astutil import fold, NotConstant, unparse, dotted

K = 48
SH = 'SH'


class Unsupported(AnalysisError):
    pass


class Lin:
    def __init__(self, coefs=None, const=0):
        self.coefs = {a: c for a, c in (coefs or {}).items() if c != 0}
        self.const = const

    @staticmethod
    def v():
        c = {j: 1 << j for j in range(K)}
        c[SH] = 1 << K
        return Lin(c, 0)

    def __add__(self, o):
        if isinstance(o, int):
            return Lin(self.coefs, self.const + o)
        c = dict(self.coefs)
        for a, x in o.coefs.items():
            c[a] = c.get(a, 0) + x
        return Lin(c, self.const + o.const)

    def __neg__(self):
        return Lin({a: -x for a, x in self.coefs.items()}, -self.const)

    def __sub__(self, o):
        return self + (-o if isinstance(o, Lin) else -o)

    def scale(self, k):
        return Lin({a: x * k for a, x in self.coefs.items()}, self.const * k)

    def is_const(self):
        return not self.coefs

    def range(self):
        lo = hi = self.const
        for a, c in self.coefs.items():
            if a == SH:
                return (None, None)
            if c > 0:
                hi += c
            else:
                lo += c
        return lo, hi

    def split(self, m):
        """(part whose coefficients are divisible by 2**m, rest)."""
        mod = 1 << m
        hi, lo = {}, {}
        for a, c in self.coefs.items():
            q = (c // mod) * mod          # c * atom == q * atom + (c - q) * atom, with 0 <= c - q < mod
            if q:
                hi[a] = q
            if c - q:
                lo[a] = c - q
        chi = (self.const // mod) * mod
        return Lin(hi, chi), Lin(lo, self.const - chi)

    def subst(self, atom, val):
        if atom not in self.coefs:
            return self
        c = dict(self.coefs)
        k = c.pop(atom)
        return Lin(c, self.const + k * val)

    def div_exact(self, m):
        mod = 1 << m
        assert all(c % mod == 0 for c in self.coefs.values()) and self.const % mod == 0
        return Lin({a: c // mod for a, c in self.coefs.items()}, self.const // mod)

    def congruent_zero(self, m):
        mod = 1 << m
        return all(c % mod == 0 for c in self.coefs.values()) and self.const % mod == 0

    def __eq__(self, o):
        return isinstance(o, Lin) and self.coefs == o.coefs and self.const == o.const

    def __repr__(self):
        parts = []
        if self.const:
            parts.append(str(self.const))
        # compress runs of bits with coefficient 2**(j-s)
        for a, c in sorted(self.coefs.items(), key=lambda t: (t[0] == SH, t[0] if t[0] != SH else 0)):
            parts.append('{}*{}'.format(c, 'SH' if a == SH else 'b{}'.format(a)))
        if len(parts) > 6:
            parts = parts[:3] + ['...'] + parts[-2:]
        return ' + '.join(parts) or '0'


class ModU:
    def __init__(self, lin, m):
        self.lin, self.m = lin.split(m)[1], m


class BitOfMod:
    def __init__(self, lin, m):
        self.lin, self.m = lin, m


class SRes:
    def __init__(self, lin, m):
        self.lin, self.m = lin.split(m)[1], m


class XorTop:
    """value == u ^ 2**(m-1) for u == lin mod 2**m in [0, 2**m - 1]  (the sign bit of an m-bit field flipped)"""

    def __init__(self, lin, m):
        self.lin, self.m = lin.split(m)[1], m


class XorAbove:
    """value == base + bit, for a base known to lie in [0, bit): base ^ bit with the bit above the base's width"""

    def __init__(self, base, bit):
        self.base, self.bit = base, bit


def mask_low(x, m):
    """x & (2**m - 1)"""
    if isinstance(x, Lin):
        _, rest = x.split(m)
        lo, hi = rest.range()
        if lo is not None and lo >= 0 and hi <= (1 << m) - 1:
            return rest
        return ModU(x, m)
    if isinstance(x, ModU):
        if m >= x.m:
            return x
        return mask_low(x.lin, m)
    raise Unsupported('mask of {}'.format(type(x).__name__))


def bit_of(x, m):
    """x & 2**m  (value 0 or 2**m)"""
    if isinstance(x, ModU):
        if m >= x.m:
            return Lin({}, 0)
        r = bit_of_lin(x.lin, m, strict=False)
        return r if r is not None else BitOfMod(x.lin, m)
    if isinstance(x, Lin):
        r = bit_of_lin(x, m, strict=True)
        return r
    raise Unsupported('bit test of {}'.format(type(x).__name__))


def bit_of_lin(x, m, strict):
    _, rest = x.split(m + 1)
    lo, hi = rest.range()
    if lo is None or lo < 0 or hi > (1 << (m + 1)) - 1:
        if strict:
            raise Unsupported('bit {} of a form whose low part may carry: {}'.format(m, rest))
        return None
    mid, low = rest.split(m)
    llo, lhi = low.range()
    if llo < 0 or lhi > (1 << m) - 1:
        if strict:
            raise Unsupported('bit {} of a form whose low part may carry: {}'.format(m, rest))
        return None
    q = mid.div_exact(m)
    if q.is_const() and q.const in (0, 1):
        return Lin({}, q.const << m)
    if q.const == 0 and len(q.coefs) == 1 and list(q.coefs.values()) == [1]:
        return mid
    if strict:
        raise Unsupported('bit {} is not a single atom: {}'.format(m, q))
    return None


def shift_right(x, k):
    if isinstance(x, Lin):
        hi, rest = x.split(k)
        lo, h = rest.range()
        if lo is None or lo < 0 or h > (1 << k) - 1:
            # rounding shift  (v + 2**(k-1)) >> k : the low part is  B + 2**(k-1)  with B the low k bits; it carries exactly when
            # bit k-1 of B is set
            half = 1 << (k - 1) if k >= 1 else None
            if half is not None and rest.const == half and all(c > 0 for c in rest.coefs.values()) and SH not in rest.coefs:
                tops = [a for a, c in rest.coefs.items() if c == half]
                others = sum(c for a, c in rest.coefs.items() if c != half)
                if len(tops) == 1 and others <= half - 1 and all(c < half for a, c in rest.coefs.items() if a != tops[0]):
                    return hi.div_exact(k) + Lin({tops[0]: 1}, 0)
            raise Unsupported('>> {} of a form whose low part may carry: {}'.format(k, rest))
        return hi.div_exact(k)
    if isinstance(x, ModU):
        if k >= x.m:
            return Lin({}, 0)
        raise Unsupported('>> of a residue')
    raise Unsupported('>> of {}'.format(type(x).__name__))


def bounds_in_region(lin, region):
    """(lo, hi) of a linear form when SH is negative / zero / positive (None = unbounded)."""
    lo = hi = lin.const
    for a, c in lin.coefs.items():
        if a == SH:
            continue
        if c > 0:
            hi += c
        else:
            lo += c
    cs = lin.coefs.get(SH, 0)
    if cs == 0 or region == 'zero':
        return lo, hi
    if region == 'neg':          # SH <= -1
        return (None, hi - cs) if cs > 0 else (lo - cs, None)
    if region == 'pos':          # SH >= 1
        return (lo + cs, None) if cs > 0 else (None, hi + cs)
    return None, None


class Record:
    """value of a namedtuple / plain tuple built from arithmetic values: positional items, optional field names"""

    def __init__(self, items, names=None):
        self.items, self.names = list(items), list(names) if names else None

    def field(self, name):
        if self.names and name in self.names and self.names.index(name) < len(self.items):
            return self.items[self.names.index(name)]
        return None


def record_fields(facts, name):
    """Field names of a module-level `Name = namedtuple('Name', [...] | 'a b')` (collections / typing spelling), or of a
    `class Name(NamedTuple)` with annotated fields; None when `name` is something else."""
    st = facts.assign_nodes.get(name)
    if isinstance(st, ast.Assign) and isinstance(st.value, ast.Call) and dotted(st.value.func) in ('namedtuple', 'collections.namedtuple') \
            and len(st.value.args) >= 2:
        try:
            spec = fold(st.value.args[1])
        except NotConstant:
            return None
        if isinstance(spec, str):
            spec = spec.replace(',', ' ').split()
        if isinstance(spec, (list, tuple)) and all(isinstance(x, str) for x in spec):
            return list(spec)
        return None
    ci = facts.classes.get(name)
    if ci is not None and any(b in ('NamedTuple', 'typing.NamedTuple') for b in ci.bases):
        fields = []
        for b in ci.node.body:
            if isinstance(b, ast.AnnAssign) and isinstance(b.target, ast.Name):
                fields.append(b.target.id)
            elif isinstance(b, ast.Assign) and len(b.targets) == 1 and isinstance(b.targets[0], ast.Name) and not b.targets[0].id.startswith('_'):
                fields.append(b.targets[0].id)
        return fields or None
    return None


class Interp:
    def __init__(self, facts):
        self.facts = facts
        self.call_hook = None       # Call node -> value for calls that stand for the input (the inner evaluation in Hi.eval / Lo.eval)

    def call_regions(self, fname, args):
        """Like call(), but an `if <linear form> <op> <constant>` at the top level of the function splits the input space into
        regions (sign of the unbounded part, then the high bits); returns [(region description, value)]."""
        f = self.facts.funcs.get(fname)
        if f is None:
            raise AnalysisError('anchor vanished: function {}'.format(fname))
        params = [a.arg for a in f.args.args]
        env = dict(zip(params, args))
        return self.block_regions(list(f.body), env, fname, [], {}, None)

    def block_regions(self, body, env, fname, region, subst, sh_state):
        for i, st in enumerate(body):
            if isinstance(st, ast.If) and isinstance(st.test, ast.BoolOp) and len(st.test.values) >= 2:
                # A and B  ->  if A: (if B: body else: orelse) else: orelse     /     A or B  ->  if A: body else: (if B: ...)
                first = st.test.values[0]
                rest_t = st.test.values[1] if len(st.test.values) == 2 else ast.BoolOp(op=st.test.op, values=st.test.values[1:])
                if isinstance(st.test.op, ast.And):
                    inner = ast.If(test=rest_t, body=st.body, orelse=st.orelse)
                    new = ast.If(test=first, body=[inner], orelse=st.orelse)
                else:
                    inner = ast.If(test=rest_t, body=st.body, orelse=st.orelse)
                    new = ast.If(test=first, body=st.body, orelse=[inner])
                return self.block_regions([new] + list(body[i + 1:]), env, fname, region, subst, sh_state)
            if isinstance(st, ast.If) and isinstance(st.test, ast.Compare) and len(st.test.ops) == 1 \
                    and isinstance(st.test.ops[0], (ast.Lt, ast.LtE, ast.Gt, ast.GtE)):
                left = self.ev(st.test.left, env, fname, 0)
                right = self.ev(st.test.comparators[0], env, fname, 0)
                if isinstance(left, int) and isinstance(right, Lin):
                    left, right = right, left
                    op = {ast.Lt: ast.Gt, ast.LtE: ast.GtE, ast.Gt: ast.Lt, ast.GtE: ast.LtE}[type(st.test.ops[0])]
                else:
                    op = type(st.test.ops[0])
                if isinstance(left, Lin) and isinstance(right, int) and not left.is_const():
                    rest = body[i + 1:]
                    out = []
                    for reg, sub in self.split_compare(left, op, right, fname, sh_state):
                        e2 = {}
                        for k, v in env.items():
                            if isinstance(v, Lin):
                                for atom, val in sub['subst'].items():
                                    v = v.subst(atom, val)
                            e2[k] = v
                        branch = st.body if sub['truth'] else st.orelse
                        s2 = dict(subst)
                        s2.update(sub['subst'])
                        out.extend(self.block_regions(list(branch) + list(rest), e2, fname, region + ([reg] if reg else []), s2,
                                                      sub.get('sh', sh_state)))
                    return out
            if isinstance(st, ast.Return):
                return [(' and '.join(region) or 'all v', dict(subst), self.ev(st.value, env, fname, 0))]
            # every other statement: single-valued semantics of block() for one statement
            if isinstance(st, ast.If):
                # delegate the remainder (bit tests re-join linearly)
                return [(' and '.join(region) or 'all v', dict(subst), self.block(body[i:], env, fname, 0))]
            self.block_noreturn_stmt(st, env, fname)
        raise Unsupported('{}: falls off the end'.format(fname))

    def block_noreturn_stmt(self, st, env, fname):
        sentinel = ast.Return(value=ast.Constant(value=0))
        self.block([st, sentinel], env, fname, 0)

    def split_compare(self, lin, op, c, fname, sh_state=None):
        """[(region text, {'truth': bool, 'subst': {atom: value}})] covering all integers v."""
        def decide(lo, hi):
            if op is ast.Lt:
                return True if (hi is not None and hi < c) else (False if (lo is not None and lo >= c) else None)
            if op is ast.LtE:
                return True if (hi is not None and hi <= c) else (False if (lo is not None and lo > c) else None)
            if op is ast.Gt:
                return True if (lo is not None and lo > c) else (False if (hi is not None and hi <= c) else None)
            return True if (lo is not None and lo >= c) else (False if (hi is not None and hi < c) else None)
        out = []
        if SH in lin.coefs and sh_state in ('neg', 'pos'):
            d = decide(*bounds_in_region(lin, sh_state))
            if d is None:
                raise Unsupported('{}: comparison with {} undecided in region {}'.format(fname, c, sh_state))
            return [(None, {'truth': d, 'subst': {}, 'sh': sh_state})]
        if SH in lin.coefs:
            for reg, text in (('neg', 'v < 0 (negative spellings)'), ('pos', 'v >= 2^{}'.format(K))):
                d = decide(*bounds_in_region(lin, reg))
                if d is None:
                    raise Unsupported('{}: comparison with {} undecided for {}'.format(fname, c, text))
                out.append((text, {'truth': d, 'subst': {}, 'sh': reg}))
            lin0 = lin.subst(SH, 0)
            sub0 = {SH: 0}
        else:
            lin0, sub0 = lin, {}
        lo, hi = lin0.range()
        d = decide(lo, hi)
        if d is not None:
            out.append(('0 <= v < 2^{}'.format(K), {'truth': d, 'subst': dict(sub0)}))
            return out
        # bit-disjoint non-negative form against a power of two: v < 2^k  <=>  all bits >= k are zero
        strict = c if op in (ast.Lt, ast.GtE) else c + 1        # compare as  form < strict  /  form >= strict
        if strict <= 0 or strict & (strict - 1) or lin0.const != 0 or any(cf <= 0 or cf & (cf - 1) for cf in lin0.coefs.values()) \
                or len(set(lin0.coefs.values())) != len(lin0.coefs):
            raise Unsupported('{}: comparison of {} with {} is not a power-of-two threshold on a bit-disjoint form'.format(fname, lin0, c))
        high = {a: 0 for a, cf in lin0.coefs.items() if cf >= strict}
        below = op in (ast.Lt, ast.LtE)
        s1 = dict(sub0)
        s1.update(high)
        out.append(('0 <= v < {}'.format(strict), {'truth': below, 'subst': s1}))
        out.append(('{} <= v < 2^{}'.format(strict, K), {'truth': not below, 'subst': dict(sub0)}))
        return out

    def call(self, fname, args, depth=0):
        f = self.facts.funcs.get(fname)
        if f is None:
            raise AnalysisError('anchor vanished: function {}'.format(fname))
        params = [a.arg for a in f.args.args]
        if len(params) != len(args):
            raise Unsupported('{}: arity'.format(fname))
        env = dict(zip(params, args))
        return self.block(f.body, env, fname, depth)

    def block(self, body, env, fname, depth):
        for i, st in enumerate(body):
            if isinstance(st, ast.Return):
                return self.ev(st.value, env, fname, depth)
            if isinstance(st, ast.Assign) and len(st.targets) == 1 and isinstance(st.targets[0], ast.Name):
                env[st.targets[0].id] = self.ev(st.value, env, fname, depth)
            elif isinstance(st, ast.Assign) and len(st.targets) == 1 and isinstance(st.targets[0], (ast.Tuple, ast.List)) \
                    and all(isinstance(t, ast.Name) for t in st.targets[0].elts):
                v = self.ev(st.value, env, fname, depth)
                if not (isinstance(v, Record) and len(v.items) == len(st.targets[0].elts)):
                    raise Unsupported('{}: statement form {}'.format(fname, unparse(st).split('\n')[0]))
                for t, x in zip(st.targets[0].elts, v.items):
                    env[t.id] = x
            elif isinstance(st, ast.AugAssign) and isinstance(st.target, ast.Name):
                fake = ast.BinOp(left=ast.Name(id=st.target.id, ctx=ast.Load()), op=st.op, right=st.value)
                env[st.target.id] = self.ev(fake, env, fname, depth)
            elif isinstance(st, ast.If):
                rest = body[i + 1:]
                cond = self.ev(st.test, env, fname, depth)
                if isinstance(cond, Lin) and cond.is_const():
                    branch = st.body if cond.const else st.orelse
                    return self.block(list(branch) + list(rest), env, fname, depth)
                if isinstance(cond, int):
                    branch = st.body if cond else st.orelse
                    return self.block(list(branch) + list(rest), env, fname, depth)
                bt = as_bit_test(cond)
                if bt is None:
                    raise Unsupported('{}: branch on {} is not a single-bit test'.format(fname, unparse(st.test)))
                atom, pol = bt
                if not pol:
                    st = ast.If(test=st.test, body=st.orelse, orelse=st.body)
                has_return = any(isinstance(n, ast.Return) for b in (st.body, st.orelse) for x in b for n in ast.walk(x))
                if has_return:
                    outs = []
                    for val, branch in ((1, st.body), (0, st.orelse)):
                        e2 = {k: (v.subst(atom, val) if isinstance(v, Lin) else v) for k, v in env.items()}
                        outs.append(self.block(list(branch) + list(rest), e2, fname, depth))
                    return join_on_bit(atom, outs[0], outs[1], fname)
                envs = []
                for val, branch in ((1, st.body), (0, st.orelse)):
                    e2 = {k: (v.subst(atom, val) if isinstance(v, Lin) else v) for k, v in env.items()}
                    self.block_noreturn(branch, e2, fname, depth)
                    envs.append(e2)
                for k in set(envs[0]) | set(envs[1]):
                    if k in envs[0] and k in envs[1]:
                        a, b = envs[0][k], envs[1][k]
                        if isinstance(a, int) and isinstance(b, int) and a == b:
                            env[k] = a
                        else:
                            a = Lin({}, a) if isinstance(a, int) else a
                            b = Lin({}, b) if isinstance(b, int) else b
                            env[k] = join_on_bit(atom, a, b, fname)
                    else:
                        env.pop(k, None)
            elif isinstance(st, ast.Expr) and isinstance(st.value, ast.Constant):
                continue
            else:
                raise Unsupported('{}: statement form {}'.format(fname, unparse(st).split('\n')[0]))
        raise Unsupported('{}: falls off the end'.format(fname))

    def block_noreturn(self, body, env, fname, depth):
        sentinel = ast.Return(value=ast.Constant(value=0))
        self.block(list(body) + [sentinel], env, fname, depth)

    def ev(self, node, env, fname, depth):
        if isinstance(node, ast.Name):
            if node.id in env:
                return env[node.id]
            if node.id in self.facts.consts and isinstance(self.facts.consts[node.id], int):
                return self.facts.consts[node.id]
            raise Unsupported('{}: unbound name {}'.format(fname, node.id))
        if isinstance(node, ast.Constant) and isinstance(node.value, int):
            return node.value
        if isinstance(node, ast.UnaryOp) and isinstance(node.op, ast.USub):
            v = self.ev(node.operand, env, fname, depth)
            return -v if isinstance(v, (int, Lin)) else self._unsup(fname, node)
        if isinstance(node, ast.BinOp):
            a = self.ev(node.left, env, fname, depth)
            b = self.ev(node.right, env, fname, depth)
            return self.binop(type(node.op), a, b, fname, node)
        if isinstance(node, ast.Compare) and len(node.ops) == 1:
            # (v & 0x800) != 0, (v & 0x800) == 0x800, (v >> 11) & 1 == 1: the truth value is the bit (or its negation)
            left = self.ev(node.left, env, fname, depth)
            right = self.ev(node.comparators[0], env, fname, depth)
            if isinstance(left, Lin) and left.is_const():
                left = left.const
            if isinstance(right, Lin) and right.is_const():
                right = right.const
            if isinstance(left, int) and isinstance(right, int):
                try:
                    return int(bool(fold(ast.Compare(left=ast.Constant(value=left), ops=node.ops, comparators=[ast.Constant(value=right)]))))
                except NotConstant:
                    return self._unsup(fname, node)
            r = compare_bit(left, type(node.ops[0]), right)
            return r if r is not None else self._unsup(fname, node)
        if isinstance(node, ast.UnaryOp) and isinstance(node.op, ast.Not):
            v = self.ev(node.operand, env, fname, depth)
            if isinstance(v, Lin) and v.is_const():
                v = v.const
            if isinstance(v, int):
                return int(not v)
            bt = as_bit_test(v)
            if bt is None:
                return self._unsup(fname, node)
            return Lin({bt[0]: -1}, 1) if bt[1] else Lin({bt[0]: 1}, 0)
        if isinstance(node, ast.Call) and isinstance(node.func, ast.Name) and node.func.id == 'bool' and 'bool' not in self.facts.funcs \
                and len(node.args) == 1 and not node.keywords:
            v = self.ev(node.args[0], env, fname, depth)
            if isinstance(v, Lin) and v.is_const():
                v = v.const
            if isinstance(v, int):
                return int(bool(v))
            bt = as_bit_test(v)
            if bt is None:
                return self._unsup(fname, node)
            return Lin({bt[0]: 1}, 0) if bt[1] else Lin({bt[0]: -1}, 1)
        if isinstance(node, ast.IfExp):
            # a if t else b  with t a constant or a single-bit test: the two arms re-joined linearly on that bit
            cond = self.ev(node.test, env, fname, depth)
            if isinstance(cond, Lin) and cond.is_const():
                cond = cond.const
            if isinstance(cond, int):
                return self.ev(node.body if cond else node.orelse, env, fname, depth)
            bt = as_bit_test(cond)
            if bt is None:
                raise Unsupported('{}: condition of `{}` is not a single-bit test'.format(fname, unparse(node)))
            atom, pol = bt
            outs = []
            for val, arm in ((1, node.body if pol else node.orelse), (0, node.orelse if pol else node.body)):
                e2 = {k: (v.subst(atom, val) if isinstance(v, Lin) else v) for k, v in env.items()}
                r = self.ev(arm, e2, fname, depth)
                outs.append(Lin({}, r) if isinstance(r, int) else r)
            return join_on_bit(atom, outs[0], outs[1], fname)
        if isinstance(node, ast.Call) and self.call_hook is not None:
            hooked = self.call_hook(node)
            if hooked is not None:
                return hooked
        if isinstance(node, ast.Tuple) and not any(isinstance(e, ast.Starred) for e in node.elts):
            return Record([self.ev(e, env, fname, depth) for e in node.elts])
        if isinstance(node, ast.Call) and isinstance(node.func, ast.Name) and node.func.id not in env and node.func.id not in self.facts.funcs:
            names = record_fields(self.facts, node.func.id)
            if names is not None and not any(isinstance(a, ast.Starred) for a in node.args) and all(k.arg in names for k in node.keywords):
                # a result record: HiLo(hi, lo) - both halves computed by one helper
                items = [self.ev(a, env, fname, depth) for a in node.args]
                kw = {k.arg: self.ev(k.value, env, fname, depth) for k in node.keywords}
                if len(items) + len(kw) == len(names) and not any(n in kw for n in names[:len(items)]):
                    return Record(items + [kw[n] for n in names[len(items):]], names)
        if isinstance(node, ast.Attribute):
            base = self.ev(node.value, env, fname, depth)
            if isinstance(base, Record) and base.field(node.attr) is not None:
                return base.field(node.attr)
            return self._unsup(fname, node)
        if isinstance(node, ast.Subscript) and not isinstance(node.slice, ast.Slice):
            base = self.ev(node.value, env, fname, depth)
            idx = self.ev(node.slice, env, fname, depth)
            if isinstance(base, Record) and isinstance(idx, int) and -len(base.items) <= idx < len(base.items):
                return base.items[idx]
            return self._unsup(fname, node)
        if isinstance(node, ast.Call) and isinstance(node.func, ast.Name) and node.func.id in self.facts.funcs:
            if depth > 4:
                raise Unsupported('inlining depth')
            args = [self.ev(a, env, fname, depth) for a in node.args]
            if node.keywords:
                f = self.facts.funcs[node.func.id]
                params = [a.arg for a in f.args.args]
                full = list(args) + [None] * (len(params) - len(args))
                for kw in node.keywords:
                    if kw.arg not in params:
                        raise Unsupported('keyword {}'.format(kw.arg))
                    full[params.index(kw.arg)] = self.ev(kw.value, env, fname, depth)
                args = full
            return self.call(node.func.id, args, depth + 1)
        return self._unsup(fname, node)

    def _unsup(self, fname, node):
        raise Unsupported('{}: expression outside the %hi/%lo arithmetic fragment: {}'.format(fname, unparse(node)))

    def binop(self, op, a, b, fname, node):
        if isinstance(a, int) and isinstance(b, int):
            try:
                return fold(ast.BinOp(left=ast.Constant(value=a), op=op(), right=ast.Constant(value=b)))
            except NotConstant:
                return self._unsup(fname, node)
        if op is ast.BitXor:
            if isinstance(a, int):
                a, b = b, a
            if isinstance(b, int) and b > 0 and b & (b - 1) == 0:
                m = b.bit_length()
                if isinstance(a, ModU) and a.m == m:
                    return XorTop(a.lin, m)
                if isinstance(a, ModU) and a.m < m:
                    return XorAbove(a, b)
                if isinstance(a, Lin):
                    lo, hi = a.range()
                    if lo is not None and lo >= 0 and hi <= (1 << m) - 1:
                        return XorTop(a, m)
            return self._unsup(fname, node)
        if op is ast.Sub and isinstance(a, XorAbove) and isinstance(b, int) and b == a.bit:
            return a.base
        if op is ast.Sub and isinstance(a, XorTop) and isinstance(b, int) and b == 1 << (a.m - 1):
            # ((u ^ s) - s) for u in [0, 2s) is u when u < s and u - 2s otherwise: the signed residue
            return SRes(a.lin, a.m)
        if op in (ast.Add, ast.Sub):
            if isinstance(a, ModU) and isinstance(b, BitOfMod) and op is ast.Sub and a.m == b.m and \
                    (a.lin - b.lin).congruent_zero(a.m):
                return SRes(b.lin, a.m + 1)
            if isinstance(a, ModU) and isinstance(b, Lin) and b.is_const() and b.const == 0:
                return a
            la = Lin({}, a) if isinstance(a, int) else a
            lb = Lin({}, b) if isinstance(b, int) else b
            if isinstance(la, Lin) and isinstance(lb, Lin):
                return la + lb if op is ast.Add else la - lb
            return self._unsup(fname, node)
        if op is ast.BitAnd:
            if isinstance(a, int):
                a, b = b, a
            if isinstance(b, int) and b >= 0:
                if b & (b + 1) == 0:
                    return mask_low(a, b.bit_length())
                if b & (b - 1) == 0:
                    return bit_of(a, b.bit_length() - 1)
            return self._unsup(fname, node)
        if op is ast.RShift and isinstance(b, int) and b >= 0:
            return shift_right(a, b)
        if op is ast.FloorDiv and isinstance(b, int) and b > 0 and b & (b - 1) == 0:
            return shift_right(a, b.bit_length() - 1)          # floor division by 2**k is the arithmetic shift
        if op is ast.Mod and isinstance(b, int) and b > 0 and b & (b - 1) == 0:
            return mask_low(a, b.bit_length() - 1)             # x % 2**k == x & (2**k - 1) for every integer x
        if op is ast.LShift and isinstance(b, int) and 0 <= b < 64 and isinstance(a, Lin):
            return a.scale(1 << b)
        if op is ast.Mult and isinstance(b, int) and isinstance(a, Lin):
            return a.scale(b)
        if op is ast.Mult and isinstance(a, int) and isinstance(b, Lin):
            return b.scale(a)
        return self._unsup(fname, node)


def as_bit_test(cond):
    """(atom, polarity) when the truth of `cond` is one input bit (polarity True) or its negation: c*b with c != 0 is true iff
    b is set; the 0 / 1 forms b and 1 - b produced by comparisons of a single-bit value."""
    if isinstance(cond, Lin) and len(cond.coefs) == 1:
        (atom, coef), = cond.coefs.items()
        if atom != SH and coef != 0:
            if cond.const == 0:
                return atom, True
            if cond.const == 1 and coef == -1:
                return atom, False
    return None


def compare_bit(left, op, right):
    """Truth value (as a 0 / 1 linear form) of `left <op> right` for a single-bit value left = c*b (c > 0) and a constant."""
    if isinstance(left, int) and isinstance(right, Lin):
        left, right = right, left
        op = {ast.Lt: ast.Gt, ast.LtE: ast.GtE, ast.Gt: ast.Lt, ast.GtE: ast.LtE}.get(op, op)
    if not (isinstance(left, Lin) and isinstance(right, int) and left.const == 0 and len(left.coefs) == 1):
        return None
    (atom, c), = left.coefs.items()
    if atom == SH or c <= 0:
        return None
    bit, nbit = Lin({atom: 1}, 0), Lin({atom: -1}, 1)
    outcomes = {v: {ast.Eq: v == right, ast.NotEq: v != right, ast.Lt: v < right, ast.LtE: v <= right, ast.Gt: v > right,
                    ast.GtE: v >= right}.get(op) for v in (0, c)}
    if None in outcomes.values():
        return None
    if outcomes[0] == outcomes[c]:
        return int(outcomes[0])
    return bit if outcomes[c] else nbit


def join_on_bit(atom, t, f, fname):
    if isinstance(t, Record) and isinstance(f, Record) and len(t.items) == len(f.items) and t.names == f.names:
        return Record([join_on_bit(atom, Lin({}, x) if isinstance(x, int) else x, Lin({}, y) if isinstance(y, int) else y, fname)
                       for x, y in zip(t.items, f.items)], t.names)
    if type(t) != type(f):
        raise Unsupported('{}: arms of a bit test produce different kinds of value'.format(fname))
    if isinstance(t, Lin):
        d = t - f
        if not d.is_const():
            raise Unsupported('{}: arms of a bit test differ by a non-constant'.format(fname))
        return f + Lin({atom: d.const}, 0)
    if isinstance(t, (ModU, SRes, BitOfMod)):
        if t.m != f.m:
            raise Unsupported('{}: arms differ in width'.format(fname))
        d = t.lin - f.lin
        if not d.is_const():
            raise Unsupported('{}: arms of a bit test differ by a non-constant'.format(fname))
        return type(t)(f.lin + Lin({atom: d.const}, 0), t.m)
    raise Unsupported('{}: cannot join {}'.format(fname, type(t).__name__))


def congruence_and_range(x):
    """(linear form L, m, lo, hi): value == L (mod 2**m) [m None = exact] and lo <= value <= hi."""
    if isinstance(x, Lin):
        lo, hi = x.range()
        return x, None, lo, hi
    if isinstance(x, ModU):
        return x.lin, x.m, 0, (1 << x.m) - 1
    if isinstance(x, SRes):
        return x.lin, x.m, -(1 << (x.m - 1)), (1 << (x.m - 1)) - 1
    if isinstance(x, int):
        return Lin({}, x), None, x, x
    raise Unsupported('result kind {}'.format(type(x).__name__))


# ---------------------------------------------------------------------------------------------------------------------------------
# Concrete refutation.  When a spelling of the %hi / %lo arithmetic leaves the linear-form fragment nothing is proved - but the code
# can still be positively wrong.  The analyser's own evaluator of the pure integer fragment (Python's unbounded ints: the host's int
# arithmetic *is* the semantics; nothing of the analysed module is imported or run) computes the function on a fixed sample of inputs:
# every value of the low 13 bits (the carry out of bit 11 and its neighbour) in each class of upper bits where a wrap can occur.  A
# sample that contradicts the specification is a counterexample, hence a finding; agreement on the sample is no proof and stays a
# no-verdict.
class NotConcrete(Exception):
    pass


class _Return(Exception):
    def __init__(self, value):
        self.value = value


SAMPLE_BASES = (0, 0x2000, 0x7fffe000, 0x80000000, 0xffffe000, 1 << 32, (1 << 35) + 0x4000, -0x2000, -0x80000000, -(1 << 32) - 0x2000, -(1 << 36))


def sample_values():
    for base in SAMPLE_BASES:
        for low in range(1 << 13):
            yield base + low


class Concrete:
    """Evaluator of straight-line / branching integer code: names, int constants, + - * // % ** << >> & | ^ ~ and unary minus,
    comparisons, and / or / not, conditional expressions, bool() / int() / abs() / min() / max() of ints, c_int32(x).value /
    c_uint32(x).value, calls of module-level functions of the same fragment (inlined), Assign / AugAssign / If / Return / pass."""

    def __init__(self, facts, call_hook=None, max_depth=6):
        self.facts = facts
        self.call_hook = call_hook
        self.max_depth = max_depth

    def run(self, body, env, depth=0):
        try:
            self.block(body, env, depth)
        except _Return as r:
            return r.value
        raise NotConcrete('falls off the end')

    def block(self, body, env, depth):
        for st in body:
            if isinstance(st, ast.Return):
                raise _Return(self.ev(st.value, env, depth) if st.value is not None else None)
            if isinstance(st, ast.Assign) and len(st.targets) == 1 and isinstance(st.targets[0], ast.Name):
                env[st.targets[0].id] = self.ev(st.value, env, depth)
            elif isinstance(st, ast.Assign) and len(st.targets) == 1 and isinstance(st.targets[0], (ast.Tuple, ast.List)) \
                    and all(isinstance(t, ast.Name) for t in st.targets[0].elts):
                v = self.ev(st.value, env, depth)
                if not (isinstance(v, Record) and len(v.items) == len(st.targets[0].elts)):
                    raise NotConcrete('unpacking')
                for t, x in zip(st.targets[0].elts, v.items):
                    env[t.id] = x
            elif isinstance(st, ast.AugAssign) and isinstance(st.target, ast.Name):
                env[st.target.id] = self.binop(type(st.op), self.ev(ast.Name(id=st.target.id, ctx=ast.Load()), env, depth),
                                               self.ev(st.value, env, depth))
            elif isinstance(st, ast.If):
                self.block(st.body if self.ev(st.test, env, depth) else st.orelse, env, depth)
            elif isinstance(st, ast.Pass) or (isinstance(st, ast.Expr) and isinstance(st.value, ast.Constant)):
                continue
            else:
                raise NotConcrete('statement {}'.format(type(st).__name__))

    def binop(self, op, a, b):
        if not (isinstance(a, int) and isinstance(b, int)):
            raise NotConcrete('non-integer operand')
        if op in (ast.LShift, ast.Pow) and not 0 <= b <= 4096:
            raise NotConcrete('shift / power out of range')
        if op is ast.RShift and b < 0:
            raise NotConcrete('negative shift')
        if op in (ast.FloorDiv, ast.Mod) and b == 0:
            raise NotConcrete('division by zero')
        f = {ast.Add: lambda: a + b, ast.Sub: lambda: a - b, ast.Mult: lambda: a * b, ast.FloorDiv: lambda: a // b, ast.Mod: lambda: a % b,
             ast.Pow: lambda: a ** b, ast.LShift: lambda: a << b, ast.RShift: lambda: a >> b, ast.BitAnd: lambda: a & b,
             ast.BitOr: lambda: a | b, ast.BitXor: lambda: a ^ b}.get(op)
        if f is None:
            raise NotConcrete('operator {}'.format(op.__name__))
        return f()

    def ev(self, node, env, depth):
        if isinstance(node, ast.Constant):
            if isinstance(node.value, (int, bool)):
                return int(node.value) if isinstance(node.value, bool) else node.value
            raise NotConcrete('constant {!r}'.format(node.value))
        if isinstance(node, ast.Name):
            if node.id in env:
                return env[node.id]
            if node.id not in self.facts.poison and node.id in self.facts.consts and isinstance(self.facts.consts[node.id], int):
                return self.facts.consts[node.id]
            raise NotConcrete('name {}'.format(node.id))
        if isinstance(node, ast.BinOp):
            return self.binop(type(node.op), self.ev(node.left, env, depth), self.ev(node.right, env, depth))
        if isinstance(node, ast.UnaryOp):
            v = self.ev(node.operand, env, depth)
            if isinstance(node.op, ast.USub):
                return -v
            if isinstance(node.op, ast.UAdd):
                return +v
            if isinstance(node.op, ast.Invert):
                return ~v
            return int(not v)
        if isinstance(node, ast.BoolOp):
            v = None
            for x in node.values:
                v = self.ev(x, env, depth)
                if isinstance(node.op, ast.And) and not v:
                    return v
                if isinstance(node.op, ast.Or) and v:
                    return v
            return v
        if isinstance(node, ast.Compare):
            left = self.ev(node.left, env, depth)
            for op, comp in zip(node.ops, node.comparators):
                right = self.ev(comp, env, depth)
                f = {ast.Eq: left == right, ast.NotEq: left != right, ast.Lt: left < right, ast.LtE: left <= right, ast.Gt: left > right,
                     ast.GtE: left >= right}.get(type(op))
                if f is None:
                    raise NotConcrete('comparison {}'.format(type(op).__name__))
                if not f:
                    return 0
                left = right
            return 1
        if isinstance(node, ast.IfExp):
            return self.ev(node.body if self.ev(node.test, env, depth) else node.orelse, env, depth)
        if isinstance(node, ast.Attribute) and node.attr == 'value' and isinstance(node.value, ast.Call) \
                and dotted(node.value.func) in ('c_int32', 'c_uint32', 'ctypes.c_int32', 'ctypes.c_uint32') and len(node.value.args) == 1:
            v = self.ev(node.value.args[0], env, depth) & 0xffffffff
            if dotted(node.value.func).endswith('c_int32') and v & 0x80000000:
                v -= 1 << 32
            return v
        if isinstance(node, ast.Tuple) and not any(isinstance(e, ast.Starred) for e in node.elts):
            return Record([self.ev(e, env, depth) for e in node.elts])
        if isinstance(node, ast.Attribute):
            base = self.ev(node.value, env, depth)
            if isinstance(base, Record) and base.field(node.attr) is not None:
                return base.field(node.attr)
            raise NotConcrete('attribute {}'.format(node.attr))
        if isinstance(node, ast.Subscript) and not isinstance(node.slice, ast.Slice):
            base, idx = self.ev(node.value, env, depth), self.ev(node.slice, env, depth)
            if isinstance(base, Record) and isinstance(idx, int) and -len(base.items) <= idx < len(base.items):
                return base.items[idx]
            raise NotConcrete('subscript')
        if isinstance(node, ast.Call):
            if self.call_hook is not None:
                r = self.call_hook(node, env)
                if r is not None:
                    return r
            if isinstance(node.func, ast.Name) and node.func.id not in self.facts.funcs and node.func.id not in env:
                names = record_fields(self.facts, node.func.id)
                if names is not None and not any(isinstance(x, ast.Starred) for x in node.args) and all(k.arg in names for k in node.keywords):
                    items = [self.ev(x, env, depth) for x in node.args]
                    kw = {k.arg: self.ev(k.value, env, depth) for k in node.keywords}
                    if len(items) + len(kw) == len(names) and not any(n in kw for n in names[:len(items)]):
                        return Record(items + [kw[n] for n in names[len(items):]], names)
            if isinstance(node.func, ast.Name) and node.func.id in self.facts.funcs:
                if depth >= self.max_depth:
                    raise NotConcrete('call depth')
                f = self.facts.funcs[node.func.id]
                a = f.args
                if a.vararg or a.kwarg or a.posonlyargs or f.decorator_list or any(isinstance(x, ast.Starred) for x in node.args):
                    raise NotConcrete('signature of {}'.format(f.name))
                params = [x.arg for x in a.args]
                e2 = {}
                for p_, x in zip(params, node.args):
                    e2[p_] = self.ev(x, env, depth)
                if len(node.args) > len(params):
                    raise NotConcrete('arity')
                for kw in node.keywords:
                    if kw.arg is None or kw.arg in e2 or kw.arg not in params + [x.arg for x in a.kwonlyargs]:
                        raise NotConcrete('keyword')
                    e2[kw.arg] = self.ev(kw.value, env, depth)
                defaults = dict(zip(params[len(params) - len(a.defaults):], a.defaults))
                defaults.update({x.arg: d for x, d in zip(a.kwonlyargs, a.kw_defaults) if d is not None})
                for p_ in params + [x.arg for x in a.kwonlyargs]:
                    if p_ not in e2:
                        if p_ not in defaults:
                            raise NotConcrete('missing argument {}'.format(p_))
                        e2[p_] = self.ev(defaults[p_], {}, depth)
                return self.run(list(f.body), e2, depth + 1)
            name = dotted(node.func)
            if name in ('bool', 'int', 'abs', 'min', 'max') and name not in self.facts.funcs and not node.keywords and node.args:
                vals = [self.ev(x, env, depth) for x in node.args]
                if name in ('bool', 'int', 'abs') and len(vals) != 1:
                    raise NotConcrete('call ' + name)
                return {'bool': lambda: int(bool(vals[0])), 'int': lambda: vals[0], 'abs': lambda: abs(vals[0]),
                        'min': lambda: min(vals), 'max': lambda: max(vals)}[name]()
        raise NotConcrete('expression {}'.format(type(node).__name__))


def hi_spec(v, got):
    """None when `got` is a correct %hi(v), else a description of what is wrong"""
    want = ((v >> 12) + ((v >> 11) & 1)) & 0xfffff
    if not isinstance(got, int) or isinstance(got, bool):
        return 'not an integer'
    if not -(1 << 19) <= got <= (1 << 19) - 1:
        return 'outside the signed 20-bit range'
    if (got - want) % (1 << 20):
        return 'expected {} (mod 2^20)'.format(want - (1 << 20) if want & 0x80000 else want)
    return None


def lo_spec(v, got):
    if not isinstance(got, int) or isinstance(got, bool):
        return 'not an integer'
    if not -2048 <= got <= 2047:
        return 'outside the signed 12-bit range'
    if (got - v) % 4096:
        return 'not congruent to v modulo 2^12'
    return None


def counterexample(facts, body, bind, spec, call_hook=None):
    """(v, result, what is wrong) for the first sample value on which the code contradicts the specification; None when the sample
    agrees; raises NotConcrete when the code is outside the evaluator's fragment.  `bind(v)` gives the initial environment."""
    ev = Concrete(facts, call_hook)
    for v in sample_values():
        call_env = bind(v)
        got = ev.run(list(body), call_env)
        why = spec(v, got)
        if why is not None:
            return v, got, why
    return None
