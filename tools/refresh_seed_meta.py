#!/venv/bin/python
"""Re-run every check against every seeded change (scratch copy of /repo + patch, removed afterwards) and refresh
seeded/<id>/meta.json: checks_fired / checks_undecided / verdict.  Prints the matrix."""
import concurrent.futures
import glob
import json
import os
import shutil
import subprocess
import sys
import tempfile

VERIF = os.path.dirname(os.path.dirname(os.path.abspath(__file__)))
PROPS = ['C%02d' % i for i in range(1, 21)]


def one(meta_path):
    d = os.path.dirname(meta_path)
    meta = json.load(open(meta_path))
    tmp = tempfile.mkdtemp(prefix='bbverif-seed-')
    try:
        shutil.copytree('/repo/bronzebeard', os.path.join(tmp, 'bronzebeard'), ignore=shutil.ignore_patterns('__pycache__', 'libs', 'definitions'))
        shutil.copytree('/repo/docs', os.path.join(tmp, 'docs'))
        r = subprocess.run(['patch', '-p1', '-s', '-i', os.path.join(d, 'patch.diff')], cwd=tmp, capture_output=True, text=True)
        if r.returncode != 0:
            return meta['id'], None, r.stdout + r.stderr
        fired, und = [], []
        for p in PROPS:
            rc = subprocess.run([sys.executable, os.path.join(VERIF, 'bbverif', 'check.py'), p, '--repo', tmp, '--no-evidence'], capture_output=True, text=True).returncode
            if rc == 1:
                fired.append(p)
            elif rc == 2:
                und.append(p)
        meta['checks_fired'], meta['checks_undecided'] = fired, und
        tgt = meta['breaks_property']
        meta['verdict'] = 'caught' if tgt in fired else ('undecided' if tgt in und else 'missed')
        json.dump(meta, open(meta_path, 'w'), indent=1)
        return meta['id'], meta, None
    finally:
        shutil.rmtree(tmp, ignore_errors=True)


def main():
    metas = sorted(glob.glob(os.path.join(VERIF, 'seeded', '*', 'meta.json')))
    bad = 0
    with concurrent.futures.ThreadPoolExecutor(max_workers=8) as ex:
        for sid, meta, err in ex.map(one, metas):
            if err:
                print(sid, 'PATCH FAILED', err)
                bad += 1
                continue
            print('{:8s} breaks {:4s} {:9s} fired={} undecided={}'.format(sid, meta['breaks_property'], meta['verdict'], meta['checks_fired'], meta['checks_undecided']))
            if meta['verdict'] != 'caught':
                bad += 1
    return 1 if bad else 0


if __name__ == '__main__':
    sys.exit(main())
