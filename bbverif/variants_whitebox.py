"""White-box round on C11 / C16 / C17 (rules that read one spelling): PRESERVING twins are behaviour-preserving edits (each checked
with the test suite and a differential run of assemble() and of the command line in subprocesses) that used to raise a false alarm
or end without verdict; every BREAKING twin is the same construct with the property actually broken; UNDECIDED ones are understood
to be outside what the rules read (exit 2, never a finding).  Generated from the edit specs of the round; format as in variants.py."""

A = 'bronzebeard/asm.py'

PRESERVING = [
    ('w-eval-compile', ['C11', 'C16', 'C17'], [
        (A, "            result = eval(self.expr, {'__builtins__': None}, env)\n",
         "            code = compile(self.expr, '<expr>', 'eval')\n            result = eval(code, {'__builtins__': None}, env)\n"),
    ]),
    ('w-eval-class-sandbox', ['C11', 'C16', 'C17'], [
        (A, 'class Arithmetic(Expr):\n\n',
         "class Arithmetic(Expr):\n\n    # exclude Python builtins from eval env\n    SANDBOX = {'__builtins__': None}\n\n"),
        (A, "            result = eval(self.expr, {'__builtins__': None}, env)\n",
         '            result = eval(self.expr, self.SANDBOX, env)\n'),
    ]),
    ('w-eval-dict-call-globals', ['C11', 'C16', 'C17'], [
        (A, "            result = eval(self.expr, {'__builtins__': None}, env)\n",
         '            result = eval(self.expr, dict(__builtins__=None), env)\n'),
    ]),
    ('w-eval-kind-local', ['C11'], [
        (A, '        if type(result) != int:\n',
         '        kind = type(result)\n        if kind is not int:\n'),
    ]),
    ('w-eval-dunder-class-test', ['C11'], [
        (A, '        if type(result) != int:\n',
         '        if result.__class__ is not int:\n'),
    ]),
    ('w-const-eval-keywords', ['C11'], [
        (A, '        value = item.expr.eval(None, env, item.line)\n',
         '        value = item.expr.eval(position=None, env=env, line=item.line)\n'),
    ]),
    ('w-const-update-display', ['C11'], [
        (A, '        constants[item.name] = value\n',
         '        constants.update({item.name: value})\n'),
    ]),
    ('w-const-name-helper', ['C11'], [
        (A, 'def resolve_constants(items, constants):\n',
         'def check_constant_name(item):\n    if item.name in REGISTERS:\n        s = \'constant name cannot shadow a register name "{}"\'\n        s = s.format(item.name)\n        raise AssemblerError(s, item.line)\n\n    if is_int(item.name):\n        s = \'constant name cannot be a number "{}"\'\n        s = s.format(item.name)\n        raise AssemblerError(s, item.line)\n\n\ndef resolve_constants(items, constants):\n'),
        (A, '        if item.name in REGISTERS:\n            s = \'constant name cannot shadow a register name "{}"\'\n            s = s.format(item.name)\n            raise AssemblerError(s, item.line)\n\n        if is_int(item.name):\n            s = \'constant name cannot be a number "{}"\'\n            s = s.format(item.name)\n            raise AssemblerError(s, item.line)\n\n',
         '        check_constant_name(item)\n\n'),
    ]),
    ('w-const-env-hoisted', ['C11', 'C16'], [
        (A, 'def resolve_constants(items, constants):\n    new_items = []\n',
         'def resolve_constants(items, constants):\n    # intentionally no labels here\n    env = ChainMap(constants, REGISTERS)\n    new_items = []\n'),
        (A, '        # intentionally no labels here\n        env = ChainMap(constants, REGISTERS)\n',
         ''),
    ]),
    ('w-alias-loop-over-regs', ['C11', 'C16'], [
        (A, '        modified = False\n        resolved_regs = {}\n        for key, value in d.items():\n            # skip if item field is not a register\n            if key not in REGS:\n                continue\n            # skip if reg is not a constant\n            if value not in constants:\n                continue\n            # reg IS a constant\n            modified = True\n            reg = constants[value]\n            resolved_regs[key] = reg\n\n        if not modified:\n            new_items.append(item)\n            continue\n\n        d.update(resolved_regs)\n',
         '        modified = False\n        for key in REGS:\n            # skip fields the item does not have and regs that are not constants\n            if key not in d or d[key] not in constants:\n                continue\n            # reg IS a constant\n            d[key] = constants[d[key]]\n            modified = True\n\n        if not modified:\n            new_items.append(item)\n            continue\n'),
    ]),
    ('w-alias-rebuild-list', ['C11'], [
        (A, '        # create the new item using the resolved registers\n        new_item = item.__class__(*d.values())\n',
         '        # create the new item using the resolved registers\n        fields = list(d.values())\n        new_item = item.__class__(*fields)\n'),
    ]),
    ('w-alias-dictcomp', ['C11', 'C16'], [
        (A, '        modified = False\n        resolved_regs = {}\n        for key, value in d.items():\n            # skip if item field is not a register\n            if key not in REGS:\n                continue\n            # skip if reg is not a constant\n            if value not in constants:\n                continue\n            # reg IS a constant\n            modified = True\n            reg = constants[value]\n            resolved_regs[key] = reg\n\n        if not modified:\n            new_items.append(item)\n            continue\n\n        d.update(resolved_regs)\n',
         '        resolved_regs = {key: constants[value] for key, value in d.items() if key in REGS and value in constants}\n        if not resolved_regs:\n            new_items.append(item)\n            continue\n\n        d.update(resolved_regs)\n'),
    ]),
    ('w-alias-any-over-regs', ['C11', 'C16'], [
        (A, '        if not set(d.keys()) & REGS:\n',
         '        if not any(name in d for name in REGS):\n'),
    ]),
    ('w-alias-keyerror', ['C11'], [
        (A, '            if value not in constants:\n                continue\n            # reg IS a constant\n            modified = True\n            reg = constants[value]\n',
         '            try:\n                reg = constants[value]\n            except KeyError:\n                continue\n            # reg IS a constant\n            modified = True\n'),
    ]),
    ('w-imm-join-str-tokens', ['C11'], [
        (A, "    else:\n        return Arithmetic(' '.join(imm))\n",
         "    else:\n        return Arithmetic(' '.join(str(token) for token in imm))\n"),
    ]),
    ('w-hi-lo-eval-keywords', ['C11'], [
        (A, '        value = self.expr.eval(position, env, line)\n        return relocate_hi(value)\n',
         '        value = self.expr.eval(position=position, env=env, line=line)\n        return relocate_hi(value)\n'),
        (A, '        value = self.expr.eval(position, env, line)\n        return relocate_lo(value)\n',
         '        value = self.expr.eval(position=position, env=env, line=line)\n        return relocate_lo(value)\n'),
    ]),
    ('w-reader-closure-attr-store', ['C16'], [
        (A, '    lines = []\n    for i, raw_line in enumerate(source.splitlines(), start=1):\n',
         "    def remember_bytes_file(found_path):\n        # modify the line by appending the size to the end (too hacky?)\n        line.contents = '{} {}'.format(raw_line, os.path.getsize(found_path))\n        # remember where the file was found (the path as written is relative to the search dirs, not the cwd)\n        line.include_path = found_path\n\n    lines = []\n    for i, raw_line in enumerate(source.splitlines(), start=1):\n"),
        (A, "            # grab its size\n            size = os.path.getsize(include_path)\n\n            # modify the line by appending the size to the end (too hacky?)\n            line.contents = '{} {}'.format(raw_line, size)\n            # remember where the file was found (the path as written is relative to the search dirs, not the cwd)\n            line.include_path = include_path\n",
         '            remember_bytes_file(include_path)\n'),
    ]),
    ('w-reader-cwd-hoisted', ['C16'], [
        (A, '    # determine base path based on whether a path or source was given\n    is_path = os.path.exists(path_or_source)\n    if is_path:\n        base_path = os.path.dirname(os.path.abspath(path_or_source))\n    else:\n        base_path = os.getcwd()\n',
         '    # determine base path based on whether a path or source was given\n    cwd = os.getcwd()\n    is_path = os.path.exists(path_or_source)\n    base_path = os.path.dirname(os.path.abspath(path_or_source)) if is_path else cwd\n'),
    ]),
    ('w-memo-sign-extend', ['C16'], [
        (A, 'def sign_extend(value, bits):\n',
         '@functools.lru_cache(maxsize=None)\ndef sign_extend(value, bits):\n'),
        (A, 'from functools import partial\n',
         'import functools\nfrom functools import partial\n'),
    ]),
    ('w-reader-list-default-readonly', ['C16'], [
        (A, 'def read_lines(path_or_source, *, include=False, include_dirs=None):\n',
         'def read_lines(path_or_source, *, include=False, include_dirs=[]):\n'),
    ]),
    ('w-asm-timing-log', ['C16', 'C11'], [
        (A, '    # keep constants and labels in separate namespaces\n',
         '    started = time.perf_counter()\n\n    # keep constants and labels in separate namespaces\n'),
        (A, '    program = resolve_blobs(items)\n\n    return program\n',
         "    program = resolve_blobs(items)\n    log.info('assembled {} bytes in {:.3f}s'.format(len(program), time.perf_counter() - started))\n\n    return program\n"),
        (A, 'import sys\n\n# Python Cookbook',
         'import sys\nimport time\n\n# Python Cookbook'),
    ]),
    ('w-asm-tuple-default', ['C16', 'C11'], [
        (A, 'def assemble(path_or_source, *, constants=None, labels=None, compress=False, include_dirs=None):\n',
         'def assemble(path_or_source, *, constants=None, labels=None, compress=False, include_dirs=()):\n'),
    ]),
    ('w-asm-registers-explicit', ['C16', 'C11'], [
        (A, 'def resolve_constants(items, constants):\n',
         'def resolve_constants(items, constants, registers=REGISTERS):\n'),
        (A, "        if item.name in REGISTERS:\n            s = 'constant name cannot shadow",
         "        if item.name in registers:\n            s = 'constant name cannot shadow"),
        (A, '        env = ChainMap(constants, REGISTERS)\n',
         '        env = ChainMap(constants, registers)\n'),
        (A, '    items = resolve_constants(items, constants)\n',
         '    items = resolve_constants(items, constants, REGISTERS)\n'),
    ]),
    ('w-cli-exit-zero-raise', ['C17'], [
        (A, "        bin2hex(args.output, args.output + '.hex', hex_offset)\n",
         "        bin2hex(args.output, args.output + '.hex', hex_offset)\n\n    raise SystemExit(0)\n"),
    ]),
    ('w-cli-return-status', ['C17'], [
        (A, '    except AssemblerError as e:\n        raise SystemExit(e)\n',
         '    except AssemblerError as e:\n        print(e, file=sys.stderr)\n        return 1\n'),
        (A, "        bin2hex(args.output, args.output + '.hex', hex_offset)\n",
         "        bin2hex(args.output, args.output + '.hex', hex_offset)\n\n    return 0\n"),
        (A, "if __name__ == '__main__':\n    cli_main()\n",
         "if __name__ == '__main__':\n    sys.exit(cli_main())\n"),
    ]),
    ('w-cli-compress-bool', ['C17'], [
        (A, 'compress=args.compress, include_dirs=include_dirs)',
         'compress=bool(args.compress), include_dirs=include_dirs)'),
    ]),
    ('w-cli-include-augassign', ['C17'], [
        (A, '        include_dirs.append(os.path.abspath(inc_dir))\n',
         '        include_dirs += [os.path.abspath(inc_dir)]\n'),
    ]),
    ('w-cli-newline-suffix-consts', ['C17'], [
        (A, 'def cli_main():\n',
         "NEWLINE = '\\n'\nHEX_SUFFIX = '.hex'\n\n\ndef cli_main():\n"),
        (A, "        lines = ['{} 0x{:08x}\\n'.format(k, v) for k, v in labels.items()]\n",
         "        lines = ['{} 0x{:08x}'.format(k, v) + NEWLINE for k, v in labels.items()]\n"),
        (A, "        bin2hex(args.output, args.output + '.hex', hex_offset)\n",
         '        bin2hex(args.output, args.output + HEX_SUFFIX, hex_offset)\n'),
    ]),
    ('w-cli-abspath-output', ['C17'], [
        (A, "    with open(args.output, 'wb') as out_bin:\n        out_bin.write(binary)\n",
         "    out_path = os.path.abspath(args.output)\n    with open(out_path, 'wb') as out_bin:\n        out_bin.write(binary)\n"),
        (A, "        bin2hex(args.output, args.output + '.hex', hex_offset)\n",
         "        bin2hex(out_path, out_path + '.hex', hex_offset)\n"),
    ]),
    ('w-cli-hex-offset-none-test', ['C17'], [
        (A, '    # output an additional file in the Intel HEX format at the given offset\n    if args.hex_offset:\n',
         '    # output an additional file in the Intel HEX format at the given offset\n    if hex_offset is not None:\n'),
    ]),
    ('w-eval-checked-int-helper', ['C11'], [
        (A, '        # ensure resulting value is an integer\n        if type(result) != int:\n            s = \'result "{}" is not an integer from expr: "{}"\'\n            s = s.format(result, self.expr)\n            raise AssemblerError(s, line)\n\n        return result\n',
         '        return checked_int(result, self.expr, line)\n'),
        (A, '# basic arithmetic expression\n',
         'def checked_int(result, expr, line):\n    # ensure resulting value is an integer\n    if type(result) != int:\n        s = \'result "{}" is not an integer from expr: "{}"\'\n        s = s.format(result, expr)\n        raise AssemblerError(s, line)\n    return result\n\n\n# basic arithmetic expression\n'),
    ]),
    ('w-eval-type-not-in-tuple', ['C11'], [
        (A, '        if type(result) != int:\n',
         '        if type(result) not in (int,):\n'),
    ]),
    ('w-eval-isinstance-pair', ['C11'], [
        (A, '        if type(result) != int:\n',
         '        if not isinstance(result, int) or isinstance(result, bool):\n'),
    ]),
    ('w-const-define-closure', ['C11', 'C16'], [
        (A, '        # intentionally no labels here\n        env = ChainMap(constants, REGISTERS)\n        value = item.expr.eval(None, env, item.line)\n        constants[item.name] = value\n',
         '        value = define(item)\n'),
        (A, 'def resolve_constants(items, constants):\n    new_items = []\n',
         'def resolve_constants(items, constants):\n    def define(item):\n        # intentionally no labels here\n        env = ChainMap(constants, REGISTERS)\n        value = item.expr.eval(None, env, item.line)\n        constants[item.name] = value\n        return value\n\n    new_items = []\n'),
    ]),
    ('w-alias-loop-over-intersection', ['C11', 'C16'], [
        (A, '        modified = False\n        resolved_regs = {}\n        for key, value in d.items():\n            # skip if item field is not a register\n            if key not in REGS:\n                continue\n            # skip if reg is not a constant\n            if value not in constants:\n                continue\n            # reg IS a constant\n            modified = True\n            reg = constants[value]\n            resolved_regs[key] = reg\n\n        if not modified:\n            new_items.append(item)\n            continue\n\n        d.update(resolved_regs)\n',
         '        modified = False\n        for key in REGS & d.keys():\n            # resolve the reg if it is a constant\n            if d[key] in constants:\n                d[key] = constants[d[key]]\n                modified = True\n\n        if not modified:\n            new_items.append(item)\n            continue\n'),
    ]),
    ('w-alias-module-frozenset', ['C11', 'C16'], [
        (A, "    REGS = {'rd', 'rs1', 'rs2', 'rd_rs1'}\n\n    new_items = []\n    for item in items:\n        d = copy.deepcopy(vars(item))\n",
         '    new_items = []\n    for item in items:\n        d = copy.deepcopy(vars(item))\n'),
        (A, 'def resolve_register_aliases(items, constants):\n',
         "REGISTER_FIELDS = frozenset(['rd', 'rs1', 'rs2', 'rd_rs1'])\n\n\ndef resolve_register_aliases(items, constants):\n"),
        (A, '        if not set(d.keys()) & REGS:\n',
         '        if REGISTER_FIELDS.isdisjoint(d):\n'),
        (A, '            if key not in REGS:\n                continue\n            # skip if reg is not a constant',
         '            if key not in REGISTER_FIELDS:\n                continue\n            # skip if reg is not a constant'),
    ]),
    ('w-shift-amount-helper', ['C11'], [
        (A, 'def transform_compressible(items, constants, labels):\n',
         'def shift_amount(reg):\n    return Arithmetic(str(lookup_register(reg)))\n\n\ndef transform_compressible(items, constants, labels):\n'),
        (A, '                inst = CITypeInstruction(item.line, compressed, item.rd, Arithmetic(str(lookup_register(item.rs2))))',
         '                inst = CITypeInstruction(item.line, compressed, item.rd, shift_amount(item.rs2))'),
    ]),
    ('w-shift-text-helper', ['C11'], [
        (A, 'def transform_compressible(items, constants, labels):\n',
         'def reg_text(reg):\n    return str(lookup_register(reg))\n\n\ndef transform_compressible(items, constants, labels):\n'),
        (A, '                inst = CITypeInstruction(item.line, compressed, item.rd, Arithmetic(str(lookup_register(item.rs2))))',
         '                inst = CITypeInstruction(item.line, compressed, item.rd, Arithmetic(reg_text(item.rs2)))'),
    ]),
    ('w-imm-join-strip', ['C11'], [
        (A, "    else:\n        return Arithmetic(' '.join(imm))\n",
         "    else:\n        return Arithmetic(' '.join(imm).strip())\n"),
    ]),
    ('w-reader-merged-branches', ['C16'], [
        (A, "    if os.path.exists(path_or_source) or include:\n        log.info('reading file: {}'.format(os.path.abspath(path_or_source)))\n        # exceptions here will be caught by the recursive parent\n        path = path_or_source\n        with open(path) as f:\n            source = f.read()\n    else:\n        path = '<string>'\n        source = path_or_source\n\n    # determine base path based on whether a path or source was given\n    is_path = os.path.exists(path_or_source)\n    if is_path:\n        base_path = os.path.dirname(os.path.abspath(path_or_source))\n    else:\n        base_path = os.getcwd()\n",
         "    # determine base path based on whether a path or source was given\n    if os.path.exists(path_or_source) or include:\n        log.info('reading file: {}'.format(os.path.abspath(path_or_source)))\n        # exceptions here will be caught by the recursive parent\n        path = path_or_source\n        with open(path) as f:\n            source = f.read()\n        base_path = os.path.dirname(os.path.abspath(path_or_source))\n    else:\n        path = '<string>'\n        source = path_or_source\n        base_path = os.getcwd()\n"),
    ]),
    ('w-memo-is-int', ['C16'], [
        (A, 'def is_int(value):\n',
         '@functools.lru_cache(maxsize=4096)\ndef is_int(value):\n'),
        (A, 'from functools import partial\n',
         'import functools\nfrom functools import partial\n'),
    ]),
    ('w-cli-sys-exit-zero', ['C17'], [
        (A, "        bin2hex(args.output, args.output + '.hex', hex_offset)\n",
         "        bin2hex(args.output, args.output + '.hex', hex_offset)\n\n    sys.exit(0)\n"),
    ]),
    ('w-cli-newline-format-arg', ['C17'], [
        (A, 'def cli_main():\n',
         "NEWLINE = '\\n'\n\n\ndef cli_main():\n"),
        (A, "        lines = ['{} 0x{:08x}\\n'.format(k, v) for k, v in labels.items()]\n",
         "        lines = ['{} 0x{:08x}{}'.format(k, v, NEWLINE) for k, v in labels.items()]\n"),
    ]),
    ('w-cli-binary-before-labels', ['C17'], [
        (A, "    if args.labels:\n        lines = ['{} 0x{:08x}\\n'.format(k, v) for k, v in labels.items()]\n        with open(args.labels, 'w') as f:\n            f.writelines(lines)\n\n    with open(args.output, 'wb') as out_bin:\n        out_bin.write(binary)\n\n",
         "    with open(args.output, 'wb') as out_bin:\n        out_bin.write(binary)\n\n    if args.labels:\n        lines = ['{} 0x{:08x}\\n'.format(k, v) for k, v in labels.items()]\n        with open(args.labels, 'w') as f:\n            f.writelines(lines)\n\n"),
    ]),
    ('w-cli-build-helper-tuple', ['C17'], [
        (A, '    constants = {}\n    labels = {}\n    try:\n        input_asm = os.path.abspath(args.input_asm)\n        binary = assemble(input_asm, constants=constants, labels=labels, compress=args.compress, include_dirs=include_dirs)\n    except AssemblerError as e:\n        raise SystemExit(e)\n',
         '    try:\n        binary, constants, labels = build(args, include_dirs)\n    except AssemblerError as e:\n        raise SystemExit(e)\n'),
        (A, 'def cli_main():\n',
         'def build(args, include_dirs):\n    constants = {}\n    labels = {}\n    input_asm = os.path.abspath(args.input_asm)\n    binary = assemble(input_asm, constants=constants, labels=labels, compress=args.compress, include_dirs=include_dirs)\n    return binary, constants, labels\n\n\ndef cli_main():\n'),
    ]),
    ('w-cli-open-try-finally', ['C17'], [
        (A, "    with open(args.output, 'wb') as out_bin:\n        out_bin.write(binary)\n\n",
         "    out_bin = open(args.output, 'wb')\n    try:\n        out_bin.write(binary)\n    finally:\n        out_bin.close()\n\n"),
    ]),
    ('w-cli-print-sys-exit', ['C17'], [
        (A, '    except AssemblerError as e:\n        raise SystemExit(e)\n',
         '    except AssemblerError as e:\n        print(e, file=sys.stderr)\n        sys.exit(1)\n'),
    ]),
    ('w-alias-tail-call-in-expansion', ['C11', 'C16'], [
        (A, "        log_conversion('transform_pseudo_instructions', item, inst)\n\n    return new_items\n",
         "        log_conversion('transform_pseudo_instructions', item, inst)\n\n    # the expansions may mention constants that name registers\n    return resolve_register_aliases(new_items, constants)\n"),
        (A, '    items = transform_pseudo_instructions(items, constants, labels)\n    items = resolve_register_aliases(items, constants)\n',
         '    items = transform_pseudo_instructions(items, constants, labels)\n'),
    ]),
    ('w-cli-bin2hex-import-alias', ['C17'], [
        (A, "        from intelhex import bin2hex\n\n        bin2hex(args.output, args.output + '.hex', hex_offset)\n",
         "        from intelhex import bin2hex as write_intel_hex\n\n        write_intel_hex(args.output, args.output + '.hex', hex_offset)\n"),
    ]),
    ('w-cli-raise-from-none', ['C17'], [
        (A, '    except AssemblerError as e:\n        raise SystemExit(e)\n',
         '    except AssemblerError as e:\n        raise SystemExit(e) from None\n'),
    ]),
    ('w-eval-early-return-int', ['C11'], [
        (A, '        # ensure resulting value is an integer\n        if type(result) != int:\n            s = \'result "{}" is not an integer from expr: "{}"\'\n            s = s.format(result, self.expr)\n            raise AssemblerError(s, line)\n\n        return result\n',
         '        # ensure resulting value is an integer\n        if type(result) == int:\n            return result\n\n        s = \'result "{}" is not an integer from expr: "{}"\'\n        s = s.format(result, self.expr)\n        raise AssemblerError(s, line)\n'),
    ]),
    ('w-asm-dict-call-default', ['C11', 'C16'], [
        (A, '    constants = constants if constants is not None else {}\n    labels = labels if labels is not None else {}\n',
         '    constants = dict() if constants is None else constants\n    labels = dict() if labels is None else labels\n'),
    ]),
    ('w-alias-dictcomp-over-intersection', ['C11', 'C16'], [
        (A, '        modified = False\n        resolved_regs = {}\n        for key, value in d.items():\n            # skip if item field is not a register\n            if key not in REGS:\n                continue\n            # skip if reg is not a constant\n            if value not in constants:\n                continue\n            # reg IS a constant\n            modified = True\n            reg = constants[value]\n            resolved_regs[key] = reg\n\n        if not modified:\n            new_items.append(item)\n            continue\n\n        d.update(resolved_regs)\n',
         '        resolved_regs = {key: constants[d[key]] for key in REGS & d.keys() if d[key] in constants}\n        if not resolved_regs:\n            new_items.append(item)\n            continue\n\n        d.update(resolved_regs)\n'),
    ]),
    ('w-reader-error-object-attr', ['C16', 'C15'], [
        (A, "                raise AssemblerError('include must specify a file', line)\n",
         "                error = AssemblerError('include must specify a file', line)\n                error.directive = 'include'\n                raise error\n"),
    ]),
    ('w-cli-os-open-trunc', ['C17'], [
        (A, "    with open(args.output, 'wb') as out_bin:\n        out_bin.write(binary)\n",
         "    fd = os.open(args.output, os.O_WRONLY | os.O_CREAT | os.O_TRUNC, 0o666)\n    with os.fdopen(fd, 'wb') as out_bin:\n        out_bin.write(binary)\n"),
    ]),
    ('w-cli-include-generator', ['C17'], [
        (A, "    include_dirs = []\n    for inc_dir in args.include or []:\n        if not os.path.isdir(inc_dir):\n            raise SystemExit('invalid include dir: {}'.format(inc_dir))\n        include_dirs.append(os.path.abspath(inc_dir))\n",
         "    def expand(dirs):\n        for inc_dir in dirs:\n            if not os.path.isdir(inc_dir):\n                raise SystemExit('invalid include dir: {}'.format(inc_dir))\n            yield os.path.abspath(inc_dir)\n\n    include_dirs = list(expand(args.include or []))\n"),
    ]),
    ('w-eval-env-none-fallback', ['C11', 'C16'], [
        (A, "            result = eval(self.expr, {'__builtins__': None}, env)\n",
         "            names = env if env is not None else {}\n            result = eval(self.expr, {'__builtins__': None}, names)\n"),
    ]),
    ('w-position-eval-keyword-line', ['C11'], [
        (A, '        base = self.expr.eval(position, env, line)\n        return base + dest\n',
         '        return dest + self.expr.eval(position, env, line=line)\n'),
    ]),
    ('w-imm-env-dict-splats', ['C11'], [
        (A, '        # resolve the immediate field\n        env = ChainMap(constants, labels)\n',
         '        # resolve the immediate field\n        env = {**labels, **constants}\n'),
    ]),
    ('w-asm-log-parsed-helper', ['C11', 'C16'], [
        (A, '    for item in items:\n        log.info(\'parsed file {}, line {}: "{}"\'.format(os.path.basename(item.line.file), item.line.number, item))\n',
         '    log_parsed_items(items)\n'),
        (A, 'def assemble(path_or_source, *, constants=None, labels=None, compress=False, include_dirs=None):\n',
         'def log_parsed_items(items):\n    for item in items:\n        log.info(\'parsed file {}, line {}: "{}"\'.format(os.path.basename(item.line.file), item.line.number, item))\n\n\ndef assemble(path_or_source, *, constants=None, labels=None, compress=False, include_dirs=None):\n'),
    ]),
    ('w-alias-log-regs-join', ['C16'], [
        (A, "    REGS = {'rd', 'rs1', 'rs2', 'rd_rs1'}\n",
         "    REGS = {'rd', 'rs1', 'rs2', 'rd_rs1'}\n    log.debug('register fields: {}'.format(', '.join(REGS)))\n    for field in REGS:\n        log.debug('register field {}'.format(field))\n"),
    ]),
    ('w-reader-listing-count-logged', ['C16'], [
        (A, '    current_dirs.append(base_path)\n',
         "    current_dirs.append(base_path)\n    log.debug('{} entries next to the source'.format(len(os.listdir(base_path))))\n"),
    ]),
    ('w-reader-listing-sorted-genexp', ['C16'], [
        (A, '    current_dirs.append(base_path)\n',
         "    current_dirs.append(base_path)\n    log.debug('sources: {}'.format(sorted(n for n in os.listdir(base_path) if n.endswith('.asm'))))\n"),
    ]),
]

UNDECIDED = [
    ('w-alias-deepcopy-setattr', ['C11'], [
        (A, '        d.update(resolved_regs)\n',
         ''),
        (A, '        # create the new item using the resolved registers\n        new_item = item.__class__(*d.values())\n',
         '        # create the new item using the resolved registers\n        new_item = copy.deepcopy(item)\n        for key, reg in resolved_regs.items():\n            setattr(new_item, key, reg)\n'),
    ]),
    ('w-alias-table-class', ['C11'], [
        (A, 'def resolve_register_aliases(items, constants):\n',
         'class AliasTable:\n\n    def __init__(self, constants):\n        self.constants = constants\n\n    def __contains__(self, name):\n        return name in self.constants\n\n    def resolve(self, name):\n        return self.constants[name]\n\n\ndef resolve_register_aliases(items, constants):\n    aliases = AliasTable(constants)\n'),
        (A, '            if value not in constants:\n                continue\n            # reg IS a constant\n            modified = True\n            reg = constants[value]\n',
         '            if value not in aliases:\n                continue\n            # reg IS a constant\n            modified = True\n            reg = aliases.resolve(value)\n'),
    ]),
    ('w-const-name-method', ['C11'], [
        (A, '        if item.name in REGISTERS:\n            s = \'constant name cannot shadow a register name "{}"\'\n            s = s.format(item.name)\n            raise AssemblerError(s, item.line)\n\n        if is_int(item.name):\n            s = \'constant name cannot be a number "{}"\'\n            s = s.format(item.name)\n            raise AssemblerError(s, item.line)\n\n',
         '        item.check_name()\n\n'),
        (A, '    def size(self):\n        return 0\n\n\nclass IncludeBytes(Item):',
         '    def size(self):\n        return 0\n\n    def check_name(self):\n        if self.name in REGISTERS:\n            s = \'constant name cannot shadow a register name "{}"\'\n            s = s.format(self.name)\n            raise AssemblerError(s, self.line)\n\n        if is_int(self.name):\n            s = \'constant name cannot be a number "{}"\'\n            s = s.format(self.name)\n            raise AssemblerError(s, self.line)\n\n\nclass IncludeBytes(Item):'),
    ]),
    ('w-alias-rebuild-kwargs', ['C11'], [
        (A, '        # create the new item using the resolved registers\n        new_item = item.__class__(*d.values())\n',
         '        # create the new item using the resolved registers\n        new_item = item.__class__(**d)\n'),
    ]),
    ('w-cli-label-writer-class', ['C17'], [
        (A, 'def cli_main():\n',
         "class LabelFile:\n\n    def __init__(self, handle):\n        self.handle = handle\n\n    def dump(self, labels):\n        for name, address in labels.items():\n            self.handle.write('{} 0x{:08x}\\n'.format(name, address))\n\n\ndef cli_main():\n"),
        (A, "    if args.labels:\n        lines = ['{} 0x{:08x}\\n'.format(k, v) for k, v in labels.items()]\n        with open(args.labels, 'w') as f:\n            f.writelines(lines)\n",
         "    if args.labels:\n        with open(args.labels, 'w') as f:\n            LabelFile(f).dump(labels)\n"),
    ]),
    ('w-asm-tables-namedtuple', ['C11', 'C16'], [
        (A, 'def assemble(path_or_source, *, constants=None, labels=None, compress=False, include_dirs=None):\n',
         "Tables = collections.namedtuple('Tables', ['constants', 'labels'])\n\n\ndef assemble(path_or_source, *, constants=None, labels=None, compress=False, include_dirs=None):\n"),
        (A, 'import copy\n',
         'import collections\nimport copy\n'),
        (A, '    labels = labels if labels is not None else {}\n',
         '    labels = labels if labels is not None else {}\n    tables = Tables(constants, labels)\n'),
        (A, '    items = resolve_constants(items, constants)\n    items = resolve_labels(items, labels)\n',
         '    items = resolve_constants(items, tables.constants)\n    items = resolve_labels(items, tables.labels)\n'),
    ]),
    ('w-cli-copyfileobj', ['C17'], [
        (A, "    with open(args.output, 'wb') as out_bin:\n        out_bin.write(binary)\n",
         "    with open(args.output, 'wb') as out_bin:\n        shutil.copyfileobj(io.BytesIO(binary), out_bin)\n"),
        (A, 'import copy\n',
         'import copy\nimport io\nimport shutil\n'),
    ]),
    ('w-u-set-iteration-first-match', ['C16'], [
        (A, '        modified = False\n        resolved_regs = {}\n        for key, value in d.items():\n            # skip if item field is not a register\n            if key not in REGS:\n                continue\n            # skip if reg is not a constant\n            if value not in constants:\n                continue\n            # reg IS a constant\n            modified = True\n            reg = constants[value]\n            resolved_regs[key] = reg\n\n        if not modified:\n            new_items.append(item)\n            continue\n\n        d.update(resolved_regs)\n',
         '        modified = False\n        for key in REGS:\n            # skip fields the item does not have and regs that are not constants\n            if key not in d or d[key] not in constants:\n                continue\n            # reg IS a constant\n            d[key] = constants[d[key]]\n            modified = True\n            break\n\n        if not modified:\n            new_items.append(item)\n            continue\n'),
    ]),
]

BREAKING = [
    ('w-b-eval-compile-unpinned', ['C11', 'C16'], [
        (A, "            result = eval(self.expr, {'__builtins__': None}, env)\n",
         "            code = compile(self.expr, '<expr>', 'eval')\n            result = eval(code, {}, env)\n"),
    ]),
    ('w-b-eval-class-sandbox-empty', ['C11', 'C16'], [
        (A, 'class Arithmetic(Expr):\n\n',
         'class Arithmetic(Expr):\n\n    # exclude Python builtins from eval env\n    SANDBOX = {}\n\n'),
        (A, "            result = eval(self.expr, {'__builtins__': None}, env)\n",
         '            result = eval(self.expr, self.SANDBOX, env)\n'),
    ]),
    ('w-b-eval-dict-call-wrong-key', ['C11', 'C16'], [
        (A, "            result = eval(self.expr, {'__builtins__': None}, env)\n",
         '            result = eval(self.expr, dict(builtins=None), env)\n'),
    ]),
    ('w-b-eval-dunder-class-inverted', ['C11'], [
        (A, '        if type(result) != int:\n',
         '        if result.__class__ is str:\n'),
    ]),
    ('w-b-eval-type-not-in-int-float', ['C11'], [
        (A, '        if type(result) != int:\n',
         '        if type(result) not in (int, float):\n'),
    ]),
    ('w-b-eval-isinstance-pair-no-bool', ['C11'], [
        (A, '        if type(result) != int:\n',
         '        if not isinstance(result, int) or isinstance(result, str):\n'),
    ]),
    ('w-b-eval-checked-helper-no-test', ['C11'], [
        (A, '        # ensure resulting value is an integer\n        if type(result) != int:\n            s = \'result "{}" is not an integer from expr: "{}"\'\n            s = s.format(result, self.expr)\n            raise AssemblerError(s, line)\n\n        return result\n',
         '        return checked_int(result, self.expr, line)\n'),
        (A, '# basic arithmetic expression\n',
         'def checked_int(result, expr, line):\n    # ensure resulting value is an integer\n    if result is None:\n        s = \'result "{}" is not an integer from expr: "{}"\'\n        s = s.format(result, expr)\n        raise AssemblerError(s, line)\n    return result\n\n\n# basic arithmetic expression\n'),
    ]),
    ('w-b-int-check-removed-pipeline-not-read', ['C11'], [
        (A, '    items = resolve_constants(items, constants)\n',
         "    constants['BUILD'] = 1\n    items = resolve_constants(items, constants)\n"),
        (A, '        # ensure resulting value is an integer\n        if type(result) != int:\n            s = \'result "{}" is not an integer from expr: "{}"\'\n            s = s.format(result, self.expr)\n            raise AssemblerError(s, line)\n\n        return result\n',
         '        return result\n'),
    ]),
    ('w-b-eval-env-fallback-always-empty', ['C11'], [
        (A, "            result = eval(self.expr, {'__builtins__': None}, env)\n",
         "            names = {} if env is not None else env\n            result = eval(self.expr, {'__builtins__': None}, names)\n"),
    ]),
    ('w-b-position-eval-keyword-fresh-env', ['C11'], [
        (A, '        base = self.expr.eval(position, env, line)\n        return base + dest\n',
         '        return dest + self.expr.eval(position, {}, line=line)\n'),
    ]),
    ('w-b-imm-env-dict-splats-labels-first', ['C11'], [
        (A, '        # resolve the immediate field\n        env = ChainMap(constants, labels)\n',
         '        # resolve the immediate field\n        env = {**constants, **labels}\n'),
    ]),
    ('w-b-const-eval-keywords-env-table', ['C11'], [
        (A, '        value = item.expr.eval(None, env, item.line)\n',
         '        value = item.expr.eval(position=None, env=constants, line=item.line)\n'),
    ]),
    ('w-b-const-update-display-expr', ['C11'], [
        (A, '        constants[item.name] = value\n',
         '        constants.update({item.name: item.expr})\n'),
    ]),
    ('w-b-const-name-helper-no-shadow-test', ['C11'], [
        (A, 'def resolve_constants(items, constants):\n',
         'def check_constant_name(item):\n    if is_int(item.name):\n        s = \'constant name cannot be a number "{}"\'\n        s = s.format(item.name)\n        raise AssemblerError(s, item.line)\n\n\ndef resolve_constants(items, constants):\n'),
        (A, '        if item.name in REGISTERS:\n            s = \'constant name cannot shadow a register name "{}"\'\n            s = s.format(item.name)\n            raise AssemblerError(s, item.line)\n\n        if is_int(item.name):\n            s = \'constant name cannot be a number "{}"\'\n            s = s.format(item.name)\n            raise AssemblerError(s, item.line)\n\n',
         '        check_constant_name(item)\n\n'),
    ]),
    ('w-b-const-env-hoisted-registers-first', ['C11', 'C16'], [
        (A, 'def resolve_constants(items, constants):\n    new_items = []\n',
         'def resolve_constants(items, constants):\n    # intentionally no labels here\n    env = ChainMap(REGISTERS, constants)\n    new_items = []\n'),
        (A, '        # intentionally no labels here\n        env = ChainMap(constants, REGISTERS)\n',
         ''),
    ]),
    ('w-b-const-define-closure-no-store', ['C11'], [
        (A, '        # intentionally no labels here\n        env = ChainMap(constants, REGISTERS)\n        value = item.expr.eval(None, env, item.line)\n        constants[item.name] = value\n',
         '        value = define(item)\n'),
        (A, 'def resolve_constants(items, constants):\n    new_items = []\n',
         'def resolve_constants(items, constants):\n    def define(item):\n        # intentionally no labels here\n        env = ChainMap(constants, REGISTERS)\n        value = item.expr.eval(None, env, item.line)\n        return value\n\n    new_items = []\n'),
    ]),
    ('w-b-alias-loop-over-regs-truthy', ['C11'], [
        (A, '        modified = False\n        resolved_regs = {}\n        for key, value in d.items():\n            # skip if item field is not a register\n            if key not in REGS:\n                continue\n            # skip if reg is not a constant\n            if value not in constants:\n                continue\n            # reg IS a constant\n            modified = True\n            reg = constants[value]\n            resolved_regs[key] = reg\n\n        if not modified:\n            new_items.append(item)\n            continue\n\n        d.update(resolved_regs)\n',
         '        modified = False\n        for key in REGS:\n            # skip fields the item does not have and regs that are not constants\n            if key not in d or not constants.get(d[key]):\n                continue\n            # reg IS a constant\n            d[key] = constants[d[key]]\n            modified = True\n\n        if not modified:\n            new_items.append(item)\n            continue\n'),
    ]),
    ('w-b-alias-rebuild-list-missing-field', ['C11'], [
        (A, '        # create the new item using the resolved registers\n        new_item = item.__class__(*d.values())\n',
         '        # create the new item using the resolved registers\n        fields = list(d.values())\n        new_item = item.__class__(*fields)\n'),
        (A, "    REGS = {'rd', 'rs1', 'rs2', 'rd_rs1'}\n",
         "    REGS = {'rd', 'rs1', 'rs2'}\n"),
    ]),
    ('w-b-alias-dictcomp-truthy', ['C11'], [
        (A, '        modified = False\n        resolved_regs = {}\n        for key, value in d.items():\n            # skip if item field is not a register\n            if key not in REGS:\n                continue\n            # skip if reg is not a constant\n            if value not in constants:\n                continue\n            # reg IS a constant\n            modified = True\n            reg = constants[value]\n            resolved_regs[key] = reg\n\n        if not modified:\n            new_items.append(item)\n            continue\n\n        d.update(resolved_regs)\n',
         '        resolved_regs = {key: constants[value] for key, value in d.items() if key in REGS and constants.get(value)}\n        if not resolved_regs:\n            new_items.append(item)\n            continue\n\n        d.update(resolved_regs)\n'),
    ]),
    ('w-b-alias-keyerror-none-truthy', ['C11'], [
        (A, '            if value not in constants:\n                continue\n            # reg IS a constant\n            modified = True\n            reg = constants[value]\n',
         '            try:\n                reg = constants[value]\n            except KeyError:\n                reg = None\n            if not reg:\n                continue\n            # reg IS a constant\n            modified = True\n'),
    ]),
    ('w-b-alias-intersection-truthy', ['C11'], [
        (A, '        modified = False\n        resolved_regs = {}\n        for key, value in d.items():\n            # skip if item field is not a register\n            if key not in REGS:\n                continue\n            # skip if reg is not a constant\n            if value not in constants:\n                continue\n            # reg IS a constant\n            modified = True\n            reg = constants[value]\n            resolved_regs[key] = reg\n\n        if not modified:\n            new_items.append(item)\n            continue\n\n        d.update(resolved_regs)\n',
         '        modified = False\n        for key in REGS & d.keys():\n            # resolve the reg if it is a constant\n            if constants.get(d[key]):\n                d[key] = constants[d[key]]\n                modified = True\n\n        if not modified:\n            new_items.append(item)\n            continue\n'),
    ]),
    ('w-b-alias-frozenset-missing-field', ['C11'], [
        (A, "    REGS = {'rd', 'rs1', 'rs2', 'rd_rs1'}\n\n    new_items = []\n    for item in items:\n        d = copy.deepcopy(vars(item))\n",
         '    new_items = []\n    for item in items:\n        d = copy.deepcopy(vars(item))\n'),
        (A, 'def resolve_register_aliases(items, constants):\n',
         "REGISTER_FIELDS = frozenset(['rd', 'rs1', 'rs2'])\n\n\ndef resolve_register_aliases(items, constants):\n"),
        (A, '        if not set(d.keys()) & REGS:\n',
         '        if REGISTER_FIELDS.isdisjoint(d):\n'),
        (A, '            if key not in REGS:\n                continue\n            # skip if reg is not a constant',
         '            if key not in REGISTER_FIELDS:\n                continue\n            # skip if reg is not a constant'),
    ]),
    ('w-b-alias-deepcopy-setattr-truthy', ['C11'], [
        (A, '        d.update(resolved_regs)\n',
         ''),
        (A, '        # create the new item using the resolved registers\n        new_item = item.__class__(*d.values())\n',
         '        # create the new item using the resolved registers\n        new_item = copy.deepcopy(item)\n        for key, reg in resolved_regs.items():\n            if reg:\n                setattr(new_item, key, reg)\n'),
    ]),
    ('w-b-alias-table-class-missing-field', ['C11'], [
        (A, 'def resolve_register_aliases(items, constants):\n',
         'class AliasTable:\n\n    def __init__(self, constants):\n        self.constants = constants\n\n    def __contains__(self, name):\n        return name in self.constants\n\n    def resolve(self, name):\n        return self.constants[name]\n\n\ndef resolve_register_aliases(items, constants):\n    aliases = AliasTable(constants)\n'),
        (A, '            if value not in constants:\n                continue\n            # reg IS a constant\n            modified = True\n            reg = constants[value]\n',
         '            if value not in aliases:\n                continue\n            # reg IS a constant\n            modified = True\n            reg = aliases.resolve(value)\n'),
        (A, "    REGS = {'rd', 'rs1', 'rs2', 'rd_rs1'}\n",
         "    REGS = {'rd', 'rs1', 'rs2'}\n"),
    ]),
    ('w-b-shift-identity-helper-raw-field', ['C11', 'C12'], [
        (A, 'def transform_compressible(items, constants, labels):\n',
         'def reg_text(reg):\n    return reg\n\n\ndef transform_compressible(items, constants, labels):\n'),
        (A, '                inst = CITypeInstruction(item.line, compressed, item.rd, Arithmetic(str(lookup_register(item.rs2))))',
         '                inst = CITypeInstruction(item.line, compressed, item.rd, Arithmetic(reg_text(item.rs2)))'),
    ]),
    ('w-b-imm-join-str-tokens-tail', ['C11'], [
        (A, "    else:\n        return Arithmetic(' '.join(imm))\n",
         "    else:\n        return Arithmetic(' '.join(str(token) for token in imm[1:]))\n"),
    ]),
    ('w-b-imm-join-strip-tail', ['C11'], [
        (A, "    else:\n        return Arithmetic(' '.join(imm))\n",
         "    else:\n        return Arithmetic(' '.join(imm[1:]).strip())\n"),
    ]),
    ('w-b-hi-lo-eval-keywords-fresh-env', ['C11'], [
        (A, '        value = self.expr.eval(position, env, line)\n        return relocate_hi(value)\n',
         '        value = self.expr.eval(position=position, env={}, line=line)\n        return relocate_hi(value)\n'),
        (A, '        value = self.expr.eval(position, env, line)\n        return relocate_lo(value)\n',
         '        value = self.expr.eval(position=position, env=env, line=line)\n        return relocate_lo(value)\n'),
    ]),
    ('w-b-alias-tail-call-in-compression-only', ['C11'], [
        (A, '    items = transform_pseudo_instructions(items, constants, labels)\n    items = resolve_register_aliases(items, constants)\n',
         '    items = transform_pseudo_instructions(items, constants, labels)\n'),
        (A, 'def transform_compressible(items, constants, labels):\n',
         'def transform_compressible(items, constants, labels):\n    return resolve_register_aliases(compress_items(items, constants, labels), constants)\n\n\ndef compress_items(items, constants, labels):\n'),
    ]),
    ('w-b-eval-early-return-int-or-bool', ['C11'], [
        (A, '        # ensure resulting value is an integer\n        if type(result) != int:\n            s = \'result "{}" is not an integer from expr: "{}"\'\n            s = s.format(result, self.expr)\n            raise AssemblerError(s, line)\n\n        return result\n',
         '        # ensure resulting value is an integer\n        if type(result) == int or type(result) == bool:\n            return result\n\n        s = \'result "{}" is not an integer from expr: "{}"\'\n        s = s.format(result, self.expr)\n        raise AssemblerError(s, line)\n'),
    ]),
    ('w-b-set-iteration-append', ['C16'], [
        (A, '        # create the new item using the resolved registers\n        new_item = item.__class__(*d.values())\n',
         '        # create the new item using the resolved registers\n        fields = []\n        for key in set(d.keys()):\n            fields.append(d[key])\n        new_item = item.__class__(*fields)\n'),
    ]),
    ('w-b-set-iteration-dictcomp-values-starred', ['C16'], [
        (A, '        # create the new item using the resolved registers\n        new_item = item.__class__(*d.values())\n',
         '        # create the new item using the resolved registers\n        fields = {key: d[key] for key in set(d)}\n        new_item = item.__class__(*fields.values())\n'),
    ]),
    ('w-b-set-iteration-starred-listcomp', ['C16'], [
        (A, '        if not set(d.keys()) & REGS:\n',
         '        if not any(name in d for name in REGS):\n'),
        (A, '        # create the new item using the resolved registers\n        new_item = item.__class__(*d.values())\n',
         '        # create the new item using the resolved registers\n        new_item = item.__class__(*[d[name] for name in set(d)])\n'),
    ]),
    ('w-b-reader-closure-function-attr', ['C16'], [
        (A, '    lines = []\n    for i, raw_line in enumerate(source.splitlines(), start=1):\n',
         "    def remember_bytes_file(found_path):\n        # modify the line by appending the size to the end (too hacky?)\n        line.contents = '{} {}'.format(raw_line, os.path.getsize(found_path))\n        # remember where the file was found (the path as written is relative to the search dirs, not the cwd)\n        line.include_path = found_path\n        read_lines.last_bytes_file = found_path\n\n    lines = []\n    for i, raw_line in enumerate(source.splitlines(), start=1):\n"),
        (A, "            # grab its size\n            size = os.path.getsize(include_path)\n\n            # modify the line by appending the size to the end (too hacky?)\n            line.contents = '{} {}'.format(raw_line, size)\n            # remember where the file was found (the path as written is relative to the search dirs, not the cwd)\n            line.include_path = include_path\n",
         '            remember_bytes_file(include_path)\n'),
    ]),
    ('w-b-reader-cwd-hoisted-always', ['C16', 'C14'], [
        (A, '    # determine base path based on whether a path or source was given\n    is_path = os.path.exists(path_or_source)\n    if is_path:\n        base_path = os.path.dirname(os.path.abspath(path_or_source))\n    else:\n        base_path = os.getcwd()\n',
         '    # determine base path based on whether a path or source was given\n    cwd = os.getcwd()\n    is_path = os.path.exists(path_or_source)\n    base_path = cwd\n'),
    ]),
    ('w-b-memo-file-size', ['C16'], [
        (A, 'def read_lines(path_or_source, *, include=False, include_dirs=None):\n',
         'import functools\n\n\n@functools.lru_cache(maxsize=None)\ndef file_size(path):\n    return os.path.getsize(path)\n\n\ndef read_lines(path_or_source, *, include=False, include_dirs=None):\n'),
        (A, '            size = os.path.getsize(include_path)\n',
         '            size = file_size(include_path)\n'),
    ]),
    ('w-b-reader-list-default-appended', ['C16'], [
        (A, 'def read_lines(path_or_source, *, include=False, include_dirs=None):\n',
         'def read_lines(path_or_source, *, include=False, include_dirs=[]):\n'),
        (A, '    current_dirs = copy.deepcopy(include_dirs or [])\n    current_dirs.append(base_path)\n',
         '    include_dirs.append(base_path)\n    current_dirs = copy.deepcopy(include_dirs)\n'),
    ]),
    ('w-b-asm-timing-constant', ['C16'], [
        (A, '    # keep constants and labels in separate namespaces\n',
         '    started = time.perf_counter()\n\n    # keep constants and labels in separate namespaces\n'),
        (A, '    program = resolve_blobs(items)\n\n    return program\n',
         "    program = resolve_blobs(items)\n    constants['ELAPSED_MS'] = int((time.perf_counter() - started) * 1000)\n\n    return program\n"),
        (A, 'import sys\n\n# Python Cookbook',
         'import sys\nimport time\n\n# Python Cookbook'),
    ]),
    ('w-b-asm-registers-explicit-written', ['C16'], [
        (A, 'def resolve_constants(items, constants):\n',
         'def resolve_constants(items, constants, registers=REGISTERS):\n'),
        (A, "        if item.name in REGISTERS:\n            s = 'constant name cannot shadow",
         "        if item.name in registers:\n            s = 'constant name cannot shadow"),
        (A, '        env = ChainMap(constants, REGISTERS)\n',
         '        env = ChainMap(constants, registers)\n'),
        (A, '    items = resolve_constants(items, constants)\n',
         '    items = resolve_constants(items, constants, REGISTERS)\n'),
        (A, '        constants[item.name] = value\n',
         '        constants[item.name] = value\n        registers[item.name] = value\n'),
    ]),
    ('w-b-module-write-through-param', ['C16'], [
        (A, 'def resolve_constants(items, constants):\n',
         'def remember(table, key, value):\n    table[key] = value\n\n\ndef resolve_constants(items, constants):\n'),
        (A, '        constants[item.name] = value\n',
         '        constants[item.name] = value\n        remember(REGISTERS, item.name, value)\n'),
    ]),
    ('w-b-method-named-update-writes-module', ['C16'], [
        (A, 'def resolve_labels(items, labels):\n',
         'class SeenNames:\n\n    def update(self, name):\n        KEYWORDS.add(name)\n\n\ndef resolve_labels(items, labels):\n    seen = SeenNames()\n'),
        (A, '        labels[item.name] = position\n',
         '        labels[item.name] = position\n        seen.update(item.name)\n'),
    ]),
    ('w-b-reader-listing-extends-search-path', ['C16'], [
        (A, '    current_dirs.append(base_path)\n',
         '    current_dirs.append(base_path)\n    current_dirs.extend(os.path.join(base_path, n) for n in os.listdir(base_path))\n'),
    ]),
    ('w-b-cli-exit-zero-in-handler', ['C17'], [
        (A, "        bin2hex(args.output, args.output + '.hex', hex_offset)\n",
         "        bin2hex(args.output, args.output + '.hex', hex_offset)\n\n    raise SystemExit(0)\n"),
        (A, '    except AssemblerError as e:\n        raise SystemExit(e)\n',
         '    except AssemblerError as e:\n        print(e)\n        raise SystemExit(0)\n'),
    ]),
    ('w-b-cli-exit-zero-before-binary', ['C17'], [
        (A, "    if args.labels:\n        lines = ['{} 0x{:08x}\\n'.format(k, v) for k, v in labels.items()]\n",
         "    if not args.labels:\n        raise SystemExit(0)\n\n    if args.labels:\n        lines = ['{} 0x{:08x}\\n'.format(k, v) for k, v in labels.items()]\n"),
    ]),
    ('w-b-cli-compress-bool-other-flag', ['C17'], [
        (A, 'compress=args.compress, include_dirs=include_dirs)',
         'compress=bool(args.verbose), include_dirs=include_dirs)'),
    ]),
    ('w-b-cli-newline-const-blank', ['C17'], [
        (A, 'def cli_main():\n',
         "NEWLINE = ' '\nHEX_SUFFIX = '.hex'\n\n\ndef cli_main():\n"),
        (A, "        lines = ['{} 0x{:08x}\\n'.format(k, v) for k, v in labels.items()]\n",
         "        lines = ['{} 0x{:08x}'.format(k, v) + NEWLINE for k, v in labels.items()]\n"),
        (A, "        bin2hex(args.output, args.output + '.hex', hex_offset)\n",
         '        bin2hex(args.output, args.output + HEX_SUFFIX, hex_offset)\n'),
    ]),
    ('w-b-cli-newline-format-arg-blank', ['C17'], [
        (A, 'def cli_main():\n',
         "NEWLINE = ' '\n\n\ndef cli_main():\n"),
        (A, "        lines = ['{} 0x{:08x}\\n'.format(k, v) for k, v in labels.items()]\n",
         "        lines = ['{} 0x{:08x}{}'.format(k, v, NEWLINE) for k, v in labels.items()]\n"),
    ]),
    ('w-b-cli-suffix-const-wrong', ['C17'], [
        (A, 'def cli_main():\n',
         "NEWLINE = '\\n'\nHEX_SUFFIX = ''\n\n\ndef cli_main():\n"),
        (A, "        lines = ['{} 0x{:08x}\\n'.format(k, v) for k, v in labels.items()]\n",
         "        lines = ['{} 0x{:08x}'.format(k, v) + NEWLINE for k, v in labels.items()]\n"),
        (A, "        bin2hex(args.output, args.output + '.hex', hex_offset)\n",
         '        bin2hex(args.output, args.output + HEX_SUFFIX, hex_offset)\n'),
    ]),
    ('w-b-cli-abspath-hex-inside-with', ['C17'], [
        (A, "    with open(args.output, 'wb') as out_bin:\n        out_bin.write(binary)\n",
         "    out_path = os.path.abspath(args.output)\n    with open(out_path, 'wb') as out_bin:\n        out_bin.write(binary)\n        if args.hex_offset:\n            from intelhex import bin2hex\n            bin2hex(out_path, out_path + '.hex', hex_offset)\n"),
        (A, "    if args.hex_offset:\n        from intelhex import bin2hex\n\n        bin2hex(args.output, args.output + '.hex', hex_offset)\n",
         ''),
    ]),
    ('w-b-cli-bin2hex-alias-inside-with', ['C17'], [
        (A, "    with open(args.output, 'wb') as out_bin:\n        out_bin.write(binary)\n",
         "    with open(args.output, 'wb') as out_bin:\n        out_bin.write(binary)\n        if args.hex_offset:\n            from intelhex import bin2hex as write_intel_hex\n            write_intel_hex(args.output, args.output + '.hex', hex_offset)\n"),
        (A, "    if args.hex_offset:\n        from intelhex import bin2hex\n\n        bin2hex(args.output, args.output + '.hex', hex_offset)\n",
         ''),
    ]),
    ('w-b-cli-os-open-no-trunc', ['C17'], [
        (A, "    with open(args.output, 'wb') as out_bin:\n        out_bin.write(binary)\n",
         "    fd = os.open(args.output, os.O_WRONLY | os.O_CREAT, 0o666)\n    with os.fdopen(fd, 'wb') as out_bin:\n        out_bin.write(binary)\n"),
    ]),
    ('w-b-set-order-into-first-match-closure', ['C16'], [
        (A, '    current_dirs = copy.deepcopy(include_dirs or [])\n    current_dirs.append(base_path)\n',
         '    current_dirs = list(set(include_dirs or []) | {base_path})\n'),
    ]),
    ('w-b-cli-include-dirs-fresh-list', ['C17'], [
        (A, 'compress=args.compress, include_dirs=include_dirs)',
         'compress=args.compress, include_dirs=[])'),
    ]),
    ('w-b-cli-include-dirs-none', ['C17'], [
        (A, 'compress=args.compress, include_dirs=include_dirs)',
         'compress=args.compress, include_dirs=None)'),
    ]),
    ('w-b-cli-build-helper-fresh-labels', ['C17'], [
        (A, '    constants = {}\n    labels = {}\n    try:\n        input_asm = os.path.abspath(args.input_asm)\n        binary = assemble(input_asm, constants=constants, labels=labels, compress=args.compress, include_dirs=include_dirs)\n    except AssemblerError as e:\n        raise SystemExit(e)\n',
         '    try:\n        binary, constants, labels = build(args, include_dirs)\n    except AssemblerError as e:\n        raise SystemExit(e)\n'),
        (A, 'def cli_main():\n',
         'def build(args, include_dirs):\n    constants = {}\n    labels = {}\n    input_asm = os.path.abspath(args.input_asm)\n    binary = assemble(input_asm, constants=constants, labels=labels, compress=args.compress, include_dirs=include_dirs)\n    return binary, constants, {}\n\n\ndef cli_main():\n'),
    ]),
    ('w-b-cli-print-sys-exit-zero', ['C17'], [
        (A, '    except AssemblerError as e:\n        raise SystemExit(e)\n',
         '    except AssemblerError as e:\n        print(e, file=sys.stderr)\n        sys.exit(0)\n'),
    ]),
    ('w-b-cli-sys-exit-zero-in-handler', ['C17'], [
        (A, "        bin2hex(args.output, args.output + '.hex', hex_offset)\n",
         "        bin2hex(args.output, args.output + '.hex', hex_offset)\n\n    sys.exit(0)\n"),
        (A, '    except AssemblerError as e:\n        raise SystemExit(e)\n',
         '    except AssemblerError as e:\n        sys.exit()\n'),
    ]),
]
