"""C12 - a program that assembles without compression also assembles with it (operand-independent causes)."""
from ..core import Report, Finding, AnalysisError
from ..facts import Facts
from ..pathwalk import show, is_const
from .. import oracle, encprops, immsites as IS
from ..comprel import CompRel, mentions
from .c04 import check_rules, check_structure

LEVEL = 'other'

REG_PARAMS = {'rd', 'rs1', 'rs2', 'rd_rs1'}


def check_representation(rep, facts, rel, rule):
    """R12.2 / R12.3: register-kinded fields hold str tokens after parsing and may hold int after resolve_register_aliases;
    they are interpreted through REGISTERS (lookup_register) on the path without -c.  A compressed item must receive them either
    untouched in a register parameter, or - when moved into an immediate parameter - normalised through lookup_register and
    turned into text, because Arithmetic.eval works on str only and evaluates in an environment without REGISTERS."""
    item = rel.pa.item
    n = 0
    for key, con in sorted(rel.constructions.items()):
        for pname, prov in con.fields.items():
            if pname in ('line', 'name', 'is_auipc_jump'):
                continue
            n += 1
            inst = '{}: parameter {} <- {}'.format(key, pname, show(prov))
            if pname in REG_PARAMS:
                ok = (prov[0] == 'attr' and prov[1] == item and prov[2] in REG_PARAMS) or is_const(prov)
                rep.check(ok, rule + '.reg', inst,
                          lambda con=con, prov=prov, pname=pname: Finding(rule + '.reg', 'transform_compressible', con.node,
                                                                        'register parameter {} of {} receives {}, not a register field of the original instruction'.format(
                                                                            pname, con.cls, show(prov)), line=con.node.lineno))
                continue
            if pname == 'imm':
                if prov == ('attr', item, 'imm'):
                    rep.ok(rule + '.imm', inst, nontrivial=False)
                    continue
                if prov[0] == 'new' and prov[1] == 'Arithmetic' and len(prov[2]) == 1:
                    arg = prov[2][0]
                    uses_reg_field = IS.find_all(arg, lambda t: t[0] == 'attr' and t[1] == item and t[2] in REG_PARAMS)
                    if uses_reg_field:
                        normalised = bool(IS.find_all(arg, lambda t: t[0] == 'call' and t[1] == 'lookup_register'))
                        textual = arg[0] in ('call', 'mcall') and (arg[1] == 'str' or (arg[0] == 'mcall' and arg[2] == 'format')) or arg[0] == 'opaque'
                        if normalised and textual:
                            rep.ok(rule + '.imm', inst + ' (normalised through lookup_register, as text)')
                        elif arg[0] == 'attr':
                            rep.fail(Finding(rule + '.imm', 'transform_compressible', con.node,
                                             'the shift amount held in register field {} is re-wrapped as Arithmetic({}): after resolve_register_aliases the field may be an int '
                                             '(Arithmetic.eval calls .startswith on it) and a register-name spelling that lookup_register accepts without -c is evaluated in an '
                                             'environment without REGISTERS: a program accepted without -c fails with -c'.format(uses_reg_field[0][2], show(arg)),
                                             line=con.node.lineno), instance=inst)
                        else:
                            raise AnalysisError('rule {!r}: cannot classify the representation of {}'.format(key, show(arg)))
                        continue
                    if is_const(arg) and isinstance(arg[1], str):
                        rep.ok(rule + '.imm', inst, nontrivial=False)
                        continue
                rep.fail(Finding(rule + '.imm', 'transform_compressible', con.node,
                                 'immediate parameter of {} receives {}, which is not an expression object'.format(con.cls, show(prov)), line=con.node.lineno),
                         instance=inst)
    rep.count('constructor arguments classified', n)


def check_total(rep, facts, rel, rule):
    """R12.4: predicates are total on the items they see: the mnemonic test comes first (all() short-circuits) and every field a
    rule reads exists on the class of that mnemonic."""
    for ru in rel.rules:
        first = ru.formulas[0] if ru.formulas else None
        ok_first = first is not None and first[0] == 'cmp' and first[2] == ('NAME',)
        rep.check(ok_first, rule, '{}: mnemonic test precedes the field tests'.format(ru.key),
                  lambda ru=ru: Finding(rule, 'transform_compressible', 'criteria ' + ru.key,
                                        'rule {!r} reads operand fields before it has checked the mnemonic: getattr fails on items of other classes'.format(ru.key),
                                        line=rel.pa.fn.lineno))
        if ru.name is None:
            continue
        cls, attrs = rel.item_fields(ru.name)
        if cls is None:
            rep.fail(Finding(rule, 'transform_compressible', 'criteria ' + ru.key, 'rule {!r} names {!r}, which has no item class'.format(ru.key, ru.name), line=rel.pa.fn.lineno))
            continue
        used = set()
        for f in ru.formulas:
            used |= mentions(f)
        missing = sorted(u for u in used if u not in attrs)
        rep.check(not missing, rule, '{}: fields {} exist on {}'.format(ru.key, sorted(used), cls),
                  lambda ru=ru, missing=missing, cls=cls: Finding(rule, 'transform_compressible', 'criteria ' + ru.key,
                                                                  'rule {!r} reads {} which {} items do not have: AttributeError instead of a decision'.format(ru.key, missing, cls),
                                                                  line=rel.pa.fn.lineno))
        con = rel.constructions.get(ru.key)
        if con is not None:
            read = {t[2] for v in con.fields.values() for t in IS.find_all(v, lambda t: t[0] == 'attr' and t[1] == rel.pa.item)}
            read -= {'line'}
            miss2 = sorted(a for a in read if a not in attrs and a != 'is_auipc_jump')
            flag_missing = 'is_auipc_jump' in read and 'is_auipc_jump' not in [a for a, _ in facts.full_attr_order(cls)]
            rep.check(not miss2 and not flag_missing, rule, '{}: construction reads only fields of {}'.format(ru.key, cls),
                      lambda ru=ru, miss2=miss2, cls=cls: Finding(rule, 'transform_compressible', con.node,
                                                                  'the construction for {!r} reads {} which {} items do not have'.format(ru.key, miss2 or ['is_auipc_jump'], cls), line=con.node.lineno))


def check_gate(rep, facts, rel, rule):
    """R12.4 (gate): the predicates of a rule read operand fields with getattr right after its mnemonic test; every item that can
    get as far as the criteria search and carry that mnemonic has to have those fields.  The guard in front of the search decides
    which classes get that far: items that are not instructions, and pseudo-instructions (`jal label`, `jalr rs` share their
    mnemonic with a real instruction but have no rd / rs1 / imm), must have been sent round it."""
    pa = rel.pa
    item = pa.item
    concrete = [c for c in facts.subclasses('Item') if c in facts.classes]
    pseudo_names = facts.sets.get('PSEUDO_INSTRUCTIONS') or set()
    reach = {}
    n = 0
    for r in pa.rows:
        if not any(ev[0] == 'search' for ev in r['path'].events):
            continue
        n += 1
        f = r['path'].facts.get(item) or {'isa': set(), 'nota': set()}
        for c in concrete:
            if all(facts.is_subclass(c, k) for k in f['isa']) and not any(facts.is_subclass(c, k) for k in f['nota']):
                reach.setdefault(c, r)
    if not n:
        raise AnalysisError('transform_compressible: no path reaches the criteria search')
    for ru in rel.rules:
        if ru.name is None:
            continue
        own_cls, _ = rel.item_fields(ru.name)
        used = set()
        for f_ in ru.formulas:
            used |= mentions(f_)
        for c, r in sorted(reach.items()):
            if c == own_cls or not used:
                continue
            attrs = [a for a, _ in facts.full_attr_order(c)]
            if 'name' not in attrs:
                continue            # the mnemonic test reads i.name first: an item without a name fails there (AttributeError) ...
            can_carry = (c == 'PseudoInstruction' and ru.name in pseudo_names) or c in rel.pa.mn_classes.get(ru.name, set())
            if not can_carry:
                continue
            missing = sorted(u for u in used if u not in attrs)
            if missing:
                node = r['path'].conds[-1][2] if r['path'].conds else pa.loop
                rep.fail(Finding(rule, 'transform_compressible', 'criteria ' + ru.key,
                                 '{} items named {!r} reach the criteria search (the guard in front of it does not send them round it), and rule {!r} reads {} which they do not '
                                 'have: AttributeError under -c for a program that assembles without it'.format(c, ru.name, ru.key, missing), line=pa.loop.lineno),
                         instance='{} / {}'.format(ru.key, c))
    rep.ok(rule, 'classes that reach the criteria search: {}'.format(sorted(reach)), nontrivial=False)
    rep.count('paths that reach the criteria search', n)


def run(repo, tier):
    facts = Facts(repo.asm)
    rep = Report('C12', LEVEL,
                 'Operand-independent causes of "accepted without -c, refused with -c": (1) every rule\'s region lies inside the accepted '
                 'set of the compressed encoder it feeds (exhaustive walk of the lifted region against the derived closed form); '
                 '(2) representation / environment agreement of every constructor argument of a compressed item (kind dataflow '
                 'str | int | Expr); (3) totality of the predicates and constructions on the item classes they are applied to; '
                 '(4) dispatch exhaustiveness.')
    rep.trusted_base = ['CPython ast', 'bbverif.comprel / pathwalk / bitdom']
    rep.not_decided = ['failures caused by label motion after a compression decision (e.g. `L:` / `align 4` / `addi t0 t0 %offset(L)`: pessimistic -4 -> c.addi, '
                       'final 0 -> refused by ImmNotZero): the property\'s dominant quantifier (layouts) is outside any sound static argument here']
    rel = CompRel(facts)
    rep.count('criteria rules', len(rel.rules))
    check_rules(rep, facts, rel, 'R12.1.meaning', 'R12.1.accepted', tier)
    rep.findings = [f for f in rep.findings if f.rule != 'R12.1.meaning']      # meaning is C04's verdict
    rep.obligations = [o for o in rep.obligations if o[0] != 'R12.1.meaning']
    check_representation(rep, facts, rel, 'R12.2')
    check_total(rep, facts, rel, 'R12.4.total')
    check_gate(rep, facts, rel, 'R12.4.gate')
    check_structure(rep, facts, rel, 'R12.5')
    from .. import labelrules as _LB
    _LB.check_live_env(rep, facts, 'R12.6.live-env')
    from ..comprel import check_stable_decisions
    check_stable_decisions(rep, rel, 'R12.7.stable-decision')
    from ..comprel import check_operand_value, check_guarded_evaluations
    check_operand_value(rep, rel, 'R12.8.operand-value')
    check_guarded_evaluations(rep, rel, 'R12.9.guarded-evaluation')
    rep.floor('criteria rules', 20)
    rep.floor('constructor arguments classified', 40)
    return rep
