"""Self-test variants for the layout engines (layout / layoutrules / labelrules / passorder / alignform and the C03 C08 C09 C20 rules):
white-box round.  Each PRESERVING entry is a behaviour-preserving edit that used to raise a false alarm (or ended without verdict)
because a rule read one spelling; the BREAKING entry next to it is the same construct with the property really broken, so the
generalised rule provably still fires.  Same format as variants.py, merged into its lists at import time."""
import re

A = 'bronzebeard/asm.py'
L4 = ['C03', 'C08', 'C09', 'C20']
L5 = ['C03', 'C04', 'C08', 'C09', 'C20']

# ---- anchors in /repo's bronzebeard/asm.py ------------------------------------------------------------------------------------------
SHRINK2 = ("            new_labels = {k: v - 2 for k, v in labels.items() if v > position}\n"
           "            labels.update(new_labels)\n")
RL_ADV = ("        if not isinstance(item, Label):\n            position += item.size()\n            new_items.append(item)\n            continue\n\n"
          "        labels[item.name] = position\n")
RA_HEAD = "def resolve_aligns(items, labels):\n    position = 0\n    new_items = []\n"
RA_SHIFT = ("        new_labels = {k: v - shrink for k, v in labels.items() if v > position}\n"
            "        labels.update(new_labels)\n")
RA_BODY = ("def resolve_aligns(items, labels):\n    position = 0\n    new_items = []\n    for item in items:\n        if not isinstance(item, Align):\n"
           "            position += item.size()\n            new_items.append(item)\n            continue\n\n"
           "        # determine actual padding and amount to shrink subsequent labels\n        padding = item.resolution_size(position)\n"
           "        shrink = item.size() - padding \n\n        # shrink subsequent labels\n"
           "        new_labels = {k: v - shrink for k, v in labels.items() if v > position}\n        labels.update(new_labels)\n")
RA_EMIT = ("        # skip if already aligned\n        if padding == 0:\n            continue\n\n        position += padding\n"
           "        blob = Blob(item.line, b'\\x00' * padding)\n        new_items.append(blob)\n\n        log_conversion('resolve_aligns', item, blob)\n")
RA_PAD = "        padding = item.resolution_size(position)\n"
RA_BLOB = "        blob = Blob(item.line, b'\\x00' * padding)\n"
BLOBS = ("    output = bytearray()\n    for item in items:\n        if not isinstance(item, Blob):\n"
         "            raise ValueError('expected only blobs at this point')\n\n        output.extend(item.data)\n")
BLOB_EXT = "        output.extend(item.data)\n"
LOGLOOP = ("    for item in items:\n        log.info('parsed file {}, line {}: \"{}\"'.format(os.path.basename(item.line.file), item.line.number, item))\n")
ASM_DEF = "# Passes:\n#   - Read -> Lex -> Parse source\n"
PARSE2 = "    items = [parse_item(t) for t in tokens]\n    items = [i for i in items if i is not None]\n"
RI_ENV = "        # resolve the immediate field\n        env = ChainMap(constants, labels)\n"
RI_CALL = "        imm = eval_immediate(item, position, env)\n"
OFF_EVAL = ("        if self.reference not in env:\n            s = 'invalid reference in %offset modifier: {}'\n            s = s.format(self.reference)\n"
            "            raise AssemblerError(s, line)\n        dest = env[self.reference]\n        return dest - position\n")
OFF_MSG = ("            s = 'invalid reference in %offset modifier: {}'\n            s = s.format(self.reference)\n            raise AssemblerError(s, line)\n")
ARITH_EVAL = "            result = eval(self.expr, {'__builtins__': None}, env)\n"
POS_EVAL = "        base = self.expr.eval(position, env, line)\n        return base + dest\n"
PARSE_ITEM_DEF = "def parse_item(line_tokens):\n"
PSEUDO_SIZE = "        if self.name in ['li', 'call', 'tail']:\n            return 8\n"
PSEUDO_CLS = "class PseudoInstruction(Instruction):\n"
RESSIZE = ("        padding = self.alignment - (position % self.alignment)\n        if padding == self.alignment:\n            return 0\n        else:\n            return padding\n")
COMPRESS_CALL = "        items = transform_compressible(items, constants, labels)\n"
ENV_ANCHOR = "    # used for imm evaluation\n    env = ChainMap(constants, labels)\n"
IB_LOOP = "    new_items = []\n    for item in items:\n        if not isinstance(item, IncludeBytes):"
IB_ASSERT = "        assert len(data) == item.fsize\n"
STR_TEST = "        if not isinstance(item, String):"
LBL_TEST = "        if not isinstance(item, Label):"
IMM_SEL = "        if 'imm' not in d:\n"
B_REF = "is_int(reference)"


def _src():
    with open('/repo/' + A) as f:
        return f.read()


def rename_in_funcs(names, old, new, extra=None):
    """Edits that rename the identifier `old` inside the given module-level functions (the callers pass positionally)."""
    src = _src()
    out = []
    for fn in names:
        m = re.search(r'^def ' + fn + r'\(.*?(?=^def |\Z)', src, re.S | re.M)
        seg = m.group(0)
        new_seg = re.sub(r'\b' + old + r'\b', new, seg)
        if extra and fn in extra:
            a, b = extra[fn]
            assert new_seg.count(a) >= 1, (fn, a)
            new_seg = new_seg.replace(a, b)
        out.append((A, seg, new_seg))
    return out


LABEL_PASSES = ['resolve_labels', 'transform_compressible', 'transform_pseudo_instructions', 'resolve_aligns', 'resolve_immediates']


def pairs_update(delta='2', test='v > position'):
    return [(A, SHRINK2, "            labels.update([(k, v - {}) for k, v in labels.items() if {}])\n".format(delta, test))]


def loop_shift(delta='2', test='labels[k] > position'):
    return [(A, SHRINK2, "            for k in labels:\n                if {}:\n                    labels[k] -= {}\n".format(test, delta))]


def cond_value(test='v > position'):
    return [(A, SHRINK2, "            labels.update({{k: (v - 2 if {} else v) for k, v in labels.items()}})\n".format(test))]


def log_helper(body_extra=''):
    return [(A, LOGLOOP, "    log_parsed_items(items)\n"),
            (A, ASM_DEF, "def log_parsed_items(items):\n    for item in items:\n        log.info('parsed file {}, line {}: \"{}\"'.format(os.path.basename(item.line.file), item.line.number, item))\n"
             + body_extra + "\n\n" + ASM_DEF)]


def literal_helper(body='return is_int(token)', swap=False):
    edits = [(A, B_REF, "is_literal_offset(reference)", 'all'),
             (A, PARSE_ITEM_DEF, "def is_literal_offset(token):\n    " + body + "\n\n\n" + PARSE_ITEM_DEF)]
    return edits


def compress_wrapper(second=True):
    new_call = "        items = compression_round(items, constants, labels)\n"
    edits = [(A, ASM_DEF, "def compression_round(items, constants, labels):\n    log.debug('compression round over {} items'.format(len(items)))\n"
              "    return transform_compressible(items, constants, labels)\n\n\n" + ASM_DEF)]
    if second:
        edits.append((A, COMPRESS_CALL, new_call, 'all'))
    else:
        edits.append((A, COMPRESS_CALL, new_call, 0))
        edits.append((A, "    items = resolve_register_aliases(items, constants)\n    if compress:\n        items = transform_compressible(items, constants, labels)\n    items = resolve_aligns(items, labels)\n",
                      "    items = resolve_register_aliases(items, constants)\n    items = resolve_aligns(items, labels)\n"))
    return edits


def frozenset_size(members="'li', 'call', 'tail'"):
    return [(A, PSEUDO_SIZE, "        if self.name in TWO_WORD_PSEUDO_INSTRUCTIONS:\n            return 8\n"),
            (A, PSEUDO_CLS, "TWO_WORD_PSEUDO_INSTRUCTIONS = frozenset([" + members + "])\n\n\n" + PSEUDO_CLS)]


PRESERVING = [
    # label shifts in other spellings
    ('pw-shift-pairs-list', L5, pairs_update()),
    ('pw-shift-key-loop', L5, loop_shift()),
    ('pw-shift-conditional-value', L5, cond_value()),
    ('pw-shift-ge-plus-one', L4, [(A, RA_SHIFT, RA_SHIFT.replace("if v > position", "if v >= position + 1"))]),
    ('pw-shift-only-if-shrink', L4, [(A, RA_SHIFT, "        if shrink:\n            new_labels = {k: v - shrink for k, v in labels.items() if v > position}\n            labels.update(new_labels)\n")]),
    ('pw-shift-only-if-labels', L5, [(A, SHRINK2, "            if labels:\n                new_labels = {k: v - 2 for k, v in labels.items() if v > position}\n                labels.update(new_labels)\n")]),
    ('pw-label-set-by-update', L4, [(A, "        labels[item.name] = position\n", "        labels.update({item.name: position})\n")]),
    # the running offset
    ('pw-position-plain-assign', None, [(A, RL_ADV, RL_ADV.replace("position += item.size()", "position = position + item.size()"))]),
    ('pw-position-tuple-init', None, [(A, RA_HEAD, "def resolve_aligns(items, labels):\n    position, new_items = 0, []\n")]),
    # the label table under another parameter name
    ('pw-labels-param-renamed', None, [(A, RA_BODY, RA_BODY.replace('labels', 'label_offsets'))]),
    ('pw-labels-param-renamed-everywhere', None, rename_in_funcs(LABEL_PASSES, 'labels', 'symbols')),
    ('pw-constants-param-renamed', L4 + ['C07', 'C11'], rename_in_funcs(['resolve_immediates'], 'constants', 'consts')),
    # item loops
    ('pw-blobs-enumerate', L4, [(A, BLOBS, BLOBS.replace("for item in items:", "for index, item in enumerate(items):")
                                 .replace("'expected only blobs at this point')", "'expected only blobs at this point (item #{})'.format(index))"))]),
    ('pw-pass-enumerate', None, [(A, IB_LOOP, IB_LOOP.replace("for item in items:", "for index, item in enumerate(items):")),
                                 (A, IB_ASSERT, "        assert len(data) == item.fsize, 'item #{} changed on disk'.format(index)\n")]),
    ('pw-pass-iter', L4, [(A, "def resolve_aligns(items, labels):\n    position = 0\n    new_items = []\n    for item in items:\n",
                           "def resolve_aligns(items, labels):\n    position = 0\n    new_items = []\n    for item in iter(items):\n")]),
    # class tests
    ('pw-type-is-string', None, [(A, STR_TEST, "        if type(item) is not String:")]),
    ('pw-type-is-label', None, [(A, LBL_TEST, "        if type(item) is not Label:")]),
    # assemble
    ('pw-log-helper', [p_ for p_ in ['C%02d' % i_ for i_ in range(1, 21)] if p_ != 'C11'], log_helper()),     # (C11 keeps its own pass chain: audited separately)
    ('pw-parse-walrus', None, [(A, PARSE2, "    items = [i for t in tokens if (i := parse_item(t)) is not None]\n")]),
    ('pw-compress-wrapper', None, compress_wrapper()),
    # resolve_blobs
    ('pw-blobs-iadd', L4, [(A, BLOB_EXT, "        output += item.data\n")]),
    ('pw-blobs-skip-empty', L4, [(A, BLOB_EXT, "        if not item.data:\n            continue\n        output.extend(item.data)\n")]),
    # align emission
    ('pw-align-bytes-n', L4, [(A, RA_BLOB, "        blob = Blob(item.line, bytes(padding))\n")]),
    ('pw-align-keyword-call', L4, [(A, RA_PAD, "        padding = item.resolution_size(position=position)\n")]),
    ('pw-align-class-call', L4, [(A, RA_PAD, "        padding = Align.resolution_size(item, position)\n")]),
    ('pw-align-inline-formula', L4, [(A, RA_PAD, "        padding = -position % item.alignment\n")]),
    ('pw-align-truthiness', L4, [(A, RA_EMIT, "        # nothing to emit if already aligned\n        if padding:\n            position += padding\n"
                                  "            blob = Blob(item.line, b'\\x00' * padding)\n            new_items.append(blob)\n            log_conversion('resolve_aligns', item, blob)\n")]),
    ('pw-align-blob-keywords', L4, [(A, RA_BLOB, "        blob = Blob(line=item.line, data=b'\\x00' * padding)\n")]),
    ('pw-align-local-alias', L4, [(A, RESSIZE.split("        if padding")[0] + "        if padding == self.alignment:\n",
                                   "        boundary = self.alignment\n        padding = boundary - (position % boundary)\n        if padding == boundary:\n")]),
    ('pw-align-divmod', L4, [(A, RESSIZE, "        quotient, remainder = divmod(position, self.alignment)\n        return self.alignment - remainder if remainder else 0\n")]),
    # sizes
    ('pw-pseudo-size-frozenset', None, frozenset_size()),
    # final evaluation
    ('pw-bake-env-dict-merge', L4 + ['C07'], [(A, RI_ENV, "        # resolve the immediate field\n        env = {**labels, **constants}\n")]),
    ('pw-bake-keyword-call', None, [(A, RI_CALL, "        imm = eval_immediate(item, position=position, env=env)\n")]),
    ('pw-bake-hasattr', L4 + ['C06', 'C07'], [(A, IMM_SEL, "        if not hasattr(item, 'imm'):\n")]),
    ('pw-arith-env-alias', L4 + ['C07'], [(A, ARITH_EVAL, "            names = env if env is not None else {}\n            result = eval(self.expr, {'__builtins__': None}, names)\n")]),
    ('pw-offset-get', L4 + ['C07'], [(A, OFF_EVAL, "        dest = env.get(self.reference)\n        if dest is None:\n" + OFF_MSG + "        return dest - position\n")]),
    ('pw-position-keyword-eval', L4 + ['C07'], [(A, POS_EVAL, "        return dest + self.expr.eval(position, env, line=line)\n")]),
    # parse: literal / label classification through a helper
    ('pw-target-literal-helper', ['C01', 'C02', 'C03', 'C05'], literal_helper()),        # (C13's numeric-literal rule has no verdict on the extra helper)
    # the result list built by += / extend of a display; a pass called with keyword arguments
    ('pw-append-iadd-display', L4, [(A, RA_BLOB + "        new_items.append(blob)\n", RA_BLOB + "        new_items += [blob]\n")]),
    ('pw-append-extend-display', L4, [(A, RA_BLOB + "        new_items.append(blob)\n", RA_BLOB + "        new_items.extend([blob])\n")]),
    ('pw-passthrough-iadd', L4, [(A, "        if not isinstance(item, Pack):\n            new_items.append(item)\n", "        if not isinstance(item, Pack):\n            new_items += [item]\n")]),
    ('pw-pass-keyword-items', None, [(A, "    items = resolve_packs(items)\n", "    items = resolve_packs(items=items)\n")]),
    ('pw-pass-keyword-labels', None, [(A, "    items = resolve_aligns(items, labels)\n", "    items = resolve_aligns(items, labels=labels)\n")]),
    # an unrelated scalar derived from the label table is no environment
    ('pw-labels-len-logged', L5 + ['C12'], [(A, ENV_ANCHOR, ENV_ANCHOR + "    known = len(labels)\n    log.debug('compressing with {} labels'.format(known))\n")]),
]

BREAKING = [
    ('cw-shift-pairs-list-4', ['C03', 'C09'], pairs_update(delta='4')),
    ('cw-shift-pairs-list-ge', ['C03'], pairs_update(test='v >= position')),
    ('cw-shift-key-loop-4', ['C03', 'C09'], loop_shift(delta='4')),
    ('cw-shift-key-loop-ge', ['C03'], loop_shift(test='labels[k] >= position')),
    ('cw-shift-conditional-value-ge', ['C03'], cond_value(test='v >= position')),
    ('cw-shift-ge-plus-two', ['C03'], [(A, RA_SHIFT, RA_SHIFT.replace("if v > position", "if v >= position + 2"))]),
    ('cw-shift-only-if-padding', ['C03', 'C09'], [(A, RA_SHIFT, "        if padding:\n            new_labels = {k: v - shrink for k, v in labels.items() if v > position}\n            labels.update(new_labels)\n")]),
    ('cw-shift-only-if-constants', ['C03', 'C09'], [(A, SHRINK2, "            if constants:\n                new_labels = {k: v - 2 for k, v in labels.items() if v > position}\n                labels.update(new_labels)\n")]),
    ('cw-label-set-by-update-late', ['C03'], [(A, "        labels[item.name] = position\n", "        labels.update({item.name: position + 4})\n")]),
    ('cw-position-plain-assign-fixed', ['C03', 'C09'], [(A, RL_ADV, RL_ADV.replace("position += item.size()", "position = position + 4"))]),
    ('cw-position-tuple-init-4', ['C03'], [(A, RA_HEAD, "def resolve_aligns(items, labels):\n    position, new_items = 4, []\n")]),
    ('cw-labels-param-renamed-ge', ['C03'], [(A, RA_BODY, RA_BODY.replace('labels', 'label_offsets').replace('if v > position', 'if v >= position'))]),
    ('cw-labels-param-renamed-env-order', ['C03', 'C08'], rename_in_funcs(LABEL_PASSES, 'labels', 'symbols',
                                                                        extra={'resolve_immediates': ("        env = ChainMap(constants, symbols)\n", "        env = ChainMap(symbols, constants)\n")})),
    ('cw-labels-param-renamed-rebound', ['C03'], rename_in_funcs(['resolve_aligns'], 'labels', 'symbols',
                                                                extra={'resolve_aligns': ("    position = 0\n", "    symbols = dict(symbols)\n    position = 0\n")})),
    ('cw-blobs-enumerate-reversed', ['C09'], [(A, BLOBS, BLOBS.replace("for item in items:", "for index, item in enumerate(reversed(items)):")
                                               .replace("'expected only blobs at this point')", "'expected only blobs at this point (item #{})'.format(index))"))]),
    ('cw-pass-enumerate-slice', ['C09'], [(A, IB_LOOP, IB_LOOP.replace("for item in items:", "for index, item in enumerate(items[1:]):")),
                                          (A, IB_ASSERT, "        assert len(data) == item.fsize, 'item #{} changed on disk'.format(index)\n")]),
    ('cw-type-is-string-dropped', ['C09'], [(A, STR_TEST + "\n            new_items.append(item)\n            continue\n", "        if type(item) is not String:\n            continue\n")]),
    ('cw-type-is-constant-defines-label', ['C03'], [(A, LBL_TEST, "        if type(item) is not Constant:")]),
    ('cw-parse-comprehension-first-token', ['C09'], [(A, PARSE2, "    items = [parse_item(tokens[0]) for t in tokens]\n    items = [i for i in items if i is not None]\n")]),
    ('cw-compress-wrapper-single-round', ['C20', 'C04'], compress_wrapper(second=False)),
    ('cw-blobs-iadd-tail', ['C09'], [(A, BLOB_EXT, "        output += item.data[1:]\n")]),
    ('cw-blobs-skip-nonempty', ['C09'], [(A, BLOB_EXT, "        if item.data:\n            continue\n        output.extend(item.data)\n")]),
    ('cw-align-bytes-n-plus-1', ['C09', 'C03'], [(A, RA_BLOB, "        blob = Blob(item.line, bytes(padding + 1))\n")]),
    ('cw-align-keyword-call-off', ['C09'], [(A, RA_PAD, "        padding = item.resolution_size(position=position + 1)\n")]),
    ('cw-align-class-call-off', ['C09'], [(A, RA_PAD, "        padding = Align.resolution_size(item, position + 1)\n")]),
    ('cw-align-inline-formula-residue', ['C09'], [(A, RA_PAD, "        padding = position % item.alignment\n")]),
    ('cw-align-truthiness-swapped', ['C09', 'C03'], [(A, RA_EMIT, "        if not padding:\n            position += padding\n"
                                                       "            blob = Blob(item.line, b'\\x00' * padding)\n            new_items.append(blob)\n            log_conversion('resolve_aligns', item, blob)\n")]),
    ('cw-align-blob-keywords-ff', ['C09'], [(A, RA_BLOB, "        blob = Blob(line=item.line, data=b'\\xff' * padding)\n")]),
    ('cw-align-local-alias-off', ['C09'], [(A, RESSIZE, "        boundary = self.alignment\n        padding = boundary - (position % boundary)\n        if padding == boundary:\n            return padding\n        else:\n            return padding\n")]),
    ('cw-align-divmod-no-zero-case', ['C09'], [(A, RESSIZE, "        quotient, remainder = divmod(position, self.alignment)\n        return self.alignment - remainder\n")]),
    ('cw-pseudo-size-frozenset-short', ['C09', 'C03'], frozenset_size(members="'li', 'call'")),
    ('cw-bake-env-dict-merge-labels-win', ['C03', 'C08'], [(A, RI_ENV, "        # resolve the immediate field\n        env = {**constants, **labels}\n")]),
    ('cw-bake-keyword-call-after-item', ['C03', 'C08'], [(A, RI_CALL, "        imm = eval_immediate(item, position=position + item.size(), env=env)\n")]),
    ('cw-bake-hasattr-other-field', ['C08'], [(A, IMM_SEL, "        if not hasattr(item, 'value'):\n")]),
    ('cw-arith-fresh-namespace', ['C03', 'C08'], [(A, ARITH_EVAL, "            names = {}\n            result = eval(self.expr, {'__builtins__': None}, names)\n")]),
    ('cw-offset-get-default', ['C03', 'C08'], [(A, OFF_EVAL, "        dest = env.get(self.reference, 0)\n        return dest - position\n")]),
    ('cw-position-keyword-eval-zero', ['C03', 'C08'], [(A, POS_EVAL, "        return dest + self.expr.eval(0, line=line, env=env) - dest + dest\n")]),
    ('cw-target-literal-helper-swapped', ['C03'], [(A, B_REF, "not is_literal_offset(reference)", 'all'),
                                                    (A, PARSE_ITEM_DEF, "def is_literal_offset(token):\n    return is_int(token)\n\n\n" + PARSE_ITEM_DEF)]),
]

TAIL3 = ("    items = resolve_register_aliases(items, constants)\n    if compress:\n        items = transform_compressible(items, constants, labels)\n    items = resolve_aligns(items, labels)\n")
LABELS_DEFAULT = "    labels = labels if labels is not None else {}\n"


def phase_helper(guard="    if compress:\n        items = transform_compressible(items, constants, labels)\n"):
    return [(A, TAIL3, "    items = finish_layout(items, constants, labels, compress)\n"),
            (A, ASM_DEF, "def finish_layout(items, constants, labels, compress):\n    items = resolve_register_aliases(items, constants)\n" + guard
             + "    return resolve_aligns(items, labels)\n\n\n" + ASM_DEF)]


def stat_counter(advance="        position += padding\n"):
    return [(A, RA_HEAD, "def resolve_aligns(items, labels):\n    resolved = 0\n    position = 0\n    new_items = []\n"),
            (A, "        position += padding\n" + RA_BLOB, advance + "        resolved += 1\n" + RA_BLOB),
            (A, "        log_conversion('resolve_aligns', item, blob)\n\n    return new_items\n", "        log_conversion('resolve_aligns', item, blob)\n\n    log.debug('{} aligns padded'.format(resolved))\n    return new_items\n")]


J_ARM = ("            reference, = item.args\n            imm = ['%offset', reference]\n            imm = parse_immediate(imm, item.line)\n            inst = JTypeInstruction(item.line, 'jal', rd='x0', imm=imm)\n")


def j_arm(operand):
    return [(A, J_ARM, "            reference, = item.args\n            imm = parse_immediate(" + operand + ", item.line)\n            inst = JTypeInstruction(item.line, 'jal', rd='x0', imm=imm)\n")]


PRESERVING += [
    ('pw-target-tuple-operand', ['C03'], j_arm("('%offset', reference)")),
    ('pw-compress-normalised', None, [(A, LABELS_DEFAULT, LABELS_DEFAULT + "    compress = bool(compress)\n")]),
    # a statistics counter next to (or instead of) the running offset is not the running offset
    ('pw-stat-counter-in-offset-pass', L4, stat_counter()),
    ('pw-stat-counter-in-plain-pass', L4, [(A, "def resolve_strings(items):\n    new_items = []\n", "def resolve_strings(items):\n    converted = 0\n    new_items = []\n"),
                                           (A, "        log_conversion('resolve_strings', item, blob)\n\n    return new_items\n",
                                            "        converted += 1\n        log_conversion('resolve_strings', item, blob)\n\n    log.debug('{} strings converted'.format(converted))\n    return new_items\n")]),
    # a helper that runs several passes is a phase of the pipeline (each pass keeps its own name and guard)
    ('pw-phase-helper', None, phase_helper()),
    ('pw-labels-default-yoda', ['C03', 'C08', 'C16', 'C17'], [(A, LABELS_DEFAULT, "    labels = labels if None is not labels else {}\n")]),
]

BREAKING += [
    # ... and one that visibly changes the list in place is a finding
    ('cw-log-helper-mutates', ['C09'], log_helper(body_extra="    while items and isinstance(items[-1], Align):\n        items.pop()\n")),
    ('cw-target-tuple-operand-raw', ['C03'], j_arm("(reference,)")),
    ('cw-compress-inverted', ['C20', 'C04'], [(A, LABELS_DEFAULT, LABELS_DEFAULT + "    compress = not bool(compress)\n")]),
    ('cw-stat-counter-offset-off-by-one', ['C03', 'C09'], stat_counter(advance="        position += padding + 1\n")),
    ('cw-phase-helper-always-compresses', ['C20', 'C04'], phase_helper(guard="    items = transform_compressible(items, constants, labels)\n")),
    ('cw-phase-helper-aligns-first', ['C03', 'C08'], [(A, TAIL3, "    items = finish_layout(items, constants, labels, compress)\n"),
                                                      (A, ASM_DEF, "def finish_layout(items, constants, labels, compress):\n    items = resolve_aligns(items, labels)\n    items = resolve_immediates(items, constants, labels)\n"
                                                       "    items = resolve_register_aliases(items, constants)\n    if compress:\n        items = transform_compressible(items, constants, labels)\n    return items\n\n\n" + ASM_DEF),
                                                      (A, "    items = resolve_immediates(items, constants, labels)\n    items = resolve_instructions(items)\n", "    items = resolve_instructions(items)\n")]),
    ('cw-labels-default-yoda-inverted', ['C03', 'C08'], [(A, LABELS_DEFAULT, "    labels = labels if None is labels else {}\n")]),
    ('cw-append-iadd-display-twice', ['C09', 'C03'], [(A, RA_BLOB + "        new_items.append(blob)\n", RA_BLOB + "        new_items += [blob, blob]\n")]),
    ('cw-append-extend-display-empty', ['C09', 'C03'], [(A, RA_BLOB + "        new_items.append(blob)\n", RA_BLOB + "        new_items.extend([])\n")]),
    ('cw-pass-keyword-other-list', ['C09'], [(A, "    items = resolve_packs(items)\n", "    items = resolve_packs(items=tokens)\n")]),
    ('cw-pass-keyword-fresh-labels', ['C03', 'C08'], [(A, "    items = resolve_aligns(items, labels)\n", "    items = resolve_aligns(items, labels={})\n")]),
]

SEQ_PARSE = ("        try:\n            values = [int(value, base=0) for value in item.values]\n        except ValueError as e:\n            raise AssemblerError(str(e), item.line)\n")
SEQ_DEF = "def resolve_sequences(items):\n"
SEQ_HELPER = ("def parse_sequence_values(item):\n    try:\n        return [int(text, base=0) for text in item.values]\n    except ValueError as e:\n"
              "        raise AssemblerError(str(e), item.line)\n\n\n")
PACKS_CALL = "    items = resolve_packs(items)\n"

PRESERVING += [
    # the values of a sequence parsed by a helper: the inner loop's zero-trip path is an assumption about the helper's result
    ('pw-sequence-values-helper', L4, [(A, SEQ_PARSE, "        values = parse_sequence_values(item)\n"), (A, SEQ_DEF, SEQ_HELPER + SEQ_DEF)]),
]

BREAKING += [
    ('cw-sequence-values-helper-table', ['C09'], [(A, SEQ_PARSE, "        values = parse_sequence_values(item)\n"), (A, SEQ_DEF, SEQ_HELPER + SEQ_DEF),
                                                  (A, "            'longs': 4,\n", "            'longs': 8,\n")]),
    ('cw-pass-receives-stale-list', ['C09'], [(A, "    items = transform_shorthand_packs(items)\n" + PACKS_CALL,
                                               "    before = items\n    items = transform_shorthand_packs(items)\n    items = resolve_packs([item for item in before])\n")]),
]

RA_DEF = "def resolve_aligns(items, labels):\n"
RA_CORE = ("        padding = item.resolution_size(position)\n        shrink = item.size() - padding \n\n        # shrink subsequent labels\n"
           "        new_labels = {k: v - shrink for k, v in labels.items() if v > position}\n        labels.update(new_labels)\n\n"
           "        # skip if already aligned\n        if padding == 0:\n            continue\n\n        position += padding\n"
           "        blob = Blob(item.line, b'\\x00' * padding)\n")
RA_CORE_FIT = ("        fit = AlignFit(item, position)\n{extra}\n        # shrink subsequent labels\n"
               "        new_labels = {{k: v - fit.shrink for k, v in labels.items() if v > position}}\n        labels.update(new_labels)\n\n"
               "        # skip if already aligned\n        if fit.padding == 0:\n            continue\n\n        position += fit.padding\n"
               "        blob = Blob(item.line, b'\\x00' * fit.padding)\n")


def align_fit(shrink='item.size() - self.padding', extra='', methods=''):
    cls = ("class AlignFit:\n    \"\"\"How an Align item resolves at a position.\"\"\"\n\n    __slots__ = ('padding', 'shrink')\n\n"
           "    def __init__(self, item, position):\n        self.padding = item.resolution_size(position)\n        self.shrink = " + shrink + "\n" + methods + "\n\n")
    return [(A, RA_DEF, cls + RA_DEF), (A, RA_CORE, RA_CORE_FIT.format(extra=extra))]


BLOBS_FULL = BLOBS + "\n    return output\n"


def blobs_for_else(ext="        output.extend(item.data)\n", tail="    raise ValueError('expected only blobs at this point')\n"):
    return [(A, BLOBS_FULL, "    output = bytearray()\n    for item in items:\n        if not isinstance(item, Blob):\n            break\n\n" + ext
             + "    else:\n        return output\n\n" + tail)]


PRESERVING += [
    # the refusal moved behind the loop: break / else: return output / raise
    ('pw-blobs-for-else', L4, blobs_for_else()),
    # padding / shrink computed by the constructor of a small record class (with __slots__), built once per Align item
    ('pw-align-fit-record', None, align_fit()),
]

BREAKING += [
    ('cw-blobs-for-else-tail', ['C09'], blobs_for_else(ext="        output.extend(item.data[1:])\n")),
    ('cw-align-fit-record-short-shift', ['C03', 'C09'], align_fit(shrink='item.size() - self.padding - 1')),
]

SEARCH_BLOCK = ("        compressed = None\n        try:\n            for name, preds in criteria.items():\n                if all(pred(item, position, env) for pred in preds):\n"
                "                    compressed = name\n                    break\n        except ValueError as e:\n            raise AssemblerError(str(e), item.line)\n")
SEARCH_CLOSURE = ("    def find_compressed_form(item, position):\n        try:\n            for name, preds in criteria.items():\n"
                  "                if all(pred(item, position, env) for pred in preds):\n                    return name\n"
                  "        except ValueError as e:\n            raise AssemblerError(str(e), item.line)\n        return None\n\n")

GUARD20 = "            value = c_int32(value).value  # signed imm\n            if value >= (-2**20) and value <= (2**20 - 1):\n"

PRESERVING += [
    # the wrap folded into the range test with an assignment expression (first operand: evaluated before anything reads `value`)
    ('pw-guard-walrus', None, [(A, GUARD20, "            if (value := c_int32(value).value) >= (-2**20) and value <= (2**20 - 1):\n", 1)]),
]

BREAKING += [
    ('cw-guard-walrus-wide', ['C03'], [(A, GUARD20, "            if (value := c_int32(value).value) >= (-2**21) and value <= (2**21 - 1):\n", 1)]),
    # the running offset itself stored into an emitted item by a pass that is followed by size changes
    ('cw-offset-baked-early', ['C09', 'C03'], [(A, "            inst = ITypeInstruction(item.line, 'addi', rd='x0', rs1='x0', imm=Arithmetic('0'))\n",
                                                "            inst = ITypeInstruction(item.line, 'addi', rd='x0', rs1='x0', imm=Arithmetic(str(position % 1)))\n")]),
]

UNDECIDED = [
    # the loop is left early and what follows does not refuse: the rest of the items is not emitted by this loop
    ('uw-blobs-for-else-silent', ['C09'], blobs_for_else(tail="    return output\n")),
    # ... the same record when it is not provably private to the pass (handed to another call): its computed fields are not followed
    ('uw-align-fit-record-escapes', ['C03', 'C09'], align_fit(extra="        log.debug('align fit %r', fit)\n")),
    # the previous result reaches the next pass through a comprehension that is not followed
    ('uw-pass-receives-copied-list', ['C09'], [(A, PACKS_CALL, "    items = resolve_packs([item for item in items])\n")]),
    # the option the two pipeline evaluations differ in is recomputed by something that is not followed
    ('uw-compress-recomputed', ['C20'], [(A, LABELS_DEFAULT, LABELS_DEFAULT + "    compress = os.environ.get('BRONZEBEARD_COMPRESS', compress)\n")]),
    # a helper that receives the item list, drops its result and is not provably read-only is not followed (never a silent pass)
    ('uw-log-helper-opaque', ['C09'], log_helper(body_extra="    json.dump([str(item) for item in items], sys.stderr)\n")),
    # a classification helper that is not the literal test handed on
    ('uw-target-helper-negated', ['C03'], [(A, B_REF, "not is_label_name(reference)", 'all'),
                                           (A, PARSE_ITEM_DEF, "def is_label_name(token):\n    return not is_int(token)\n\n\n" + PARSE_ITEM_DEF)]),
    # the whole output as one join: no per-item loop to read
    ('uw-blobs-join', ['C09'], [(A, BLOBS + "\n    return output\n", "    for item in items:\n        if not isinstance(item, Blob):\n            raise ValueError('expected only blobs at this point')\n\n"
                                 "    return bytearray(b''.join(item.data for item in items))\n")]),
]

# the first-match search moved into a local closure that is handed the running offset: undecided on the audit branch alone, decided
# once merged with core._search_with_return (the closure is inlined back into the loop)
PRESERVING += [
    ('pw-search-closure', ['C03', 'C08', 'C09'], [(A, SEARCH_BLOCK, "        compressed = find_compressed_form(item, position)\n"),
                                                  (A, ENV_ANCHOR, ENV_ANCHOR + "\n" + SEARCH_CLOSURE)]),
]
