"""Rules about immediates built and evaluated by the passes:
   R-lo-width / R-guard-fits / Hi-Lo pairing (C03 C05 C07), R-auipc (C03 C04), evaluation-site effects MUT/BAKE/PEEK (C08)."""
import ast

from .core import AnalysisError, Finding
from .astutil import unparse, dotted, walk_no_nested
from .pathwalk import Walker, PathState, loop_paths, show, is_const, C
from .encsum import all_summaries, derived_operand, canon
from . import layoutrules as LR


def contains(v, needle):
    if v == needle:
        return True
    if isinstance(v, tuple):
        return any(contains(x, needle) for x in v)
    return False


def stored_immediates(path):
    """[(value, node)] of what a path stores as the `imm` field of the item it rebuilds: `d['imm'] = v` on the attribute dict, or a
    dict display `{**d, 'imm': v}`."""
    out = []
    for ev in path.events:
        if ev[0] == 'setitem' and ev[2] == C('imm'):
            out.append((ev[3], ev[4]))
        elif ev[0] == 'value' and isinstance(ev[1], tuple):
            seen = set()
            for d in find_all(ev[1], lambda t: t[0] == 'dict' and len(t) > 1 and isinstance(t[1], tuple)):
                for pair in d[1]:
                    if isinstance(pair, tuple) and len(pair) == 2 and pair[0] == C('imm') and pair[1] not in seen:
                        seen.add(pair[1])
                        out.append((pair[1], ev[2]))
    return out


def find_all(v, pred, out=None):
    out = [] if out is None else out
    if isinstance(v, tuple):
        if v and isinstance(v[0], str) and pred(v):
            out.append(v)
        for x in v:
            find_all(x, pred, out)
    return out


def ctor_fields(facts, val):
    """{param name: symbolic arg} of a ('new', cls, args, kwargs) value."""
    params = [p for p, _ in facts.init_params(val[1])]
    out = {}
    for i, a in enumerate(val[2]):
        if i < len(params):
            out[params[i]] = a
    for n, a in val[3]:
        out[n] = a
    return out


def interval_from_conds(path, value_pred, facts=None, unknown=None):
    """[lo, hi] implied by the path's comparisons `X >= c`, `X <= c`, `X in range(a, b)` ... on values X satisfying value_pred
    (c a literal or a folded module-level constant).  Conditions that look at such a value in a form that is not read are
    appended to `unknown` (the interval is then a lower bound of what the path knows, not the whole of it)."""
    lo, hi = None, None

    def const(v):
        if is_const(v) and isinstance(v[1], int) and not isinstance(v[1], bool):
            return v[1]
        if facts is not None and isinstance(v, tuple) and v and v[0] == 'name' and v[1] not in facts.poison and v[1] in facts.consts:
            c = facts.consts[v[1]]
            if isinstance(c, int) and not isinstance(c, bool):
                return c
        return None

    def note(test):
        # a condition that looks at the value in a form that is not read - or a comparison with an operand the walk kept opaque (it may
        # well be about the value): the interval is not everything the path knows
        if unknown is not None and (find_all(test, value_pred_term) or (test[0] in ('cmp', 'bool', 'un') and find_all(test, lambda t: t[0] == 'opaque'))):
            unknown.append(test)

    def value_pred_term(t):
        try:
            return bool(value_pred(t))
        except Exception:
            return False

    def narrow(op, c):
        nonlocal lo, hi
        if op == '>=':
            lo = c if lo is None else max(lo, c)
        elif op == '>':
            lo = c + 1 if lo is None else max(lo, c + 1)
        elif op == '<=':
            hi = c if hi is None else min(hi, c)
        elif op == '<':
            hi = c - 1 if hi is None else min(hi, c - 1)
        elif op == '==':
            lo = hi = c
        else:
            return False
        return True

    for test, pol, _ in path.conds:
        if not isinstance(test, tuple) or not test:
            continue
        if test[0] != 'cmp':
            note(test)
            continue
        op, a, b = test[1], test[2], test[3]
        if op in ('in', 'not in') and value_pred(a) and b[0] == 'call' and b[1] == 'range' and len(b[2]) == 2 and not b[3]:
            r0, r1 = const(b[2][0]), const(b[2][1])
            if r0 is not None and r1 is not None and (op == 'in') == bool(pol):
                narrow('>=', r0)
                narrow('<', r1)
                continue
            note(test)
            continue
        if const(a) is not None and const(b) is None:
            a, b = b, a
            op = {'<': '>', '>': '<', '<=': '>=', '>=': '<='}.get(op, op)
        if not (const(b) is not None and value_pred(a)):
            note(test)
            continue
        shape = affine_of_value(a, const)
        if shape is None:
            # the value goes through arithmetic that is not read (value // 2 <= 2047, (value + 2048) & ~4095, ...)
            note(test)
            continue
        add, shift = shape
        if shift is not None:
            # (value + add) >> shift == 0   is   0 <= value + add < 2 ** shift
            if op == '==' and const(b) == 0 and pol:
                narrow('>=', -add)
                narrow('<=', (1 << shift) - 1 - add)
            else:
                note(test)
            continue
        if add:
            test = ('cmp', op, a, ('const', const(b) - add))
            b = test[3]
        if not pol:
            op = {'<': '>=', '>': '<=', '<=': '>', '>=': '<', '==': '!=', '!=': '=='}.get(op, op)
        if not narrow(op, const(b)) and op != '!=':
            note(test)
    return lo, hi


# reductions to a width of at least 12 bits: a reduced value within [-2048, 2047] has the low 12 bits of the unreduced one, so an
# interval on it says the same about what %lo keeps (whether it is the *right* reduction for the decision is R5.2.li-wrap's business)
WIDE_C_INTS = ('c_int16', 'c_int32', 'c_int64', 'c_short', 'c_int', 'c_long', 'c_longlong', 'c_uint16', 'c_uint32', 'c_uint64')


def affine_of_value(x, const):
    """(add, shift) when x is `value`, `value + add` or `(value + add) >> shift` (shift None when there is none), where value is
    an evaluation possibly reduced to a width of 12 bits or more (c_int32(e).value, sign_extend(e, 32)) and add / shift are constants;
    None for anything else that contains the evaluation."""
    add, shift = 0, None
    first = True
    while True:
        if x[0] == 'res':
            x = x[3]
            continue
        if x[0] == 'mcall' and x[2] == 'eval':
            return add, shift
        if x[0] == 'attr' and x[2] == 'value' and x[1][0] == 'call' and x[1][1].split('.')[-1] in WIDE_C_INTS and x[1][1].split('.')[0] in ('ctypes',) + WIDE_C_INTS \
                and len(x[1][2]) == 1 and not x[1][3]:
            x = x[1][2][0]
            if not (x[0] == 'mcall' and x[2] == 'eval') and x[0] != 'res':
                return None
            continue
        if x[0] == 'call' and x[1] == 'sign_extend' and len(x[2]) == 2 and const(x[2][1]) is not None and const(x[2][1]) >= 12 and not x[3]:
            x = x[2][0]
            if not (x[0] == 'mcall' and x[2] == 'eval') and x[0] != 'res':
                return None
            continue
        if x[0] == 'bin' and x[1] == '>>' and first and const(x[3]) is not None and 0 <= const(x[3]) <= 64:
            shift = const(x[3])
            x = x[2]
        elif x[0] == 'bin' and x[1] in ('+', '-') and const(x[3]) is not None:
            add += const(x[3]) if x[1] == '+' else -const(x[3])
            x = x[2]
        elif x[0] == 'bin' and x[1] == '+' and const(x[2]) is not None:
            add += const(x[2])
            x = x[3]
        else:
            return None
        first = False


def accepted_interval(facts, mnemonic, param='imm'):
    s = all_summaries(facts).get(mnemonic)
    if s is None:
        return None
    if param not in s.params:
        # the operand is named by its ISA role, not by what the encoder calls its parameter
        from .encsum import oracle_spec
        spec = oracle_spec(mnemonic)
        if spec is not None and len(spec['operands']) == len(s.params):
            named = [p for p, op in zip(s.params, spec['operands']) if op['kind'] == 'imm' and op['role'] == param]
            if len(named) == 1:
                param = named[0]
    info = derived_operand(s, param)
    if info is None:
        return None
    cells = [c for c in canon(info['cells']) if c[2] == 0]
    if not cells:
        return None
    return min(c[0] for c in cells), max(c[1] for c in cells)


def check_lo_pairing(report, facts, rule_lo, rule_fits, rule_pair):
    """For every item built by transform_pseudo_instructions whose immediate is Lo(e) / Hi(e) / a guarded e."""
    pa = LR.pass_analysis(facts, 'transform_pseudo_instructions')
    n_lo = 0
    for r in pa.rows:
        path = r['path']
        if path.end == 'raise':
            continue
        vals = [v for v, n in r['app_values'] if v[0] == 'new']
        made = {}
        for v, n in r['acc'].new_values:
            made.setdefault(v, n)
        nodes = [made.get(v, n) for v, n in r['app_values'] if v[0] == 'new']
        for idx, (val, node) in enumerate(zip(vals, nodes)):
            fields = ctor_fields(facts, val)
            imm = fields.get('imm')
            name = fields.get('name')
            if imm is None or not is_const(name):
                continue
            mn = name[1]
            inst_desc = '{} built for [{}]'.format(show(val)[:70], path.cond_text()[-50:])

            def is_eval_of(x, e):
                # c_int32(e.eval(...)).value  or e.eval(...)
                evs = find_all(x, lambda t: t[0] == 'mcall' and t[2] == 'eval' and t[1] == e)
                return bool(evs)
            if imm[0] == 'new' and imm[1] == 'Lo':
                n_lo += 1
                e = imm[2][0]
                unread = []
                lo, hi = interval_from_conds(path, lambda x: is_eval_of(x, e), facts, unread)
                fits12 = lo is not None and hi is not None and lo >= -2048 and hi <= 2047
                paired = False
                if idx > 0:
                    prev = ctor_fields(facts, vals[idx - 1])
                    pimm = prev.get('imm')
                    if pimm is not None and pimm[0] == 'new' and pimm[1] == 'Hi' and pimm[2][0] == e:
                        # register chaining: the upper half is written to the register the lower half is added to
                        def regnum(v):
                            """architectural number of a constant register spelling ('ra' and 'x1' are the same register)"""
                            if is_const(v):
                                for tname in ('REGISTERS',):
                                    if tname not in facts.poison and tname in facts.tables:
                                        try:
                                            return facts.tables[tname].get(v[1], v)
                                        except TypeError:
                                            return v
                            return v
                        if prev.get('rd') == fields.get('rs1') or regnum(prev.get('rd')) == regnum(fields.get('rs1')):
                            paired = True
                        else:
                            report.fail(Finding(rule_pair, 'transform_pseudo_instructions', node,
                                                '%hi goes to register {} but %lo is added to {}'.format(show(prev.get('rd')), show(fields.get('rs1'))),
                                                line=node.lineno), instance=inst_desc)
                            continue
                if fits12:
                    report.ok(rule_lo, inst_desc + ': guarded to 12 signed bits, %lo is the identity')
                elif paired:
                    report.ok(rule_pair, inst_desc + ': %lo paired with %hi of the same expression, registers chained')
                elif unread:
                    raise AnalysisError('R-lo-width: {} receives %lo(e) under a condition on e that is not read as an interval ({}): whether '
                                        'e fits 12 signed bits on this path is not decided'.format(mn, show(unread[0])[:80]))
                else:
                    report.fail(Finding(rule_lo, 'transform_pseudo_instructions', node,
                                        '{} receives %lo(e), i.e. only the low 12 bits of e, but on this path e is only known to lie in [{}, {}] '
                                        'and no %hi(e) half precedes it: the offset is truncated'.format(mn, lo, hi), line=node.lineno),
                                instance=inst_desc)
            elif imm[0] == 'new' and imm[1] == 'Hi':
                e = imm[2][0]
                nxt = ctor_fields(facts, vals[idx + 1]) if idx + 1 < len(vals) else {}
                nimm = nxt.get('imm')
                ok = nimm is not None and nimm[0] == 'new' and nimm[1] == 'Lo' and nimm[2][0] == e
                report.check(ok, rule_pair, inst_desc + ': %hi followed by %lo of the same expression',
                             lambda node=node: Finding(rule_pair, 'transform_pseudo_instructions', node,
                                                       'a %hi half is emitted without the %lo half of the same expression right after it', line=node.lineno))
            else:
                # plain expression under an interval guard: the guard must fit the consumer
                unread = []
                lo, hi = interval_from_conds(path, lambda x: is_eval_of(x, imm), facts, unread)
                if (lo is None or hi is None) and unread:
                    raise AnalysisError('R-guard-fits: the immediate of {} is guarded by a condition that is not read as an interval ({})'.format(
                        mn, show(unread[0])[:80]))
                if lo is not None or hi is not None:
                    acc = accepted_interval(facts, mn)
                    if acc is None:
                        raise AnalysisError('R-guard-fits: the accepted range of the immediate of {} is not derived (no summary / no operand '
                                            'named imm): whether the guard [{}, {}] fits is not decided'.format(mn, lo, hi))
                    ok = lo is not None and hi is not None and lo >= acc[0] and hi <= acc[1] + 1
                    report.check(ok, rule_fits, inst_desc + ': guard [{}, {}] within the range of {}'.format(lo, hi, mn),
                                 lambda node=node, lo=lo, hi=hi, acc=acc, mn=mn: Finding(rule_fits, 'transform_pseudo_instructions', node,
                                                                                       'the value is guarded to [{}, {}] but {} accepts only {}'.format(lo, hi, mn, acc), line=node.lineno))
    report.count('%lo constructions examined', n_lo)


# ---------------------------------------------------------------------------------------------------------------
class EvalSite:
    def __init__(self, fn_qual, node, recv, pos, env, path, post, kind, flows):
        self.fn = fn_qual
        self.node = node
        self.recv = recv        # symbolic receiver (X in X.eval(...))
        self.pos = pos          # symbolic position argument
        self.env = env
        self.path = path
        self.post = post        # additive constant applied to the result afterwards on this path
        self.kind = kind        # 'BAKE' | 'PEEK' | 'RETURN'
        self.flows = flows


def function_paths(facts, fn, closure_params=None):
    """Paths through a whole function body (used for closures / small helpers)."""
    w = Walker(facts)
    st = PathState()
    for a in fn.args.args + fn.args.kwonlyargs:
        st.env[a.arg] = ('name', a.arg)
    for p in closure_params or []:
        st.env[p] = ('name', p)
    return w.run(fn.body, st)


def eval_sites(facts):
    """Every `<x>.eval(position, env, line)` call outside the Expr classes themselves, with its position argument, what
    happens to its result on each path, and facts about the receiver."""
    sites = []
    tree = facts.tree

    def handle(fn, qual, paths, item_sym=None):
        for p in paths:
            cands = []
            seen_vals = set()
            for i, ev in enumerate(p.events):
                if ev[0] == 'return' and ev[1] is not None:
                    direct = find_all(ev[1], lambda t: t[0] == 'mcall' and t[2] == 'eval' and len(t[3]) == 3)
                    assigned = {e[1] for e in p.events[:i] if e[0] == 'value'}
                    for v in direct:
                        if v not in assigned:
                            sites.append(EvalSite(qual, ev[2], v[1], v[3][0], v[3][1], p, additive_const(ev[1], v), 'RETURN', ev[1]))
                            seen_vals.add(v)
                    continue
                if ev[0] != 'value':
                    continue
                v = ev[1]
                if not (v[0] == 'mcall' and v[2] == 'eval' and len(v[3]) == 3):
                    continue
                cands.append((i, v, ev[2]))
                seen_vals.add(v)
            # an evaluation that only ever stands inside a larger expression (`c_int32(x.eval(..)).value`) is no event of its own:
            # it is found in the conditions it steers
            for t, pol, cnode in p.conds:
                for v in find_all(t, lambda t_: t_[0] == 'mcall' and t_[2] == 'eval' and len(t_[3]) == 3):
                    if v not in seen_vals and cnode is not None:
                        seen_vals.add(v)
                        cands.append((-1, v, cnode))
            for i, v, vnode in cands:
                # where does the value go?
                post = 0
                baked = False
                peeked = False
                returned = False
                aliases = [v]
                for ev2 in p.events[i + 1:]:
                    if ev2[0] == 'aug' and ev2[2] in ('+', '-'):
                        # position += ... is not about this value; detect `X += k` where X currently holds the value
                        cur = ('bin', ev2[2], None, ev2[3])
                    if ev2[0] == 'setitem' and any(contains(ev2[3], a) for a in aliases):
                        baked = True
                        tot = ev2[3]
                        post = additive_const(tot, v)
                    if ev2[0] == 'mcall' and ev2[2] in ('append', 'extend') and any(contains(ev2[3], a) for a in aliases):
                        baked = True
                    if ev2[0] == 'value' and ev2[1][0] == 'new' and any(contains(ev2[1], a) for a in aliases):
                        baked = True
                    if ev2[0] == 'return' and any(contains(ev2[1], a) for a in aliases):
                        returned = True
                for t, pol, _ in p.conds:
                    if contains(t, v):
                        peeked = True
                kind = 'BAKE' if baked else ('RETURN' if returned else ('PEEK' if peeked else 'DROP'))
                ret = None
                if returned:
                    ret = [e for e in p.events if e[0] == 'return'][-1][1]
                sites.append(EvalSite(qual, vnode, v[1], v[3][0], v[3][1], p, post, kind, ret))

    for fname, fn in facts.funcs.items():
        has = any(isinstance(n, ast.Call) and isinstance(n.func, ast.Attribute) and n.func.attr == 'eval' for n in ast.walk(fn))
        if not has:
            continue
        # nested closures first
        for inner in ast.walk(fn):
            if isinstance(inner, ast.FunctionDef) and inner is not fn:
                if any(isinstance(n, ast.Call) and isinstance(n.func, ast.Attribute) and n.func.attr == 'eval' for n in ast.walk(inner)):
                    parent = getattr(inner, '_parent', None)
                    cparams = [a.arg for a in parent.args.args] if isinstance(parent, ast.FunctionDef) else []
                    handle(inner, '{}.{}.{}'.format(fname, parent.name if isinstance(parent, ast.FunctionDef) else '?', inner.name),
                           function_paths(facts, inner, cparams))
        own = any(isinstance(n, ast.Call) and isinstance(n.func, ast.Attribute) and n.func.attr == 'eval' for n in walk_no_nested(fn))
        if own:
            loops = [s for s in fn.body if isinstance(s, ast.For)]
            if loops:
                _, loop, paths = loop_paths(facts, fn)
                handle(fn, fname, paths)
            else:
                handle(fn, fname, function_paths(facts, fn))
    return sites


def free_name_value(facts, top_fn, name):
    """Symbolic value of a local of `top_fn` that its nested functions read as a free variable: bound by exactly one plain
    assignment at the top level of the function body (`const_env = ChainMap(constants)`); None otherwise."""
    params = {a.arg for a in top_fn.args.posonlyargs + top_fn.args.args + top_fn.args.kwonlyargs}
    if name in params:
        return None
    stores = [n for n in ast.walk(top_fn) if isinstance(n, ast.Name) and n.id == name and isinstance(n.ctx, (ast.Store, ast.Del))]
    binds = [st for st in top_fn.body if isinstance(st, ast.Assign) and len(st.targets) == 1 and isinstance(st.targets[0], ast.Name) and st.targets[0].id == name]
    if len(stores) != 1 or len(binds) != 1:
        return None
    st = PathState()
    for p_ in params:
        st.env[p_] = ('name', p_)
    return Walker(facts).sym(binds[0].value, st)


def helper_result_use(top_fn, helper):
    """How the number returned by the nested helper `helper` is used by the functions of `top_fn` that call it: 'decision' when
    every call's result only ever stands inside a comparison (directly, or through a local that is only compared), 'item' when it is
    handed to a call / stored, None when the flow is not followed."""
    calls = [n for n in ast.walk(top_fn) if isinstance(n, ast.Call) and isinstance(n.func, ast.Name) and n.func.id == helper]
    if not calls:
        return None
    verdict = 'decision'

    def use_of(expr):
        """'decision' | 'item' | ('bound', name, function) | None for the expression node `expr` holding the number."""
        child, par = expr, getattr(expr, '_parent', None)
        while par is not None:
            if isinstance(par, ast.Compare):
                return 'decision'
            if isinstance(par, ast.BinOp) and isinstance(par.op, (ast.Mod, ast.BitAnd, ast.Sub, ast.Add)):
                child, par = par, getattr(par, '_parent', None)
                continue
            if isinstance(par, ast.Call):
                return 'item' if child is not par.func else None
            if isinstance(par, ast.Assign) and par.value is child and len(par.targets) == 1 and isinstance(par.targets[0], ast.Name):
                fn = par
                while fn is not None and not isinstance(fn, (ast.FunctionDef, ast.Lambda)):
                    fn = getattr(fn, '_parent', None)
                return ('bound', par.targets[0].id, fn)
            if isinstance(par, (ast.If, ast.While, ast.IfExp)) and par.test is child:
                return 'decision'
            if isinstance(par, (ast.BoolOp, ast.UnaryOp)):
                # truthiness of the number / a boolean of it: still a decision unless the result is stored
                child, par = par, getattr(par, '_parent', None)
                continue
            return None
        return None
    for c in calls:
        u = use_of(c)
        if isinstance(u, tuple):
            _, nm, fn = u
            if fn is None:
                return None
            stores = [n for n in ast.walk(fn) if isinstance(n, ast.Name) and n.id == nm and isinstance(n.ctx, ast.Store)]
            for n in ast.walk(fn):
                if isinstance(n, ast.Name) and n.id == nm and isinstance(n.ctx, ast.Load):
                    u2 = use_of(n)
                    if u2 == 'item' and len(stores) == 1:
                        return 'item'
                    if u2 != 'decision':
                        verdict = None          # (with several bindings of the name a use may belong to another value)
        elif u == 'item':
            return 'item'
        elif u != 'decision':
            verdict = None
    return verdict


def additive_const(total, base):
    """total == base + k  ->  k ; else None (0 if identical)."""
    if total == base:
        return 0
    if total[0] == 'bin' and total[1] in ('+', '-'):
        a, b = total[2], total[3]
        if is_const(b) and isinstance(b[1], int):
            inner = additive_const(a, base)
            if inner is not None:
                return inner + (b[1] if total[1] == '+' else -b[1])
        if is_const(a) and isinstance(a[1], int) and total[1] == '+':
            inner = additive_const(b, base)
            if inner is not None:
                return inner + a[1]
    return None


def receiver_flag(site, flag='is_auipc_jump'):
    """True / False / None: what the path knows about <item>.<flag> for the item whose imm is evaluated."""
    recv = site.recv
    if not (recv[0] == 'attr' and recv[2] == 'imm'):
        return 'not-item'
    item = recv[1]
    return flag_from_conds(site.path.conds, item, flag)


def flag_from_conds(conds, item, flag='is_auipc_jump'):
    """True / False / None: what the path conditions say about <item>.<flag> (the attribute or getattr(item, flag[, default]),
    tested bare, negated, or compared with True / False)."""
    target = ('attr', item, flag)

    def is_flag(t):
        if t[0] == 'mcall' and t[2] == 'get' and t[3] and t[3][0] == C(flag) and (len(t[3]) == 1 or t[3][1] in (C(False), C(None))) \
                and t[1] in (('call', 'vars', (item,), ()), ('attr', item, '__dict__')):
            return True           # vars(item).get('flag', False)
        return t == target or (t[0] == 'call' and t[1] == 'getattr' and len(t[2]) >= 2 and t[2][0] == item and t[2][1] == C(flag))
    val = None
    for t, pol, _ in conds:
        while t[0] == 'un' and t[1] == 'not':
            t, pol = t[2], not pol
        if is_flag(t):
            val = pol
        elif t[0] == 'cmp' and t[1] in ('==', 'is', '!=', 'is not') and is_flag(t[2]) and is_const(t[3]) and isinstance(t[3][1], bool):
            val = (pol == t[3][1]) if t[1] in ('==', 'is') else (pol != t[3][1])
    return val


_CONSTS = {}


def int_of(v):
    """Integer value of a constant or of a module-level integer constant named in the value, else None."""
    if is_const(v) and isinstance(v[1], int) and not isinstance(v[1], bool):
        return v[1]
    if v[0] == 'name' and isinstance(_CONSTS.get(v[1]), int) and not isinstance(_CONSTS.get(v[1]), bool):
        return _CONSTS[v[1]]
    return None


def position_offset(site):
    """position argument as (base symbol, additive constant) or None."""
    pos = site.pos
    k = 0
    while pos[0] == 'bin' and pos[1] in ('+', '-') and int_of(pos[3]) is not None:
        k += int_of(pos[3]) if pos[1] == '+' else -int_of(pos[3])
        pos = pos[2]
    return pos, k


def wrappers(facts, sites):
    """Module-level helpers that return the evaluation of `<param>.imm`: {name: (item param index, position param index,
    [(flag, k, post)])}."""
    out = {}
    for s in sites:
        if '.' in s.fn or s.kind != 'RETURN':
            continue
        fn = facts.funcs.get(s.fn)
        if fn is None:
            continue
        params = [a.arg for a in fn.args.args]
        item = s.recv[1]
        if item[0] != 'name' or item[1] not in params:
            continue
        base, k = position_offset(s)
        if base[0] != 'name' or base[1] not in params:
            continue
        post = additive_const(s.flows, ('mcall', s.recv, 'eval', (s.pos, s.env, ('attr', item, 'line')), ())) if s.flows is not None else None
        if post is None:
            post = 0 if s.flows is not None and s.flows[0] == 'mcall' else None
        out.setdefault(s.fn, {'item': params.index(item[1]), 'pos': params.index(base[1]), 'cases': []})
        out[s.fn]['cases'].append((receiver_flag(s), k, post, s))
    return out


def wrapper_call_sites(facts, wr):
    """Calls of wrapper helpers inside passes / closures: [(qualified fn, node, item arg, pos arg, kind)]"""
    found = []

    def scan(fn, qual, paths):
        for p in paths:
            for i, ev in enumerate(p.events):
                if ev[0] != 'value':
                    continue
                v = ev[1]
                if not (v[0] == 'call' and v[1] in wr):
                    continue
                w = wr[v[1]]
                if len(v[2]) <= max(w['item'], w['pos']):
                    continue
                baked = returned = False
                for ev2 in p.events[i + 1:]:
                    if ev2[0] == 'setitem' and contains(ev2[3], v):
                        baked = True
                    if ev2[0] == 'value' and ev2[1][0] == 'new' and contains(ev2[1], v):
                        baked = True
                    if ev2[0] == 'value' and ev2[1][0] == 'mcall' and ev2[1][2] == '__class__' and contains(ev2[1], v):
                        baked = True       # the item is rebuilt from a field dict that holds the value
                    if ev2[0] == 'mcall' and ev2[2] in ('append', 'extend') and contains(ev2[3], v):
                        baked = True
                    if ev2[0] == 'return' and contains(ev2[1], v):
                        returned = True
                post = 0
                for ev2 in p.events[i + 1:]:
                    if ev2[0] == 'setitem' and contains(ev2[3], v):
                        post = additive_const(ev2[3], v)
                    if ev2[0] == 'value' and ev2[1][0] == 'dict':
                        for k_, val_ in ev2[1][1]:
                            if contains(val_, v):
                                post = additive_const(val_, v)
                item_v = v[2][w['item']]
                flag = flag_from_conds(p.conds, item_v)
                found.append(dict(fn=qual, node=ev[2], item=item_v, pos=v[2][w['pos']], wrapper=v[1],
                                  kind='BAKE' if baked else ('RETURN' if returned else 'PEEK'), post=post, path=p, flag=flag))

    for fname, fn in facts.funcs.items():
        names = {n.func.id for n in ast.walk(fn) if isinstance(n, ast.Call) and isinstance(n.func, ast.Name)}
        if not (names & set(wr)) or fname in wr:
            continue
        for inner in ast.walk(fn):
            if isinstance(inner, ast.FunctionDef) and inner is not fn:
                inames = {n.func.id for n in ast.walk(inner) if isinstance(n, ast.Call) and isinstance(n.func, ast.Name)}
                if inames & set(wr):
                    parent = getattr(inner, '_parent', None)
                    cparams = [a.arg for a in parent.args.args] if isinstance(parent, ast.FunctionDef) else []
                    scan(inner, '{}.{}.{}'.format(fname, parent.name if isinstance(parent, ast.FunctionDef) else '?', inner.name),
                         function_paths(facts, inner, cparams))
        own = {n.func.id for n in walk_no_nested(fn) if isinstance(n, ast.Call) and isinstance(n.func, ast.Name)}
        if own & set(wr):
            loops = [st for st in fn.body if isinstance(st, ast.For)]
            if loops:
                _, loop, paths = loop_paths(facts, fn)
                scan(fn, fname, paths)
            else:
                scan(fn, fname, function_paths(facts, fn))
    return found


def under_isinstance(call, cls):
    """`isinstance(R, cls) and ... R.eval(...) ...` / `... if isinstance(R, cls) else ...`: the evaluation only happens for a
    receiver R of that class (R compared as written, within one expression)."""
    if not (isinstance(call, ast.Call) and isinstance(call.func, ast.Attribute) and call.func.attr == 'eval'):
        # a statement: every evaluation inside it
        calls = [n for n in ast.walk(call) if isinstance(n, ast.Call) and isinstance(n.func, ast.Attribute) and n.func.attr == 'eval'] if isinstance(call, ast.AST) else []
        return bool(calls) and all(under_isinstance(c, cls) for c in calls)
    recv = ast.dump(call.func.value)

    def is_test(t):
        return (isinstance(t, ast.Call) and isinstance(t.func, ast.Name) and t.func.id == 'isinstance' and len(t.args) == 2 and
                ast.dump(t.args[0]) == recv and isinstance(t.args[1], ast.Name) and t.args[1].id == cls)
    child, par = call, getattr(call, '_parent', None)
    while par is not None and isinstance(par, ast.expr):
        if isinstance(par, ast.BoolOp) and isinstance(par.op, ast.And):
            idx = next((k for k, v in enumerate(par.values) if v is child), None)
            if idx is not None and any(is_test(v) for v in par.values[:idx]):
                return True
        if isinstance(par, ast.IfExp) and par.body is child and is_test(par.test):
            return True
        if isinstance(par, (ast.Lambda, ast.ListComp, ast.GeneratorExp, ast.SetComp, ast.DictComp)):
            return False
        child, par = par, getattr(par, '_parent', None)
    return False


def check_auipc(report, facts, rule_adj, rule_sib):
    """R-auipc.  (a) no additive correction is applied to the *result* of evaluating an immediate that may be %hi/%lo
    (not linear in its argument); the correction belongs in the position argument.  (b) every site that evaluates the
    `imm` of an item which may carry is_auipc_jump agrees with the baking site on the effective evaluation point."""
    _CONSTS.clear()
    _CONSTS.update({k: v for k, v in facts.consts.items() if isinstance(v, int)})
    all_sites = eval_sites(facts)
    sites = [s for s in all_sites if s.recv[0] == 'attr' and s.recv[2] == 'imm']
    wr = wrappers(facts, sites)
    wcalls = wrapper_call_sites(facts, wr)
    # the -4 ("relative to the auipc in front") belongs to the jalr half of an auipc pair and to nothing else: a displacement of the
    # evaluation point on a path that does not know the item carries is_auipc_jump moves every ordinary %lo(%offset(L)) operand
    for wname, w in sorted(wr.items()):
        for flag, k, post, s in w['cases']:
            if k and flag is None and any('is_auipc_jump' in show(t) for t, pol, _ in s.path.conds):
                # the path does look at the flag, in a way that is not read (`'is_auipc_jump' in vars(item)`): whether the
                # displacement is restricted to marked items is not decided
                report.undecided('R-auipc: {} moves the evaluation point by {:+d} under a test of is_auipc_jump that is not read ({})'.format(
                    wname, k, s.path.cond_text()[-80:]))
                continue
            if k and flag is not True:
                report.fail(Finding(rule_adj, wname, s.node,
                                    'the evaluation point is moved by {:+d} on a path that is not restricted to is_auipc_jump items ({}): an ordinary instruction whose operand has '
                                    'that shape (addi t0, t0, %lo(%offset(L)) after a hand-written auipc, or anywhere else) is evaluated {} bytes off'.format(
                                        k, s.path.cond_text()[-80:] or 'unconditionally', abs(k)), line=s.node.lineno),
                            instance='{}: displacement only for flagged items'.format(wname))
    report.count('item-immediate evaluation sites', len({(s.fn, s.node.lineno) for s in sites}) + len({(c['fn'], c['node'].lineno) for c in wcalls}))
    pa = LR.pass_analysis(facts, 'transform_pseudo_instructions')
    nonlinear = False
    flagged = 0
    for r in pa.rows:
        for val, node in r['app_values']:
            if val[0] == 'new':
                f = ctor_fields(facts, val)
                if f.get('is_auipc_jump') == C(True):
                    flagged += 1
                    imm = f.get('imm')
                    if imm is not None and imm[0] == 'new' and imm[1] in ('Lo', 'Hi'):
                        nonlinear = True
    report.count('constructions with is_auipc_jump=True', flagged)
    # mnemonics of the items built with the flag, and the compression predicates that can ever be applied to such an item
    auipc_names = set()
    for r in pa.rows:
        for val, node in r['app_values']:
            if val[0] == 'new':
                f = ctor_fields(facts, val)
                if f.get('is_auipc_jump') == C(True) and f.get('name') is not None and is_const(f['name']):
                    auipc_names.add(f['name'][1])
    relevant_factories = None
    try:
        from .comprel import CompRel
        rel = CompRel(facts)
        relevant_factories = set()
        for ru in rel.rules:
            if ru.name is None or ru.name in auipc_names:
                relevant_factories.update(fname for _, fname, _ in rel.pa.lifted(ru.key, ru.preds))
    except AnalysisError:
        relevant_factories = None

    def never_sees_flagged(fn_qual):
        """A site inside a compression predicate that no rule applies to an is_auipc_jump mnemonic."""
        parts = fn_qual.split('.')
        if len(parts) < 2 or parts[0] != 'transform_compressible':
            return False
        if relevant_factories is None:
            # which rules use this predicate is not known (the compression relation could not be lifted): no verdict
            raise AnalysisError('R-auipc: the compression relation could not be lifted, so it is not known whether {} is ever applied to an is_auipc_jump item'.format(fn_qual))
        return not any(p_ in relevant_factories for p_ in parts[1:])
    def mentions_flag(*fnames):
        """Does any of these functions (top-level name of a qualified name) read the attribute name at all?"""
        for q in fnames:
            fn_ = facts.funcs.get(q.split('.')[0])
            if fn_ is None:
                return True
            for n_ in ast.walk(fn_):
                if (isinstance(n_, ast.Attribute) and n_.attr == 'is_auipc_jump') or (isinstance(n_, ast.Constant) and n_.value == 'is_auipc_jump'):
                    return True
        return False
    # effective (position offset, post correction) for an is_auipc_jump item, per entry site
    entries = []          # (where, k, post, kind, node, fn, note)
    for s in sites:
        if s.fn in wr:
            continue       # judged through its callers; rule (a) below still looks inside
        flag = receiver_flag(s)
        base, k = position_offset(s)
        where = '{}:{}'.format(s.fn, s.node.lineno)
        if never_sees_flagged(s.fn):
            report.ok(rule_sib, where + ': predicate is never applied to an is_auipc_jump item')
            continue
        f_ = s.path.facts.get(s.recv)
        if (f_ and 'Arithmetic' in f_['isa']) or under_isinstance(s.node, 'Arithmetic'):
            # a plain arithmetic expression does not depend on the evaluation point at all
            report.ok(rule_sib, where + ': receiver is known to be Arithmetic (position-independent)')
            continue
        if flag is True or flag is None:
            note = 'flag known true' if flag else ('flag not consulted' if mentions_flag(s.fn) else 'flag never tested')
            entries.append((where, k, s.post or 0, s.kind, s.node, s.fn, note))
    for c in wcalls:
        w = wr[c['wrapper']]
        if c.get('flag') is False:
            continue          # on this path the item is known not to be an auipc-based jump
        if never_sees_flagged(c['fn']):
            report.ok(rule_sib, '{}:{}: predicate is never applied to an is_auipc_jump item'.format(c['fn'], c['node'].lineno))
            continue
        base, kc = c['pos'], 0
        while base[0] == 'bin' and base[1] in ('+', '-') and int_of(base[3]) is not None:
            kc += int_of(base[3]) if base[1] == '+' else -int_of(base[3])
            base = base[2]
        cases = [x for x in w['cases'] if x[0] is True] or [x for x in w['cases'] if x[0] is None]
        for flag, k, post, s in cases:
            if post is None:
                raise AnalysisError('R-auipc: wrapper {} post-processes the evaluated immediate in a way the rule cannot follow'.format(c['wrapper']))
            note = 'via {}'.format(c['wrapper'])
            if flag is None and c.get('flag') is None:
                # a site that never looks at the flag treats a marked item like any other: that *is* its evaluation point
                note = 'flag not consulted' if mentions_flag(c['wrapper'], c['fn']) else 'flag never tested'
            entries.append(('{}:{}'.format(c['fn'], c['node'].lineno), kc + k, (c['post'] or 0) + post, c['kind'], c['node'], c['fn'], note))
    # (a) adjust-after-nonlinear, at every level
    seen = set()
    for where, k, post, kind, node, fn, note in entries:
        if (where, post) in seen:
            continue
        seen.add((where, post))
        if post != 0 and nonlinear and note != 'flag not consulted':
            report.fail(Finding(rule_adj, fn, node,
                                'the result of evaluating an is_auipc_jump immediate (a %lo expression) is corrected by {:+d} afterwards; '
                                '%lo(v + c) != %lo(v) + c, so the pair no longer rebuilds the target when the low 12 bits of the offset are within '
                                '{} of 0x800 (the correction belongs in the position argument)'.format(post, abs(post)), line=node.lineno),
                        instance=where)
        else:
            report.ok(rule_adj, where + ': no post-evaluation correction of a %lo value')
    # (b) sibling agreement
    if flagged:
        bake = [e for e in entries if e[3] == 'BAKE']
        if not bake:
            raise AnalysisError('R-auipc: no baking site for item immediates found')
        if nonlinear and not any(e[6] != 'flag not consulted' for e in bake):
            # the expansions mark the jalr of an auipc pair, but no baking path is known to be the one taken for a marked item
            # (the flag is tested in a way that is not read, or not at all): which evaluation point such an item gets is not decided
            raise AnalysisError('R-auipc: items are built with is_auipc_jump=True, but on no path of the baking site ({}) is the flag known to be set: '
                                'the evaluation point of the marked jalr is not established'.format(', '.join(sorted({e[0] for e in bake}))))
        ref = {(e[1], e[2]) for e in bake if e[6] != 'flag not consulted'} or {(e[1], e[2]) for e in bake}
        for e in sorted(entries, key=lambda t: t[0]):
            if e[3] == 'BAKE':
                continue
            ok = (e[1], e[2]) in ref
            r0 = sorted(ref)[0]
            report.check(ok, rule_sib, '{}: evaluates is_auipc_jump immediates like the baking site ({})'.format(e[0], e[6]),
                         lambda e=e, r0=r0: Finding(rule_sib, e[5], e[4],
                                                    'this site decides on the immediate of an is_auipc_jump item evaluated at position{:+d} with correction {:+d}, '
                                                    'but the value finally encoded is evaluated at position{:+d} with correction {:+d} ({}): a decision such as '
                                                    '"imm == 0 -> c.jalr" is taken on a different number than the one encoded'.format(
                                                        e[1], e[2], r0[0], r0[1], e[6]), line=e[4].lineno))
        # the encoded value must be relative to the auipc: the auipc sits one 4-byte instruction before the jalr
        for e in bake:
            if e[6] == 'flag not consulted':
                continue
            eff = -e[1] + e[2]        # evaluating an %offset at position+k yields (target - position) - k
            report.check(eff == 4 and e[2] == 0 or not nonlinear and eff == 4, rule_sib + '.origin',
                         '{}: is_auipc_jump immediates are taken relative to the preceding auipc'.format(e[0]),
                         lambda e=e, eff=eff: Finding(rule_sib + '.origin', e[5], e[4],
                                                      'the jalr half of an auipc pair is evaluated {} bytes from its own position; the auipc that supplies the pc is 4 bytes before it'.format(-e[1]),
                                                      line=e[4].lineno))
