"""C15 - a faulty source line is reported as an assembler error naming that file and line."""
import ast

from ..core import Report, Finding, AnalysisError
from ..facts import Facts
from ..astutil import unparse, dotted, walk_no_nested, enclosing_function, qualname
from ..callgraph import CallGraph, Escape
from ..pathwalk import show, is_const, C
from .. import layoutrules as LR
from ..wiring import parse_item_outcomes
from ..layout import pipeline

LEVEL = 'other'


def synthesized_size_token(facts):
    """True when read_lines appends an integer (os.path.getsize) to include_bytes lines, so that token 2 of such a line is
    always a number written by the assembler itself."""
    fn = facts.funcs.get('read_lines')
    if fn is None:
        return False
    for n in ast.walk(fn):
        if isinstance(n, ast.Assign) and isinstance(n.targets[0], ast.Attribute) and n.targets[0].attr == 'contents' \
                and isinstance(n.value, ast.Call) and isinstance(n.value.func, ast.Attribute) and n.value.func.attr == 'format' \
                and isinstance(n.value.func.value, ast.Constant) and n.value.func.value.value.split() == ['{}', '{}'] and len(n.value.args) == 2:
            size = n.value.args[1]
            if isinstance(size, ast.Name):
                for m in ast.walk(fn):
                    if isinstance(m, ast.Assign) and isinstance(m.targets[0], ast.Name) and m.targets[0].id == size.id \
                            and isinstance(m.value, ast.Call) and dotted(m.value.func) == 'os.path.getsize':
                        return True
    return False


def make_library_raisers(facts, cg):
    safe_size_token = synthesized_size_token(facts)

    def derives_from_user(qual, node, fn):
        """Does the expression read item fields / tokens (user text)?"""
        names = {n.id for n in ast.walk(node) if isinstance(n, ast.Name)}
        attrs = {n.attr for n in ast.walk(node) if isinstance(n, ast.Attribute)}
        if attrs & {'values', 'imm', 'fmt', 'value', 'expr', 'args', 'alignment'}:
            return True
        # a local bound from such an expression (one step)
        for nm in names:
            for st in ast.walk(fn):
                if isinstance(st, ast.Assign) and any(isinstance(t, ast.Name) and t.id == nm for t in st.targets):
                    a2 = {n.attr for n in ast.walk(st.value) if isinstance(n, ast.Attribute)}
                    if a2 & {'values', 'imm', 'fmt', 'value'}:
                        return True
                if isinstance(st, (ast.For, ast.comprehension)) and isinstance(st.target, ast.Name) and st.target.id == nm:
                    a2 = {n.attr for n in ast.walk(st.iter) if isinstance(n, ast.Attribute)}
                    n2 = {n.id for n in ast.walk(st.iter) if isinstance(n, ast.Name)}
                    if a2 & {'values'} or n2 & {'values'}:
                        return True
        if qual == 'parse_item' and names & {'tokens', 'alignment', 'size'}:
            return True
        return False

    def raisers(qual, call):
        fn = cg.funcs[qual]
        d = dotted(call.func)
        if d in ('struct.pack', 'struct.calcsize') and call.args:
            fmt = call.args[0]
            const_fmt = isinstance(fmt, ast.Constant)
            if isinstance(fmt, ast.Name):
                defs = [st.value for st in ast.walk(fn) if isinstance(st, ast.Assign) and any(isinstance(t, ast.Name) and t.id == fmt.id for t in st.targets)]
                const_fmt = bool(defs) and all(isinstance(v, ast.Constant) and isinstance(v.value, str) for v in defs)
            values_user = any(derives_from_user(qual, a, fn) for a in call.args[1:])
            if not const_fmt or values_user:
                return ['struct.error']
            return []
        if d == 'int' and call.args:
            if derives_from_user(qual, call.args[0], fn):
                if qual == 'parse_item' and safe_size_token and isinstance(call.args[0], ast.Name) and call.args[0].id == 'size':
                    return []
                return ['ValueError']
        return []
    return raisers


def line_kinded(expr, fn, facts, cg, depth=0, visiting=None):
    """Is the expression a Line object?  (kind dataflow: Line(...) constructions, `.line` attributes of items / token
    records, parameters whose every call site passes a Line.)"""
    if isinstance(expr, ast.Attribute) and expr.attr == 'line':
        return True
    if isinstance(expr, ast.Call) and dotted(expr.func) == 'Line':
        return True
    if isinstance(expr, ast.Name):
        defs = [st.value for st in ast.walk(fn) if isinstance(st, ast.Assign) and any(isinstance(t, ast.Name) and t.id == expr.id for t in st.targets)]
        if defs:
            return all(line_kinded(v, fn, facts, cg, depth, visiting) for v in defs)
        params = [a.arg for a in fn.args.args]
        visiting = visiting if visiting is not None else set()
        if expr.id in params and (id(fn), expr.id) in visiting:
            return True       # coinductive: a parameter is a Line if every *outside* call site passes one
        if expr.id in params and depth < 12:
            visiting = visiting | {(id(fn), expr.id)}
            idx = params.index(expr.id)
            qual = [q for q, n in cg.funcs.items() if n is fn]
            if not qual:
                return False
            q = qual[0]
            is_method = '.' in q and q.split('.')[0] in facts.classes
            sites = cg.call_sites().get(q, [])
            if not sites:
                return expr.id == 'line'
            ok = True
            for cfn, call in sites:
                pos = idx - 1 if is_method else idx
                if pos < len(call.args):
                    arg = call.args[pos]
                else:
                    kw = [k.value for k in call.keywords if k.arg == expr.id]
                    if not kw:
                        return False
                    arg = kw[0]
                if not line_kinded(arg, cfn, facts, cg, depth + 1, visiting):
                    ok = False
            return ok
    return False


def run(repo, tier):
    facts = Facts(repo.asm)
    rep = Report('C15', LEVEL,
                 'Exception-escape analysis over a call graph with repository-specific resolution (INSTRUCTIONS table -> partial '
                 'bindings -> encoders and constraint closures, criteria predicate closures, methods by name, positional rebuild): for '
                 'every explicit raise of something other than AssemblerError, and every struct / int() call fed with user data, every '
                 'call chain from assemble() must cross a handler that catches it and raises AssemblerError(message, <Line>).  Raises '
                 'guarding internal invariants are discharged by the analysis that proves them dead (class flow, dispatch exhaustiveness). '
                 'Kind dataflow: second argument of every AssemblerError is a Line; every item built by the parser or a pass carries the '
                 'line of its source; Line is created once per physical line with the path of the file being read and a 1-based number.')
    rep.trusted_base = ['CPython ast', 'bbverif.callgraph resolution rules', 'bbverif.pathwalk']
    rep.not_decided = ['exceptions Python raises implicitly on malformed arity or syntax (tuple unpacking, tokens[3] IndexError, UnicodeDecodeError on a trailing '
                       'backslash, ZeroDivisionError for align 0): listed as escape candidates, not judged',
                       'duplicate label definitions are not refused at all, so the premise "when a program is refused" is never met for that class']
    cg = CallGraph(facts)
    rep.count('functions in call graph', len(cg.funcs))
    # internal-invariant raises proved dead
    dead = set()
    blobs = facts.funcs.get('resolve_blobs')
    flows_ok = True
    for compress in (False, True):
        steps = LR.class_flow(facts, compress)
        if not steps or steps[-1][3] != {'Blob'}:
            flows_ok = False
    if blobs is not None and flows_ok:
        for n in ast.walk(blobs):
            if isinstance(n, ast.Raise):
                dead.add(id(n))
        rep.ok('R15.1.dead', 'resolve_blobs: `expected only blobs` is unreachable (class flow ends in {Blob} on both arms)')
    # a lookup_register(item.F) in a construction arm is dominated by the matched rule's predicates, each of which already
    # looked the same unchanged field up without raising (all() evaluated every predicate of the rule that fired)
    safe = set()
    try:
        from ..comprel import CompRel, mentions
        from ..immsites import find_all
        rel = CompRel(facts)
        rules = {ru.key: ru for ru in rel.rules}
        for key, con in rel.constructions.items():
            ru = rules.get(key)
            if ru is None:
                continue
            used = set()
            for f in ru.formulas:
                used |= mentions(f)
            looked = find_all(con.val, lambda t: t[0] == 'call' and t[1] == 'lookup_register' and len(t[2]) == 1
                              and t[2][0][0] == 'attr' and t[2][0][1] == rel.pa.item)
            if looked and all(t[2][0][2] in used for t in looked):
                for n in ast.walk(con.node):
                    if isinstance(n, ast.Call) and dotted(n.func) == 'lookup_register':
                        safe.add(id(n))
                        rep.ok('R15.1.dominated', 'construction of {!r}: lookup_register({}) was already evaluated by the rule\'s predicates'.format(key, unparse(n.args[0])))
    except AnalysisError:
        safe = set()
    esc = Escape(cg, make_library_raisers(facts, cg), dead, safe)
    n_sites = len([n for q, f in cg.funcs.items() for n in walk_no_nested(f) if isinstance(n, ast.Raise)])
    rep.analysed['raise sites'] = n_sites
    if 'assemble' not in esc.esc:
        raise AnalysisError('anchor vanished: assemble')
    escaping = {k: v for k, v in esc.esc['assemble'].items() if k[0] != 'AssemblerError'}
    reachable_origins = set()
    for (exc, origin), chain in sorted(escaping.items(), key=lambda t: (t[0][0], t[1][-1][1].lineno)):
        q_origin, node = chain[-1]
        entry = chain[1][0] if len(chain) > 1 else chain[0][0]
        text = ' -> '.join('{}:{}'.format(q, n.lineno) for q, n in chain)
        rep.fail(Finding('R15.1.escape', '{} via {}'.format(q_origin, entry), node,
                         '{} raised here leaves assemble() without being converted into an AssemblerError carrying the source line; call chain: {}'.format(exc, text),
                         line=node.lineno, detail={'chain': text}), instance='{} {} via {}'.format(exc, q_origin, entry))
    # what was converted (positive evidence)
    conv = {}
    for q, h, exc, chain in esc.handlers_seen:
        if exc == 'AssemblerError':
            continue
        conv.setdefault((chain[-1][0], exc, q), h)
    for (origin, exc, q), h in sorted(conv.items()):
        converts = any(isinstance(n, ast.Raise) and n.exc is not None and isinstance(n.exc, ast.Call) and dotted(n.exc.func) == 'AssemblerError' for n in ast.walk(h))
        swallowed_ok = q in ('lookup_register', 'is_int') or (h.type is None and q in ('lookup_register', 'is_int'))
        if converts:
            rep.ok('R15.1.escape', '{} from {} is converted to AssemblerError in {}'.format(exc, origin, q))
        elif not swallowed_ok and q not in ('cli_main',):
            rep.note('{} from {} is absorbed (not converted) by a handler in {}'.format(exc, origin, q))
    rep.analysed['conversions seen'] = len(conv)
    # R15.7 an AssemblerError already names its line: a handler that catches it (by name, by Exception or bare) and raises a
    # *new* AssemblerError replaces the faulty line by the handler's own (e.g. the `include` line of a parent file)
    relabel = {}
    for q, h, exc, chain in esc.handlers_seen:
        if exc != 'AssemblerError':
            continue
        raises = [n for n in ast.walk(h) if isinstance(n, ast.Raise)]
        for r in raises:
            if r.exc is None:
                continue       # bare re-raise keeps the original
            if isinstance(r.exc, ast.Name) and h.name and r.exc.id == h.name:
                continue       # raise e
            if isinstance(r.exc, ast.Call) and dotted(r.exc.func) == 'AssemblerError':
                line_arg = r.exc.args[1] if len(r.exc.args) > 1 else None
                keeps = line_arg is not None and h.name is not None and unparse(line_arg) in ('{}.line'.format(h.name),)
                if not keeps:
                    relabel.setdefault((q, id(h)), (q, h, r, chain))
            elif isinstance(r.exc, ast.Call) and dotted(r.exc.func) in ('SystemExit',):
                continue
    for (q, _), (q2, h, r, chain) in sorted(relabel.items(), key=lambda t: t[0][0]):
        if q2 == 'cli_main':
            continue
        origin = chain[-1]
        rep.fail(Finding('R15.7.relabel', q2, r,
                         'this handler also catches AssemblerError (e.g. the one raised at {}:{}) and replaces it by a new error carrying `{}`: a fault in an included file / deeper '
                         'construct is reported at the wrong file and line'.format(origin[0], origin[1].lineno, unparse(r.exc.args[1]) if isinstance(r.exc, ast.Call) and len(r.exc.args) > 1 else '?'),
                         line=r.lineno), instance='{} handler at {}'.format(q2, unparse(h.type) if h.type else 'bare'))
    if not relabel:
        rep.ok('R15.7.relabel', 'no handler re-labels an AssemblerError with another line')
    # R15.2 every AssemblerError(...) carries a Line
    n_ae = 0
    for q, fn in cg.funcs.items():
        for n in walk_no_nested(fn):
            if isinstance(n, ast.Call) and dotted(n.func) == 'AssemblerError':
                n_ae += 1
                arg = n.args[1] if len(n.args) > 1 else next((k.value for k in n.keywords if k.arg == 'line'), None)
                ok = arg is not None and line_kinded(arg, fn, facts, cg)
                rep.check(ok, 'R15.2.line', 'AssemblerError in {} carries a Line ({})'.format(q, unparse(arg) if arg is not None else 'missing'),
                          lambda q=q, n=n, arg=arg: Finding('R15.2.line', q, n, 'this assembler error does not carry the Line of the faulty source line (second argument: {})'.format(
                              unparse(arg) if arg is not None else 'missing'), line=n.lineno), nontrivial=False)
    rep.analysed['AssemblerError constructions'] = n_ae
    # R15.3 Arithmetic.eval: the eval() call is under a catch-all whose handlers all raise AssemblerError with the line parameter
    m = cg.funcs.get('Arithmetic.eval')
    if m is None:
        raise AnalysisError('anchor vanished: Arithmetic.eval')
    ok3 = False
    for t in [n for n in ast.walk(m) if isinstance(n, ast.Try)]:
        has_eval = any(isinstance(n, ast.Call) and dotted(n.func) == 'eval' for b in t.body for n in ast.walk(b))
        if has_eval:
            catch_all = any(h.type is None or dotted(h.type) in ('Exception', 'BaseException') for h in t.handlers)
            all_convert = all(h.body and isinstance(h.body[-1], ast.Raise) and isinstance(h.body[-1].exc, ast.Call)
                              and dotted(h.body[-1].exc.func) == 'AssemblerError' for h in t.handlers)
            ok3 = catch_all and all_convert
    rep.check(ok3, 'R15.3.eval', 'eval() of user expressions is under a catch-all that converts to AssemblerError',
              lambda: Finding('R15.3.eval', 'Arithmetic.eval', m, 'python exceptions from evaluating a user expression can leak (no catch-all converting handler around eval)', line=m.lineno))
    # R15.5 origin and propagation of Line
    rl = facts.funcs.get('read_lines')
    lines_made = [n for n in ast.walk(rl) if isinstance(n, ast.Call) and dotted(n.func) == 'Line']
    good = False
    for n in lines_made:
        loop = None
        p = getattr(n, '_parent', None)
        while p is not None and not isinstance(p, ast.For):
            p = getattr(p, '_parent', None)
        if p is None or len(n.args) != 3:
            continue
        it = p.iter
        start1 = isinstance(it, ast.Call) and dotted(it.func) == 'enumerate' and any(k.arg == 'start' and isinstance(k.value, ast.Constant) and k.value.value == 1 for k in it.keywords) \
            or (isinstance(it, ast.Call) and dotted(it.func) == 'enumerate' and len(it.args) == 2 and isinstance(it.args[1], ast.Constant) and it.args[1].value == 1)
        tgt = p.target
        idx_name = tgt.elts[0].id if isinstance(tgt, ast.Tuple) and isinstance(tgt.elts[0], ast.Name) else None
        raw_name = tgt.elts[1].id if isinstance(tgt, ast.Tuple) and len(tgt.elts) > 1 and isinstance(tgt.elts[1], ast.Name) else None
        over_source = (isinstance(it, ast.Call) and it.args and isinstance(it.args[0], ast.Call) and isinstance(it.args[0].func, ast.Attribute)
                       and it.args[0].func.attr == 'splitlines')
        path_arg = unparse(n.args[0])
        # the path variable is the function's own path parameter (or '<string>')
        path_defs = [unparse(st.value) for st in ast.walk(rl) if isinstance(st, ast.Assign) and any(isinstance(t, ast.Name) and t.id == path_arg for t in st.targets)]
        path_ok = set(path_defs) <= {rl.args.args[0].arg, "'<string>'"} and bool(path_defs)
        good = bool(start1) and unparse(n.args[1]) == idx_name and unparse(n.args[2]) == raw_name and over_source and path_ok
        rep.check(good, 'R15.5.origin', 'Line(path of the file being read, 1-based index, raw text) per physical line',
                  lambda n=n: Finding('R15.5.origin', 'read_lines', n, 'source lines are not recorded with the path of the file being read and their 1-based line number', line=n.lineno))
    rep.check(bool(lines_made), 'R15.5.origin', 'read_lines creates Line objects',
              lambda: Finding('R15.5.origin', 'read_lines', rl, 'no Line is created per source line', line=rl.lineno), nontrivial=False)
    arms, _ = parse_item_outcomes(facts)
    n_items = 0
    for key, test, outcomes in arms:
        for o in outcomes:
            if o.kind == 'return' and o.cls and facts.is_subclass(o.cls, 'Item'):
                n_items += 1
                rep.check(bool(o.args) and o.args[0] == ('line',), 'R15.5.items', 'parse_item: {} carries the line it was parsed from'.format(o.cls),
                          lambda o=o: Finding('R15.5.items', 'parse_item', o.node, '{} is built without the Line it was parsed from'.format(o.cls), line=o.node.lineno), nontrivial=False)
    for name, guard, node, args, tgt in pipeline(facts):
        if name in ('read_lines', 'resolve_blobs'):
            continue
        pa = LR.pass_analysis(facts, name)
        for r in pa.rows:
            for val, n in r['acc'].new_values:
                if val[0] == 'new' and val[1] in facts.classes and facts.is_subclass(val[1], 'Item'):
                    n_items += 1
                    first = val[2][0] if val[2] else dict(val[3]).get('line')
                    rep.check(first == ('attr', pa.item, 'line'), 'R15.5.items', '{}: {} keeps the source line of the item it derives from'.format(name, val[1]),
                              lambda name=name, n=n, val=val: Finding('R15.5.items', name, n, '{} built by {} does not carry the source line of the item it replaces'.format(val[1], name), line=n.lineno),
                              nontrivial=False)
    rep.analysed['item constructions checked'] = n_items
    # R15.6 rendering
    ae = facts.classes.get('AssemblerError')
    ln = facts.classes.get('Line')
    s_ok = ae is not None and '__str__' in ae.methods and 'self.line' in unparse(ae.methods['__str__']) and 'self.message' in unparse(ae.methods['__str__'])
    rep.check(s_ok, 'R15.6.render', 'AssemblerError.__str__ shows the line and the message',
              lambda: Finding('R15.6.render', 'AssemblerError.__str__', ae.node if ae else 'AssemblerError', 'the error text does not include the source line', line=ae.node.lineno if ae else 1))
    l_ok = ln is not None and '__str__' in ln.methods and 'self.file' in unparse(ln.methods['__str__']) and 'self.number' in unparse(ln.methods['__str__'])
    rep.check(l_ok, 'R15.6.render', 'Line.__str__ shows file and line number',
              lambda: Finding('R15.6.render', 'Line.__str__', ln.node if ln else 'Line', 'a Line does not render its file and number', line=ln.node.lineno if ln else 1))
    init = ae.methods.get('__init__') if ae else None
    i_ok = init is not None and any(isinstance(n, ast.Assign) and unparse(n.targets[0]) == 'self.line' and unparse(n.value) == init.args.args[2].arg for n in ast.walk(init)) if init and len(init.args.args) > 2 else False
    rep.check(i_ok, 'R15.6.render', 'AssemblerError keeps the line it is given',
              lambda: Finding('R15.6.render', 'AssemblerError.__init__', init or 'AssemblerError', 'the error does not store its line argument', line=ae.node.lineno if ae else 1), nontrivial=False)
    # informational: implicit escape candidates
    cands = []
    pi = facts.funcs.get('parse_item')
    for n in ast.walk(pi):
        if isinstance(n, ast.Assign) and isinstance(n.targets[0], ast.Tuple) and isinstance(n.value, ast.Name) and n.value.id == 'tokens':
            cands.append(n.lineno)
    rep.analysed['escape-candidates (implicit arity errors, informational)'] = len(cands)
    rep.sample({'conversions': ['{} from {} in {}'.format(e, o, q) for (o, e, q) in sorted(conv)][:12]})
    rep.floor('functions in call graph', 200)
    rep.floor('raise sites', 60)
    rep.floor('AssemblerError constructions', 30)
    rep.floor('conversions seen', 10)
    rep.floor('item constructions checked', 60)
    return rep
