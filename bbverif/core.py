"""Shared runner infrastructure: repo loading, findings, reports, evidence, exit-code discipline.

Nothing in this package imports or executes code from the analysed repository: sources are read as
text and parsed with ``ast``.
"""
import ast
import hashlib
import json
import os
import re
import sys
import time
import traceback

VERIF_ROOT = os.path.dirname(os.path.dirname(os.path.abspath(__file__)))
EVIDENCE_DIR = os.path.join(VERIF_ROOT, 'evidence')
REPLAY_DIR = os.path.join(EVIDENCE_DIR, 'replay')
KNOWN_FINDINGS = os.path.join(VERIF_ROOT, 'known_findings.json')

SOURCE_FILES = ['bronzebeard/asm.py', 'bronzebeard/dfu.py', 'bronzebeard/__init__.py']
DOC_FILES = ['docs/instruction_reference.rst', 'docs/assembly_language.rst', 'docs/command_line_usage.rst']


class AnalysisError(Exception):
    """The analysis cannot give a verdict (anchor vanished, construct outside the abstract domain,
    instance floor not met).  Never a pass, never a violation: exit status 2."""


class _Normalise(ast.NodeTransformer):
    """Type annotations carry no run-time behaviour the rules care about: `x: T = v` is analysed as `x = v`, a bare `x: T`
    as `pass`, and parameter / return annotations are dropped (line numbers are kept)."""

    def visit_AnnAssign(self, node):
        self.generic_visit(node)
        if node.value is None:
            return ast.copy_location(ast.Pass(), node)
        new = ast.Assign(targets=[node.target], value=node.value, type_comment=None)
        return ast.copy_location(new, node)

    def _fn(self, node):
        self.generic_visit(node)
        node.returns = None
        for a in node.args.posonlyargs + node.args.args + node.args.kwonlyargs:
            a.annotation = None
        if node.args.vararg:
            node.args.vararg.annotation = None
        if node.args.kwarg:
            node.args.kwarg.annotation = None
        return node

    visit_FunctionDef = _fn
    visit_AsyncFunctionDef = _fn


def normalise_tree(tree):
    tree = _Normalise().visit(tree)
    ast.fix_missing_locations(tree)
    return tree


class Repo:
    def __init__(self, root):
        self.root = os.path.abspath(root)
        self.text = {}
        self.tree = {}
        self.lines = {}
        for rel in SOURCE_FILES + DOC_FILES:
            p = os.path.join(self.root, rel)
            try:
                with open(p, encoding='utf-8') as f:
                    self.text[rel] = f.read()
            except OSError as e:
                raise AnalysisError('cannot read {}: {}'.format(p, e))
            self.lines[rel] = self.text[rel].splitlines()
        for rel in SOURCE_FILES:
            try:
                self.tree[rel] = ast.parse(self.text[rel], filename=rel)
            except SyntaxError as e:
                raise AnalysisError('cannot parse {}: {}'.format(rel, e))
            self.tree[rel] = normalise_tree(self.tree[rel])
            for node in ast.walk(self.tree[rel]):
                for child in ast.iter_child_nodes(node):
                    child._parent = node
            self.tree[rel]._parent = None

    def digests(self, rels=None):
        out = {}
        for rel in rels or (SOURCE_FILES + DOC_FILES):
            out[rel] = hashlib.sha256(self.text[rel].encode('utf-8')).hexdigest()[:16]
        return out

    @property
    def asm(self):
        return self.tree['bronzebeard/asm.py']

    @property
    def dfu(self):
        return self.tree['bronzebeard/dfu.py']


def norm_stmt(node_or_text):
    """Normalised one-line text of a statement / expression: the finding key never uses line numbers."""
    if isinstance(node_or_text, ast.AST):
        try:
            text = ast.unparse(node_or_text)
        except Exception:
            text = ast.dump(node_or_text)
    else:
        text = str(node_or_text)
    text = text.strip().split('\n')[0]
    text = re.sub(r'\s+', ' ', text)
    if len(text) > 160:
        text = text[:157] + '...'
    return text


class Finding:
    def __init__(self, rule, construct, stmt, message, file='bronzebeard/asm.py', line=None, detail=None):
        self.rule = rule
        self.construct = construct
        self.stmt = norm_stmt(stmt) if stmt is not None else ''
        self.message = message
        self.file = file
        self.line = line if line is not None else getattr(stmt, 'lineno', None)
        self.detail = detail or {}

    @property
    def key(self):
        return '{}|{}|{}'.format(self.rule, self.construct, self.stmt)

    def to_json(self):
        return {
            'rule': self.rule, 'construct': self.construct, 'statement': self.stmt,
            'message': self.message, 'file': self.file, 'line': self.line, 'detail': self.detail,
            'key': self.key,
        }

    def __str__(self):
        loc = '{}:{}'.format(self.file, self.line) if self.line else self.file
        return '[{}] {} in {}: {}  <<{}>>'.format(self.rule, loc, self.construct, self.message, self.stmt)


class Report:
    """What one property's check analysed and concluded."""

    def __init__(self, prop, level, explanation):
        self.prop = prop
        self.level = level
        self.explanation = explanation
        self.findings = []
        self.obligations = []      # (rule, instance, ok)
        self.samples = []
        self.notes = []
        self.not_decided = []
        self.analysed = {}         # free-form measured counters
        self.trusted_base = []
        self.assumptions = []
        self._nontrivial = set()
        self._seen = set()
        self._floors = []

    # -- recording -----------------------------------------------------------------------------
    def ok(self, rule, instance, nontrivial=True):
        key = (rule, str(instance), True)
        if key in self._seen:
            return
        self._seen.add(key)
        self.obligations.append((rule, str(instance), True))
        if nontrivial:
            self._nontrivial.add((rule, str(instance)))

    def fail(self, finding, instance=None):
        key = (finding.rule, str(instance if instance is not None else finding.construct), False)
        if key not in self._seen:
            self._seen.add(key)
            self.obligations.append(key)
        self._nontrivial.add((finding.rule, str(instance if instance is not None else finding.construct)))
        # one finding per key
        if all(f.key != finding.key for f in self.findings):
            self.findings.append(finding)

    def check(self, cond, rule, instance, finding_factory, nontrivial=True):
        if cond:
            self.ok(rule, instance, nontrivial)
        else:
            self.fail(finding_factory(), instance)
        return cond

    def sample(self, obj, limit=24):
        if len(self.samples) < limit:
            self.samples.append(obj)

    def note(self, text):
        if text not in self.notes:
            self.notes.append(text)

    def count(self, key, n=1):
        self.analysed[key] = self.analysed.get(key, 0) + n

    def floor(self, key, minimum):
        """Instance floor: fewer analysed instances than confirmed by hand = analysis broken."""
        self._floors.append((key, minimum))

    def check_floors(self):
        """Evaluated by the runner when no violation was found: a vacuous pass is analysis-broken, but a floor must not
        mask a violation that was already established."""
        for key, minimum in self._floors:
            have = self.analysed.get(key, 0)
            if have < minimum:
                raise AnalysisError('instance floor not met for {}: analysed {} < expected {} '
                                    '(anchor vanished or rule no longer matches the code)'.format(key, have, minimum))


def load_known():
    try:
        with open(KNOWN_FINDINGS) as f:
            data = json.load(f)
    except FileNotFoundError:
        return {'known': [], 'fixed': []}
    return data


def run_property(prop, runner, repo_root, tier, level, seed=0, write_evidence=True, quiet=False):
    """Run one property check and translate its Report into the interface contract."""
    t0 = time.time()
    out = []

    def emit(s):
        out.append(s)
        if not quiet:
            try:
                print(s)
                sys.stdout.flush()
            except BrokenPipeError:
                pass

    try:
        repo = Repo(repo_root)
        report = runner(repo, tier)
        if not report.findings:
            report.check_floors()
    except AnalysisError as e:
        emit('ANALYSIS-ERROR property={} {}'.format(prop, e))
        return 2, out
    except Exception:
        tb = traceback.format_exc()
        emit('ANALYSIS-ERROR property={} internal error in checker:\n{}'.format(prop, tb))
        return 2, out

    known = load_known()
    known_keys = {}
    for k in known.get('known', []):
        if k.get('property') == prop:
            known_keys[k['key']] = k
    new, listed = [], []
    for f in report.findings:
        if f.key in known_keys:
            listed.append(f)
        else:
            new.append(f)

    wall = time.time() - t0
    n_obl = len(report.obligations)
    n_ok = sum(1 for o in report.obligations if o[2])
    emit('property={} tier={} repo={} obligations={} discharged={} findings={} (new={} known={}) wall={:.2f}s'.format(
        prop, tier, repo.root, n_obl, n_ok, len(report.findings), len(new), len(listed), wall))
    for k, v in sorted(report.analysed.items()):
        emit('  analysed {}: {}'.format(k, v))
    for n in report.notes:
        emit('  note: {}'.format(n))
    for f in listed:
        emit('KNOWN-FINDING: property={} {}'.format(prop, f))
    replay_paths = []
    for f in new:
        os.makedirs(REPLAY_DIR, exist_ok=True)
        h = hashlib.sha256(f.key.encode()).hexdigest()[:12]
        path = os.path.join(REPLAY_DIR, '{}-{}.json'.format(prop, h))
        rec = f.to_json()
        rec['property'] = prop
        rec['repo'] = repo.root
        try:
            with open(path, 'w') as fh:
                json.dump(rec, fh, indent=1, default=str)
        except OSError:
            pass
        replay_paths.append(path)
        emit('  finding: {}'.format(f))
        emit('VIOLATION property={} replay={}'.format(prop, path))

    if write_evidence:
        cov = {
            'evaluations': max(n_obl, 1),
            'distinct_nontrivial': len(report._nontrivial),
            'rule': 'one evaluation per (rule, instance) obligation derived from the syntax tree of the current '
                    'working tree; an instance is non-trivial when the rule had to relate at least two program '
                    'facts (not a mere presence test); distinct by (rule, instance) name',
            'samples': report.samples[:24] or [{'rule': o[0], 'instance': o[1], 'ok': o[2]} for o in report.obligations[:8]],
            'obligations': n_obl,
            'discharged': n_ok,
            'checker_cmd': '/venv/bin/python /verif/bbverif/check.py {} --tier {}'.format(prop, tier),
            'trusted_base': report.trusted_base or ['CPython ast module', 'bbverif abstract domains and oracle tables'],
            'explanation': report.explanation,
            'exhaustive': True,
            'analysed': report.analysed,
            'rules': sorted({o[0] for o in report.obligations}),
            'not_decided': report.not_decided,
            'notes': report.notes,
            'findings': [f.to_json() for f in report.findings],
            'known_findings_matched': [f.key for f in listed],
            'source_digests': repo.digests(),
        }
        ev = {
            'property_id': prop,
            'tier': tier,
            'seed': seed,
            'level': level,
            'coverage': cov,
            'assumptions': report.assumptions,
            'wall_s': round(wall, 3),
            'violations': len(new),
        }
        os.makedirs(EVIDENCE_DIR, exist_ok=True)
        with open(os.path.join(EVIDENCE_DIR, '{}.json'.format(prop)), 'w') as fh:
            json.dump(ev, fh, indent=1, default=str)

    return (1 if new else 0), out
