#!/usr/bin/env python
"""
Differential check: the instruction encoders of the working-tree bronzebeard/asm.py
against the ones committed at HEAD.

For every mnemonic in INSTRUCTIONS the two bindings are called with the same operands
and must either give the same word (same type, same value) or refuse with the same
exception type.  Messages are allowed to differ.

usage: equiv.py [--new PATH] [--rev REV] [--jobs N]

Exits 0 when everything matches, 1 otherwise.
"""

import argparse
import importlib.util
import inspect
import itertools
import multiprocessing
import os
import shutil
import subprocess
import sys
import tempfile
import time

HERE = os.path.dirname(os.path.abspath(__file__))


###############################################################################
# loading
###############################################################################

def load_module(name, path):
    spec = importlib.util.spec_from_file_location(name, path)
    module = importlib.util.module_from_spec(spec)
    sys.modules[name] = module
    spec.loader.exec_module(module)
    return module


_PAIRS = {}


def load_pair(rev, new_path):
    if (rev, new_path) not in _PAIRS:
        _PAIRS[rev, new_path] = _load_pair(rev, new_path)
    return _PAIRS[rev, new_path]


def _load_pair(rev, new_path):
    source = subprocess.run(
        ['git', 'show', '{}:bronzebeard/asm.py'.format(rev)],
        cwd=HERE, check=True, stdout=subprocess.PIPE).stdout
    tmpdir = tempfile.mkdtemp(prefix='equiv_')
    old_path = os.path.join(tmpdir, 'asm_original.py')
    with open(old_path, 'wb') as f:
        f.write(source)
    try:
        old = load_module('asm_original', old_path)
    finally:
        shutil.rmtree(tmpdir, ignore_errors=True)
    new = load_module('asm_refactored', new_path)
    return old, new


###############################################################################
# operand sets
###############################################################################

def around(center, spread=4):
    return range(center - spread, center + spread + 1)


def build_immediates():
    boundary = set()
    # +-2^k +-{0..4}
    for k in range(0, 35):
        for sign in (1, -1):
            boundary.update(around(sign * (1 << k)))
    # edges of the lui/auipc and c.lui alias windows, and of every encoder range
    edges = [
        0x80000, 0xfffff, 0x100000, -0x80000, 0x7ffff, 0xfffe0, 0xfffdf, 0xfffe0 - 32,
        -0x800, 0x7ff, -0x1000, 0xfff, -0x100000, 0xfffff, -32, 31, -512, 511,
        0, 255, 1023, 127, -256, -2048, 2047, 63, 64, 32, 16, 496, -496, 508, 252, 124, 1020,
        0xfffe0 + 16, 0xffff0, 0x80000 + 0x800, 0xff800, 0xfff00,
        1 << 31, (1 << 32) - 1, 1 << 32, -(1 << 31), -(1 << 32), (1 << 32) + 0xfffe0, (1 << 32) - 32,
        (1 << 32) + 4, (1 << 32) + 0x7ff, (1 << 20) + 4, (1 << 12) + 4, -(1 << 20) + 0xfffe0,
    ]
    for e in edges:
        boundary.update(around(e))
    # every multiple-of-16/4/2 pattern in the small compressed ranges is inside the dense block below
    dense = set(range(-5000, 5001)) | boundary
    return sorted(boundary), sorted(dense)


IMM_BOUNDARY, IMM_DENSE = build_immediates()

# a smaller set used with the full register cross product
IMM_KEY = sorted(set(
    list(range(-40, 41))
    + [e + d for e in (-0x800, 0x7ff, -0x1000, 0xfff, -512, 511, 255, 1023, 127, -256, -2048, 2047,
                       0x80000, 0xfffff, -0x80000, 0x7ffff, 0xfffe0, -0x100000, 1 << 32, (1 << 32) + 0xfffe0)
       for d in (-2, -1, 0, 1, 2)]
    + [44, 48, 64, 96, 100, 124, 128, 252, 256, 496, 508, 512, 1000, 1020, 1024, -48, -64, -100, -496, -500]
))

# immediates that are not ints at all (NaN is left out on purpose, see the report)
IMM_ODD = [True, False, 0.0, 2.0, 2.5, -4.0, 16.0, 4.0, 1e10, float('inf'), -float('inf'),
           '4', '', None, b'4', (4,), [4], 4 + 0j]

REG_INTS = list(range(-3, 36))
REG_NAMES = ['x{}'.format(i) for i in range(0, 33)]
REG_ALIASES = ['zero', 'ra', 'sp', 'gp', 'tp', 't0', 't1', 't2', 's0', 'fp', 's1',
               'a0', 'a1', 'a2', 'a3', 'a4', 'a5', 'a6', 'a7',
               's2', 's3', 's4', 's5', 's6', 's7', 's8', 's9', 's10', 's11', 's12',
               't3', 't4', 't5', 't6', 't7']
REG_STRINGS = ['0', '2', '7', '8', '15', '16', '31', '32', '-1', '0x8', '0xf', '0x10', '0x1f', '0x20',
               '0b1000', '0o17', '010', '08', ' 9 ', '1_0', '+9', 'foo', '', 'X5', 'A0', 'x-1', 'x08', 'x0x8']
REG_WEIRD = [None, True, False, 3.0, 8.0, 8.5, 15.0, float('nan'), b'9', b'x9', bytearray(b'10'), (1,), 1 << 40,
             -(1 << 40), 9 + 0j]
REG_UNHASHABLE = [[], {}, [8]]

REGS_FULL = REG_INTS + REG_NAMES + REG_ALIASES + REG_STRINGS + REG_WEIRD + REG_UNHASHABLE
# for three-register cross products
REGS_MEDIUM = (REG_INTS + ['x0', 'x8', 'x15', 'x31', 'x32', 'zero', 'sp', 'fp', 's1', 'a5', 'a6', 't6',
                           '0x8', '0x20', ' 9 ', 'foo', '', None, True, 8.0, 8.5, b'9', []])
# for the dense immediate sweep
REGS_PROBE = [0, 1, 2, 3, 7, 8, 9, 12, 15, 16, 31, 32, -1, 'foo', 'a0', 's1', 'sp', 'zero', None, []]
REG_TUPLES_2 = [(0, 0), (1, 2), (2, 1), (8, 9), (15, 8), (9, 15), (31, 31), (10, 'a1'), ('s0', 's1'),
                (32, 0), (0, 'foo'), (7, 16), (8, 7), (16, 8), ('foo', 'bar'), ([], 32), (32, [])]

FENCE_VALUES = list(range(-3, 20)) + ['0', '1', '15', '16', '0xf', '0x10', '0b1111', '-1', 'iorw', 'rw', '',
                                      None, True, 3.0, 15.0, b'3', 1 << 33, [1]]
AQRL_VALUES = [0, 1, 2, -1, 3, '0', '1', '2', '0x1', '0b1', '-1', 'aq', '', None, True, False, 1.0, b'1', [1]]


###############################################################################
# comparison
###############################################################################

def outcome(func, args, kwargs=None):
    try:
        value = func(*args, **(kwargs or {}))
    except Exception as e:  # noqa: the exception type is the observable
        return ('refused', type(e).__name__)
    return ('word', type(value).__name__, value)


def operand_names(func):
    sig = inspect.signature(func)
    return [p.name for p in sig.parameters.values() if p.kind == p.POSITIONAL_OR_KEYWORD]


def keyword_names(func):
    sig = inspect.signature(func)
    return sorted(p.name for p in sig.parameters.values() if p.kind == p.KEYWORD_ONLY)


def is_reg(name):
    return name in ('rd', 'rs1', 'rs2', 'rd_rs1')


def operand_tuples(names):
    """All operand tuples to try for a binding whose free operands are `names`."""
    regs = [n for n in names if is_reg(n)]
    has_imm = 'imm' in names
    n = len(regs)

    if names == ['succ', 'pred']:
        yield from itertools.product(FENCE_VALUES, FENCE_VALUES)
        return

    assert names == regs + (['imm'] if has_imm else []), names

    if not has_imm:
        if n == 0:
            yield ()
        elif n <= 2:
            yield from itertools.product(REGS_FULL, repeat=n)
        else:
            yield from itertools.product(REGS_MEDIUM, repeat=n)
        return

    if n == 0:
        for imm in IMM_DENSE:
            yield (imm,)
        for imm in IMM_ODD:
            yield (imm,)
    elif n == 1:
        # every register against the whole dense set
        for reg in REGS_FULL:
            for imm in IMM_DENSE:
                yield (reg, imm)
            for imm in IMM_ODD:
                yield (reg, imm)
    elif n == 2:
        # every register pair against the key boundaries
        for pair in itertools.product(REGS_FULL, repeat=2):
            for imm in IMM_KEY:
                yield pair + (imm,)
        # every register in either slot against all boundaries
        for reg in REGS_FULL:
            for other in (8, 0, 32):
                for imm in IMM_BOUNDARY:
                    yield (reg, other, imm)
                    yield (other, reg, imm)
        # a handful of pairs against the dense set and the non-int immediates
        for pair in REG_TUPLES_2:
            for imm in IMM_DENSE:
                yield pair + (imm,)
        for pair in itertools.product(REGS_PROBE, repeat=2):
            for imm in IMM_ODD:
                yield pair + (imm,)
    else:
        raise AssertionError(names)


class Tally:
    def __init__(self):
        self.calls = 0
        self.words = 0
        self.refusals = 0
        self.mismatches = []

    def compare(self, label, old_func, new_func, args, kwargs=None):
        a = outcome(old_func, args, kwargs)
        b = outcome(new_func, args, kwargs)
        self.calls += 1
        if a[0] == 'word':
            self.words += 1
        else:
            self.refusals += 1
        if a != b and len(self.mismatches) < 20:
            self.mismatches.append((label, args, kwargs, a, b))
        elif a != b:
            self.mismatches.append(None)


def check_binding(job):
    name, rev, new_path = job
    old, new = load_pair(rev, new_path)
    t = Tally()
    f_old = old.INSTRUCTIONS[name]
    f_new = new.INSTRUCTIONS[name]

    # shape of the binding
    names = operand_names(f_old)
    if names != operand_names(f_new) or keyword_names(f_old) != keyword_names(f_new):
        t.mismatches.append((name, 'signature', None, str(inspect.signature(f_old)), str(inspect.signature(f_new))))
        return name, t.calls, t.words, t.refusals, t.mismatches
    kw_old = {k: v for k, v in f_old.keywords.items() if k != 'cs'}
    kw_new = {k: v for k, v in f_new.keywords.items() if k != 'cs'}
    if kw_old != kw_new or len(f_old.keywords.get('cs') or []) != len(f_new.keywords.get('cs') or []) \
            or f_old.func.__name__ != f_new.func.__name__:
        t.mismatches.append((name, 'binding', None, repr(f_old), repr(f_new)))

    for args in operand_tuples(names):
        t.compare(name, f_old, f_new, args)

    # operands by keyword
    small_regs = [0, 2, 8, 15, 31, 32, 'a0', 'foo']
    small_imms = [0, 1, 2, 4, 16, 32, -32, -33, 31, 2047, 2048, -2048, 0xfffe0, 0xfffff, 0x80000]
    pools = []
    for n in names:
        if is_reg(n):
            pools.append(small_regs)
        elif n == 'imm':
            pools.append(small_imms)
        else:
            pools.append([0, 3, 15, 16, '0xf'])
    for values in itertools.product(*pools):
        t.compare(name + ' (kw)', f_old, f_new, (), dict(zip(names, values)))

    # wrong arity
    t.compare(name + ' (arity)', f_old, f_new, (0,) * (len(names) + 1))
    if names:
        t.compare(name + ' (arity)', f_old, f_new, (0,) * (len(names) - 1))

    # atomics: aq / rl
    if 'aq' in keyword_names(f_old):
        regs = [(0,) * len(names), tuple(range(8, 8 + len(names))), (31,) * len(names), (32,) * len(names),
                ('foo',) * len(names)]
        for args in regs:
            for aq, rl in itertools.product(AQRL_VALUES, repeat=2):
                t.compare(name + ' (aq/rl)', f_old, f_new, args, {'aq': aq, 'rl': rl})
            for v in AQRL_VALUES:
                t.compare(name + ' (aq)', f_old, f_new, args, {'aq': v})
                t.compare(name + ' (rl)', f_old, f_new, args, {'rl': v})
        for args in itertools.product(REG_INTS, repeat=len(names)):
            for aq, rl in ((0, 0), (0, 1), (1, 0), (1, 1)):
                t.compare(name + ' (aq/rl)', f_old, f_new, args, {'aq': aq, 'rl': rl})

    return name, t.calls, t.words, t.refusals, t.mismatches


def check_helpers(rev, new_path):
    """Functions that are reachable on their own: lookup_register, the constraint factories, the raw encoders."""
    old, new = load_pair(rev, new_path)
    t = Tally()

    for reg in REGS_FULL:
        t.compare('lookup_register', old.lookup_register, new.lookup_register, (reg,))
        for flag in (False, True, 0, 1, None, 'yes'):
            t.compare('lookup_register', old.lookup_register, new.lookup_register, (reg, flag))
            t.compare('lookup_register', old.lookup_register, new.lookup_register, (reg,), {'compressed': flag})

    values = list(range(-70, 71)) + [1 << 31, -(1 << 31), 2.0, 0.0, None, 'x', True]
    for field in ('imm', 'rd', 'rd_rs1'):
        for ref in (0, 1, 2, 32, -1, None):
            c_old, c_new = old.constraint_not(field, ref), new.constraint_not(field, ref)
            for v in values:
                t.compare('constraint_not', c_old, c_new, (), {field: v, 'other': 5})
            t.compare('constraint_not', c_old, c_new, (), {'other': 5})
            t.compare('constraint_not', c_old, c_new, (5,), {field: 5})
        for bit in (0, 1, 2, 5, 6, 31, -1):
            for ref in (0, 1, 2, 32, 64, None):
                made_old = outcome(old.constraint_bit, (field, bit, ref))
                made_new = outcome(new.constraint_bit, (field, bit, ref))
                t.calls += 1
                if made_old[:2] != made_new[:2]:
                    t.mismatches.append(('constraint_bit (factory)', (field, bit, ref), None, made_old[:2], made_new[:2]))
                    continue
                if made_old[0] != 'word':
                    continue
                c_old, c_new = made_old[2], made_new[2]
                for v in values:
                    t.compare('constraint_bit', c_old, c_new, (), {field: v, 'other': 5})

    for cname in ('RegRdNotZero', 'RegRs1NotZero', 'RegRs2NotZero', 'RegRdRs1NotZero', 'RegRdRs1NotTwo',
                  'ImmNotZero', 'ShamtBit5Zero'):
        c_old, c_new = getattr(old, cname), getattr(new, cname)
        for v in values:
            fields = dict(rd=v, rs1=v, rs2=v, rd_rs1=v, imm=v)
            t.compare(cname, c_old, c_new, (), fields)

    # raw encoders with field values no binding uses, and the ways of saying "no constraints"
    def boom(**fields):
        raise ValueError('custom constraint')

    def seen(**fields):
        seen.log.append(sorted(fields.items()))
    encoders = ['r_type', 'i_type', 'ij_type', 's_type', 'b_type', 'u_type', 'j_type', 'fence', 'a_type',
                'cr_type', 'ci_type', 'cia_type', 'ciu_type', 'cil_type', 'css_type', 'ciw_type', 'cl_type',
                'cs_type', 'ca_type', 'cb_type', 'cbi_type', 'cj_type']
    field_values = [0, 1, 0b101, 0b1111111, 9, 1 << 20]
    reg_values = [0, 1, 2, 8, 9, 15, 31, 32, 'foo']
    imm_values = sorted(set(list(range(-40, 41)) + [64, 100, 124, 128, 252, 256, 1020, 1024, -256, -258, 254,
                                                    2046, 2048, -2048, -2050, 4094, 4096, -4096, 0xfffe0, 0xfffff,
                                                    0x80000, 0x7ffff, -0x80000, 0x100000, -512, 496, 512]))
    for ename in encoders:
        e_old, e_new = getattr(old, ename), getattr(new, ename)
        sig_old, sig_new = inspect.signature(e_old), inspect.signature(e_new)
        if str(sig_old) != str(sig_new):
            t.mismatches.append((ename, 'signature', None, str(sig_old), str(sig_new)))
            continue
        operands = [p.name for p in sig_old.parameters.values() if p.kind == p.POSITIONAL_OR_KEYWORD]
        fields = [p.name for p in sig_old.parameters.values()
                  if p.kind == p.KEYWORD_ONLY and p.name not in ('cs', 'aq', 'rl')]
        pools = [imm_values if o == 'imm' else ([0, 5, 15, 16] if o in ('succ', 'pred') else reg_values)
                 for o in operands]
        has_cs = 'cs' in sig_old.parameters
        for fv in field_values:
            kwargs = {f: fv for f in fields}
            cs_options = [None, [], (), [boom], [seen], [seen, boom]] if has_cs else [Ellipsis]
            for cs in cs_options:
                kw = dict(kwargs)
                if cs is not Ellipsis:
                    kw['cs'] = cs
                for args in itertools.product(*pools):
                    seen.log = []
                    a = outcome(e_old, args, kw)
                    log_a = seen.log
                    seen.log = []
                    b = outcome(e_new, args, kw)
                    log_b = seen.log
                    t.calls += 1
                    if a[0] == 'word':
                        t.words += 1
                    else:
                        t.refusals += 1
                    # constraints must be handed the same fields with the same values
                    if (a, log_a) != (b, log_b):
                        t.mismatches.append((ename, args, kw, (a, log_a), (b, log_b)) if len(t.mismatches) < 20 else None)

    return 'helpers', t.calls, t.words, t.refusals, t.mismatches


def run(job):
    if job[0] == '<helpers>':
        return check_helpers(job[1], job[2])
    return check_binding(job)


def main():
    ap = argparse.ArgumentParser()
    ap.add_argument('--new', default=os.path.join(HERE, 'bronzebeard', 'asm.py'), help='refactored asm.py')
    ap.add_argument('--rev', default='HEAD', help='git revision holding the original')
    ap.add_argument('--jobs', type=int, default=os.cpu_count() or 1)
    args = ap.parse_args()

    start = time.time()
    old, new = load_pair(args.rev, args.new)
    ok = True
    if list(old.INSTRUCTIONS) != list(new.INSTRUCTIONS):
        print('INSTRUCTIONS keys differ:', sorted(set(old.INSTRUCTIONS) ^ set(new.INSTRUCTIONS)))
        ok = False
    # upper-case public bindings must be the very objects stored in the table, as before
    for key, func in old.INSTRUCTIONS.items():
        public = [k for k, v in vars(old).items() if v is func]
        for p in public:
            if getattr(new, p, None) is not new.INSTRUCTIONS.get(key):
                print('binding {} is not INSTRUCTIONS[{!r}] any more'.format(p, key))
                ok = False

    jobs = [('<helpers>', args.rev, args.new)] + [(name, args.rev, args.new) for name in old.INSTRUCTIONS]
    total_calls = total_words = total_refusals = 0
    with multiprocessing.Pool(args.jobs) as pool:
        for name, calls, words, refusals, mismatches in pool.imap_unordered(run, jobs):
            total_calls += calls
            total_words += words
            total_refusals += refusals
            status = 'ok' if not mismatches else 'MISMATCH x{}'.format(len(mismatches))
            print('{:12s} {:>9d} calls {:>9d} words {:>9d} refusals  {}'.format(name, calls, words, refusals, status))
            for m in mismatches[:5]:
                if m is not None:
                    label, a, kw, r_old, r_new = m
                    print('    {} args={!r} kwargs={!r}\n        original:   {}\n        refactored: {}'.format(
                        label, a, kw, r_old, r_new))
            if mismatches:
                ok = False
            sys.stdout.flush()

    print('{} mnemonics, {} compared calls ({} words, {} refusals) in {:.0f}s'.format(
        len(old.INSTRUCTIONS), total_calls, total_words, total_refusals, time.time() - start))
    print('EQUIVALENT' if ok else 'NOT EQUIVALENT')
    return 0 if ok else 1


if __name__ == '__main__':
    sys.exit(main())
