#!/venv/bin/python
"""Differential harness for edits of bronzebeard/dfu.py (developer tool, not a registered check; the checks themselves never execute
repository code).  pyusb is not installed and dfu.py has no tests, so "behaviour-preserving" is established here: both files are
loaded with stub `usb.core` / `usb.backend.libusb1` modules and cli_main() is run against a scripted fake device; every
ctrl_transfer (all arguments), every non-zero sleep, find / get_backend call, stdout, stderr and the exit status are recorded and
compared over 182 scenarios: firmware sizes 0 .. 128 KiB + 1 incl. oversize for each of the four GD32 serial letters and an unknown
one, scripted GETSTATUS schedules (busy polls, poll delays, error state at start, erase / write / verify / address errors at chosen
steps, double injections, short replies), 60 random schedules, non-GD32 ids, device not found, malformed ids, win32 backend, missing
file, missing argument.  A zero-second sleep is not counted as a wait; SystemExit(str) is status 1 plus the text on stderr.

  tools/dfu_diff.py ORIGINAL.py EDITED.py        (e.g. `git -C /repo show HEAD:bronzebeard/dfu.py > /tmp/x/orig.py`; scratch copies only)
"""
import sys, types, io, os, importlib.util, contextlib, tempfile, itertools, random, traceback

def load(path, tag):
    spec = importlib.util.spec_from_file_location('dfu_' + tag, path)
    mod = importlib.util.module_from_spec(spec)
    spec.loader.exec_module(mod)
    return mod

class FakeDev:
    def __init__(self, trace, serial, script):
        self.trace = trace
        self._serial = serial
        self.script = list(script)   # GETSTATUS replies (bytes) consumed in order; afterwards default idle OK
        self.last = None
    @property
    def serial_number(self):
        self.trace.append(('serial',))
        if self._serial is None:
            raise AttributeError('no serial')
        return self._serial
    def ctrl_transfer(self, bmRequestType, bRequest, wValue=0, wIndex=0, data_or_wLength=None, timeout=None):
        d = data_or_wLength
        if isinstance(d, (bytes, bytearray, memoryview)):
            d = bytes(d)
        self.trace.append(('ctrl', bmRequestType, bRequest, wValue, wIndex, d, timeout))
        if bRequest == 3:
            if self.script:
                rep = self.script.pop(0)
            else:
                # default: after a data download -> dnload idle (5), else dfu idle(2)/dnload-idle
                rep = bytes([0, 0, 0, 0, 5, 0])
            if rep == 'short':
                return bytes(5)
            import array
            return array.array('B', rep)
        if bRequest == 4:
            return 0
        if bRequest == 1:
            if isinstance(d, bytes):
                return len(d)
            return 0
        return 0

def enc_serial(s):
    # inverse of sn.encode('utf-16-le').decode('utf-8')
    return s.encode('utf-8').decode('utf-16-le')

def run(mod, argv, serial, script, fw, find_none=False, platform='linux'):
    trace = []
    usb = types.ModuleType('usb'); core = types.ModuleType('usb.core'); backend = types.ModuleType('usb.backend'); l1 = types.ModuleType('usb.backend.libusb1')
    dev = FakeDev(trace, serial, script)
    def find(**kw):
        trace.append(('find', sorted((k, v if not callable(v) else 'fn') for k, v in kw.items() if k != 'backend'), kw.get('backend')))
        return None if find_none else dev
    def get_backend(**kw):
        r = None
        if 'find_library' in kw:
            r = kw['find_library']('usb-1.0')
        trace.append(('get_backend', sorted(kw), r))
        return 'BACKEND'
    core.find = find; l1.get_backend = get_backend
    mod.usb.core.find = find
    mod.usb.backend.libusb1.get_backend = get_backend
    sleeps = trace
    import time
    real_sleep = time.sleep
    mod.time.sleep = lambda s: trace.append(('sleep', s))
    old_argv = sys.argv
    old_plat = sys.platform
    sys.platform = platform
    out = io.StringIO()
    res = None
    with tempfile.NamedTemporaryFile(delete=False) as f:
        f.write(fw)
        name = f.name
    try:
        sys.argv = ['bronzebeard-dfu'] + [a if a != '@FW' else name for a in argv]
        err = io.StringIO()
        with contextlib.redirect_stdout(out), contextlib.redirect_stderr(err):
            try:
                mod.cli_main()
                res = ('ok',)
            except SystemExit as e:
                # SystemExit(str) prints the string to stderr and exits with status 1
                if isinstance(e.code, str):
                    res = ('exit', 1, (err.getvalue() + e.code + '\n').replace(name, '@FW'))
                else:
                    res = ('exit', 0 if e.code is None else e.code, err.getvalue().replace(name, '@FW'))
            except BaseException as e:
                res = ('exc', type(e).__name__, str(e)[:80])
    finally:
        sys.argv = old_argv
        sys.platform = old_plat
        mod.time.sleep = real_sleep
        os.unlink(name)
    here = os.path.dirname(os.path.abspath(mod.__file__))
    # a zero-second sleep is not an observable wait; the module's own directory differs between the two copies
    trace = [tuple(x.replace(here, '@HERE') if isinstance(x, str) else x for x in t) for t in trace if t != ('sleep', 0.0) and t != ('sleep', 0)]
    return trace, out.getvalue().replace(name, '@FW'), res

def st(status=0, pt=0, state=5, istr=0):
    return bytes([status, pt & 0xff, (pt >> 8) & 0xff, (pt >> 16) & 0xff, state, istr])

def scenarios():
    rnd = random.Random(1234)
    S = []
    sizes = [0, 1, 1023, 1024, 1025, 2048, 3000, 16 * 1024, 16 * 1024 + 1, 32 * 1024, 32 * 1024 + 1, 64 * 1024 + 5, 128 * 1024, 128 * 1024 + 1]
    letters = ['B', '8', '6', '4', 'X']
    for L in letters:
        for n in sizes:
            fw = bytes(rnd.randrange(1, 256) for _ in range(min(n, 4000))) + bytes([7]) * max(0, n - 4000)
            S.append(dict(argv=['28e9:0189', '@FW'], serial=enc_serial('GD' + L + 'JXXXX'), script=[], fw=fw))
    # scripted schedules on small firmware
    fw = bytes(range(1, 256)) * 10   # 2550 bytes -> 3 pages
    busy = st(0, 5, 4); ok5 = st(0, 0, 5); ok2 = st(0, 0, 2); err10 = st(10 % 16, 0, 10)
    scripts = [
        [st(0, 0x030201, 2)],
        [st(8, 7, 10), st(0, 0, 2)],                         # starts in error -> clear
        [st(8, 7, 10), st(3, 9, 10)],                        # still error after clear
        [ok2, busy, busy, ok5],                              # busy erase
        [ok2, st(4, 1, 5)],                                  # erase error at first page
        [ok2, busy, st(4, 1, 10)],                           # erase error after busy
        [ok2, ok5, ok5, st(4, 0, 2)],                        # erase error at third page
        [ok2, ok5, ok5, ok5, busy, busy, ok5, st(0, 3, 3), st(0, 70000, 4), ok5],     # write with sync/busy
        [ok2, ok5, ok5, ok5, ok5, st(3, 0, 10)],             # write error at first page
        [ok2, ok5, ok5, ok5, ok5, st(0, 0, 3), st(6, 2, 10)],
        [ok2, ok5, ok5, ok5, st(8, 0, 5), ok5],              # error status on set-address (overwritten)
        [ok2, ok5, ok5, ok5, st(8, 0, 10), ok5],             # set-address: state error status err, then data ok
        [ok2, ok5, ok5, ok5, ok5, ok5, ok5, ok5, ok5, st(7, 0, 5)],   # verify error at last page
        [ok2, ok5, ok5, ok5, ok5, ok5, ok5, st(7, 0, 5), ok5, st(7, 0, 5)],   # double injection
        [ok2, st(4, 0, 5), ok5, ok5, ok5, st(3, 0, 5)],
        ['short'],
        [ok2, 'short'],
        [st(0, 0xffffff, 2)],
        [st(0, 0, 0)], [st(1, 0, 4), ok2], [st(0, 0, 4)],
    ]
    for L in ('B', '4'):
        for sc in scripts:
            S.append(dict(argv=['28e9:0189', '@FW'], serial=enc_serial('GD' + L + 'JXXXX'), script=sc, fw=fw))
    # random schedules
    for k in range(60):
        sc = [ok2]
        for _ in range(rnd.randrange(0, 25)):
            sc.append(st(rnd.choice([0, 0, 0, 0, 0, 0, 0, 3, 4, 8]), rnd.choice([0, 1, 300, 70000]), rnd.choice([2, 3, 4, 4, 5, 5, 5, 5, 10])))
        n = rnd.choice([0, 1, 1024, 1500, 2048, 4097])
        S.append(dict(argv=['28e9:0189', '@FW'], serial=enc_serial('GD' + rnd.choice('B864') + 'JXXXX'), script=sc, fw=bytes(rnd.randrange(256) for _ in range(n))))
    # non GD32, not found, bad id, short serial, windows
    S.append(dict(argv=['0483:df11', '@FW'], serial='x', script=[], fw=b'abc'))
    S.append(dict(argv=['28e9:018a', '@FW'], serial='x', script=[], fw=b'abc'))
    S.append(dict(argv=['28ea:0189', '@FW'], serial='x', script=[], fw=b'abc'))
    S.append(dict(argv=['28e9:0189', '@FW'], serial=enc_serial('GDBJXXXX'), script=[], fw=b'abc', find_none=True))
    S.append(dict(argv=['zzzz:0189', '@FW'], serial='x', script=[], fw=b'abc'))
    S.append(dict(argv=['28e90189', '@FW'], serial='x', script=[], fw=b'abc'))
    S.append(dict(argv=['28e9:0189', '@FW'], serial=enc_serial('GD'), script=[], fw=b'abc'))
    S.append(dict(argv=['28e9:0189', '@FW'], serial=enc_serial('GDBJXXXX'), script=[], fw=b'abc' * 500, platform='win32'))
    S.append(dict(argv=['28e9:0189', '/nonexistent/fw.bin'], serial=enc_serial('GDBJXXXX'), script=[], fw=b''))
    S.append(dict(argv=['28e9:0189'], serial=enc_serial('GDBJXXXX'), script=[], fw=b''))
    return S

def main():
    # stub usb before loading
    usb = types.ModuleType('usb'); core = types.ModuleType('usb.core'); backend = types.ModuleType('usb.backend'); l1 = types.ModuleType('usb.backend.libusb1')
    usb.core = core; usb.backend = backend; backend.libusb1 = l1
    sys.modules.update({'usb': usb, 'usb.core': core, 'usb.backend': backend, 'usb.backend.libusb1': l1})
    a = load(sys.argv[1], 'a'); b = load(sys.argv[2], 'b')
    bad = 0
    sc = scenarios()
    for i, s in enumerate(sc):
        ra = run(a, **s); rb = run(b, **s)
        if ra != rb:
            bad += 1
            if bad <= 3:
                print('DIFF in scenario', i, {k: (v if k != 'fw' else len(v)) for k, v in s.items()})
                for x, y in zip(ra[0], rb[0]):
                    if x != y:
                        print('  trace a:', str(x)[:200]); print('  trace b:', str(y)[:200]); break
                else:
                    print('  len', len(ra[0]), len(rb[0]), ra[2], rb[2])
                    if ra[1] != rb[1]:
                        print('  stdout differs:', repr(ra[1][-200:]), repr(rb[1][-200:]))
    print('{}: {} scenarios, {} differ'.format(os.path.basename(sys.argv[2]), len(sc), bad))
    return 1 if bad else 0

if __name__ == '__main__':
    sys.exit(main())
