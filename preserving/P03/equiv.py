#!/usr/bin/env python
"""
Differential check: the refactored front end of bronzebeard/asm.py against the
module as of HEAD (read_lines / lex_tokens / parse_immediate / parse_item and,
through them, assemble() and the CLI).

  python equiv.py              # exits 0 when every comparison matches
  python equiv.py --new FILE   # compare another candidate module against HEAD

Sections
  (a) every documented syntax form (both base+offset spellings, commas vs
      spaces, comments, indentation, upper case, every register spelling)
  (b) a few thousand random programs (fixed seed), some of them mutated
  (c) malformed lines: brute force over token sequences for every mnemonic and
      directive, brute force over parse_immediate, lexer over every code point
  (d) include trees under tempfile.mkdtemp(): nested includes, include_bytes,
      -i dirs, different working directories, the CLI, the shipped examples

An outcome is either the (structurally dumped) result, or the exception.  An
AssemblerError must agree on its message, its line (file, number, contents)
and its str().  Any other exception (the front end lets IndexError / ValueError
escape on some malformed lines) must agree on its type; differing text of such
an escaped exception is only counted and reported as a note.
"""

import importlib.util
import itertools
import logging
import os
import random
import shutil
import subprocess
import sys
import tempfile
import warnings

# some malformed operands ("4 ( x2 )") make eval() warn while compiling, in both modules alike
warnings.filterwarnings('ignore', category=SyntaxWarning)

HERE = os.path.dirname(os.path.abspath(__file__))
SEED = 20260927

SCRATCH = tempfile.mkdtemp(prefix='bb-equiv-')


def load(name, path):
    spec = importlib.util.spec_from_file_location(name, path)
    mod = importlib.util.module_from_spec(spec)
    sys.modules[name] = mod
    spec.loader.exec_module(mod)
    return mod


def load_modules():
    orig_src = subprocess.check_output(['git', 'show', 'HEAD:bronzebeard/asm.py'], cwd=HERE)
    orig_path = os.path.join(SCRATCH, 'asm_orig.py')
    with open(orig_path, 'wb') as f:
        f.write(orig_src)
    new_path = os.path.join(HERE, 'bronzebeard', 'asm.py')
    if len(sys.argv) == 3 and sys.argv[1] == '--new':
        new_path = os.path.abspath(sys.argv[2])
    with open(new_path, 'rb') as f:
        if f.read() == orig_src:
            print('WARNING: working tree asm.py is identical to HEAD (nothing refactored?)')
    return load('asm_orig', orig_path), load('asm_new', new_path)


OLD, NEW = load_modules()
MODULE_NAMES = {'asm_orig', 'asm_new'}


# ----------------------------------------------------------------------------
# comparison machinery
# ----------------------------------------------------------------------------

class Capture(logging.Handler):
    def __init__(self):
        super().__init__(level=logging.INFO)
        self.messages = []

    def emit(self, record):
        self.messages.append(record.getMessage())


CAPTURES = {}
for _mod in (OLD, NEW):
    _cap = Capture()
    _mod.log.addHandler(_cap)
    _mod.log.setLevel(logging.INFO)
    _mod.log.propagate = False
    CAPTURES[_mod] = _cap


def dump(obj):
    """Structural, module independent, picture of a value."""
    if obj is None or isinstance(obj, (bool, int, float, str, bytes)):
        return obj
    if isinstance(obj, (list, tuple)):
        return [type(obj).__name__] + [dump(x) for x in obj]
    if isinstance(obj, dict):
        return {k: dump(v) for k, v in obj.items()}
    if type(obj).__module__ in MODULE_NAMES:
        return (type(obj).__name__, {k: dump(v) for k, v in vars(obj).items()}, str(obj), repr(obj))
    return ('?', repr(obj))


class Stats:
    def __init__(self):
        self.checked = 0
        self.mismatches = []
        self.text_notes = []
        self.kinds = {}
        self.sections = {}

    def count(self, section, kind):
        self.checked += 1
        self.sections[section] = self.sections.get(section, 0) + 1
        self.kinds[kind] = self.kinds.get(kind, 0) + 1


STATS = Stats()


def outcome(mod, fn):
    CAPTURES[mod].messages.clear()
    try:
        value = fn(mod)
        res = ('ok', dump(value))
    except mod.AssemblerError as e:
        res = ('AssemblerError', e.message, dump(e.line), str(e))
    except RecursionError:
        res = ('exc', 'RecursionError', '')
    except Exception as e:
        res = ('exc', type(e).__name__, str(e))
    return res, list(CAPTURES[mod].messages)


def check(section, what, fn):
    """Run fn(module) against both modules and compare."""
    a, log_a = outcome(OLD, fn)
    b, log_b = outcome(NEW, fn)
    kind = a[0] if a[0] != 'exc' else 'exc:' + a[1]
    STATS.count(section, kind)
    same = a == b
    if not same and a[0] == 'exc' and b[0] == 'exc' and a[1] == b[1]:
        # an escaped (non assembler) exception of the same type: text is informational
        STATS.text_notes.append((section, what, a[2], b[2]))
        same = True
    if same and log_a != log_b:
        same = False
        a, b = ('log', log_a), ('log', log_b)
    if not same:
        STATS.mismatches.append((section, what, a, b))
        if len(STATS.mismatches) <= 25:
            print('MISMATCH [{}] {!r}\n   old: {!r}\n   new: {!r}'.format(section, what, a, b))
    return a


# ---- the things being compared

def do_lex(text):
    return lambda mod: mod.lex_tokens(text)


def do_parse_tokens(tokens, contents='<tokens>'):
    def fn(mod):
        line = mod.Line('<mem>', 7, contents)
        return mod.parse_item(mod.LineTokens(line, list(tokens)))
    return fn


def do_lex_parse(text):
    def fn(mod):
        lt = mod.lex_tokens(mod.Line('<mem>', 3, text))
        if len(lt) == 0:
            return ('no tokens', lt)
        return mod.parse_item(lt)
    return fn


def do_parse_immediate(tokens):
    def fn(mod):
        return mod.parse_immediate(list(tokens), mod.Line('<mem>', 9, ' '.join(tokens)))
    return fn


def do_read_lines(path_or_source, **kwargs):
    return lambda mod: mod.read_lines(path_or_source, **kwargs)


def do_assemble(path_or_source, compress=False, include_dirs=None, constants=None, labels=None):
    def fn(mod):
        consts = dict(constants) if constants is not None else {}
        labs = dict(labels) if labels is not None else {}
        kwargs = {}
        if include_dirs is not None:
            kwargs['include_dirs'] = include_dirs
        binary = mod.assemble(path_or_source, constants=consts, labels=labs, compress=compress, **kwargs)
        return {'binary': binary, 'labels': labs, 'constants': consts,
                'label_order': list(labs), 'constant_order': list(consts)}
    return fn


def check_source(section, source, **kwargs):
    """Full pipeline on a source string, plain and compressed."""
    check(section, ('read_lines', source), do_read_lines(source))
    r = check(section, ('assemble', source), do_assemble(source, **kwargs))
    check(section, ('assemble -c', source), do_assemble(source, compress=True, **kwargs))
    return r


# ----------------------------------------------------------------------------
# vocabulary
# ----------------------------------------------------------------------------

REG_SPELLINGS = sorted(k for k in OLD.REGISTERS if isinstance(k, str))
CREG_SPELLINGS = sorted(k for k in REG_SPELLINGS if 8 <= OLD.REGISTERS[k] <= 15)

TABLES = [
    'R_TYPE_INSTRUCTIONS', 'I_TYPE_INSTRUCTIONS', 'IE_TYPE_INSTRUCTIONS', 'S_TYPE_INSTRUCTIONS',
    'B_TYPE_INSTRUCTIONS', 'U_TYPE_INSTRUCTIONS', 'J_TYPE_INSTRUCTIONS', 'FENCE_INSTRUCTIONS',
    'A_TYPE_INSTRUCTIONS', 'AL_TYPE_INSTRUCTIONS', 'CR_TYPE_INSTRUCTIONS', 'CRJ_TYPE_INSTRUCTIONS',
    'CRE_TYPE_INSTRUCTIONS', 'CI_TYPE_INSTRUCTIONS', 'CIA_TYPE_INSTRUCTIONS', 'CIN_TYPE_INSTRUCTIONS',
    'CSS_TYPE_INSTRUCTIONS', 'CIW_TYPE_INSTRUCTIONS', 'CL_TYPE_INSTRUCTIONS', 'CS_TYPE_INSTRUCTIONS',
    'CA_TYPE_INSTRUCTIONS', 'CB_TYPE_INSTRUCTIONS', 'CJ_TYPE_INSTRUCTIONS',
]

DIRECTIVES = ['error', 'include_bytes', 'include', 'string', 'pack', 'align',
              'bytes', 'shorts', 'ints', 'longs', 'longlongs', 'db', 'dh', 'dw', 'dd']

ALL_MNEMONICS = sorted(set(OLD.INSTRUCTIONS) | set(OLD.PSEUDO_INSTRUCTIONS))
ALL_HEADS = ALL_MNEMONICS + DIRECTIVES + ['bogus', 'x1', '4', '%hi', '(', ')', '=', ':', 'lbl:']


def table_invariants():
    """Facts about the (unchanged) tables that the refactor leans on."""
    ok = True
    for mod in (OLD, NEW):
        for t in ('S_TYPE_INSTRUCTIONS', 'CL_TYPE_INSTRUCTIONS', 'CS_TYPE_INSTRUCTIONS'):
            ok &= set(getattr(mod, t)) <= mod.BASE_OFFSET_INSTRUCTIONS
    for t in TABLES + ['INSTRUCTIONS']:
        ok &= list(getattr(OLD, t)) == list(getattr(NEW, t))
    for t in ('PSEUDO_INSTRUCTIONS', 'BASE_OFFSET_INSTRUCTIONS', 'NUMERIC_SEQUENCE_NAMES',
              'SHORTHAND_PACK_NAMES', 'KEYWORDS'):
        ok &= getattr(OLD, t) == getattr(NEW, t)
    ok &= OLD.REGISTERS == NEW.REGISTERS
    STATS.count('invariants', 'ok')
    if not ok:
        STATS.mismatches.append(('invariants', 'tables', None, None))
        print('MISMATCH: table invariants')


# ---- documented operand shapes for every mnemonic
#
# Each entry is a list of "operand lists"; an operand is a string, and the
# special operand ('mem', imm, reg) renders as "imm(reg)".

def shapes_for(name, reg='x9', reg2='x10', reg3='x11'):
    o = OLD
    r, r2, r3 = reg, reg2, reg3
    if name in ('slli', 'srli', 'srai'):
        return [[r, r2, '3'], [r, r2, '0x1f']]
    if name in o.R_TYPE_INSTRUCTIONS:
        return [[r, r2, r3]]
    if name == 'jalr':
        return [[r, r2, '8'], [r, ('mem', '8', r2)], [r, ('mem', '-4', r2)], [r], [r, r2, '%lo(target)'],
                [r, ('mem', '%lo(target)', r2)], [r, r2, 'FOUR']]
    if name in ('lb', 'lh', 'lw', 'lbu', 'lhu'):
        return [[r, r2, '8'], [r, ('mem', '8', r2)], [r, ('mem', '0', r2)], [r, ('mem', '-2048', r2)],
                [r, ('mem', 'FOUR', r2)], [r, r2, 'FOUR + 4'], [r, ('mem', '%lo(target)', r2)],
                [r, r2, '%lo(target)'], [r, r2, '%lo target'], [r, r2, '(FOUR + 4) * 2']]
    if name.startswith('csrr') and name.endswith('i'):
        return [[r, '5', '0x300'], [r, '31', 'FOUR']]
    if name.startswith('csrr'):
        return [[r, r2, '0x300'], [r, r2, '0x7ff']]
    if name in o.I_TYPE_INSTRUCTIONS:
        return [[r, r2, '12'], [r, r2, '-12'], [r, r2, '0x7ff'], [r, r2, 'FOUR'], [r, r2, 'FOUR * 2 + 1'],
                [r, r2, '%lo(target)'], [r, r2, '%lo(FOUR)'], [r, r2, '%lo FOUR'], [r, r2, '(1 + 2) * 3'],
                [r, r2, '%position(target, 0)'], [r, r2, '%position target 4'], [r, r2, '%offset(target)'],
                [r, r2, '%offset target'], [r, r2, "'a'"]]
    if name in o.IE_TYPE_INSTRUCTIONS:
        return [[]]
    if name in o.S_TYPE_INSTRUCTIONS:
        return [[r, r2, '8'], [r2, ('mem', '8', r)], [r2, ('mem', '-8', r)], [r2, ('mem', 'FOUR', r)],
                [r, r2, 'FOUR + 4'], [r2, ('mem', '%lo(target)', r)], [r, r2, '%lo(target)']]
    if name in o.B_TYPE_INSTRUCTIONS:
        return [[r, r2, 'target'], [r, r2, 'back'], [r, r2, '8'], [r, r2, '-8'], [r, r2, '0x10']]
    if name in o.U_TYPE_INSTRUCTIONS:
        return [[r, '1'], [r, '0xfffff'], [r, '%hi(target)'], [r, '%hi(FOUR)'], [r, '%hi target'],
                [r, 'FOUR'], [r, 'FOUR << 2'], [r, '%hi(%position(target, 0))']]
    if name in o.J_TYPE_INSTRUCTIONS:
        return [[r, 'target'], [r, 'back'], [r, '8'], ['target'], ['back'], [r, '-8']]
    if name in o.FENCE_INSTRUCTIONS:
        return [[], ['0b1111', '0b1111'], ['3', '12'], ['0', '0']]
    if name in o.A_TYPE_INSTRUCTIONS:
        return [[r, r2, r3], [r, r2, r3, '1', '1'], [r, r2, r3, '0', '1'], [r, r2, r3, '1', '0']]
    if name in o.AL_TYPE_INSTRUCTIONS:
        return [[r, r2], [r, r2, '1', '1'], [r, r2, '0', '0']]
    if name in o.CR_TYPE_INSTRUCTIONS:
        return [[r, r2]]
    if name in o.CRJ_TYPE_INSTRUCTIONS:
        return [[r]]
    if name in o.CRE_TYPE_INSTRUCTIONS or name in o.CIN_TYPE_INSTRUCTIONS:
        return [[]]
    if name == 'c.lui':
        return [[r, '3'], [r, '%hi(0x3000)']]
    if name == 'c.lwsp':
        return [[r, '8'], [r, 'FOUR']]
    if name in o.CI_TYPE_INSTRUCTIONS:
        return [[r, '3'], [r, 'FOUR'], [r, 'FOUR + 1']]
    if name in o.CIA_TYPE_INSTRUCTIONS:
        return [['16'], ['-32'], ['FOUR * 4']]
    if name in o.CSS_TYPE_INSTRUCTIONS:
        return [[r, '8'], [r, 'FOUR']]
    if name in o.CIW_TYPE_INSTRUCTIONS:
        return [[r, '8'], [r, 'FOUR * 2']]
    if name in o.CL_TYPE_INSTRUCTIONS:
        return [[r, r2, '8'], [r, ('mem', '8', r2)], [r, ('mem', 'FOUR', r2)], [r, r2, 'FOUR'], [r, ('mem', '0', r2)]]
    if name in o.CS_TYPE_INSTRUCTIONS:
        return [[r, r2, '8'], [r2, ('mem', '8', r)], [r2, ('mem', 'FOUR', r)], [r, r2, 'FOUR'], [r2, ('mem', '0', r)]]
    if name in o.CA_TYPE_INSTRUCTIONS:
        return [[r, r2]]
    if name in ('c.beqz', 'c.bnez'):
        return [[r, 'target'], [r, 'back'], [r, '8'], [r, '%offset(target)'], [r, '%offset target']]
    if name in o.CB_TYPE_INSTRUCTIONS:
        return [[r, '3'], [r, 'FOUR']]
    if name in o.CJ_TYPE_INSTRUCTIONS:
        return [['target'], ['back'], ['8'], ['%offset(target)'], ['%offset target']]
    # pseudo instructions
    pseudo = {
        'nop': [[]], 'ret': [[]],
        'li': [[r, '5'], [r, '0x12345678'], [r, '-1'], [r, 'FOUR'], [r, '%position(target, 0)'],
               [r, '%position target 0x08000000'], [r, 'FOUR << 20'], [r, '%hi(FOUR)'], [r, '%lo(target)']],
        'mv': [[r, r2]], 'not': [[r, r2]], 'neg': [[r, r2]], 'seqz': [[r, r2]], 'snez': [[r, r2]],
        'sltz': [[r, r2]], 'sgtz': [[r, r2]],
        'beqz': [[r, 'target'], [r, 'back']], 'bnez': [[r, 'target']], 'blez': [[r, 'target']],
        'bgez': [[r, 'target']], 'bltz': [[r, 'back']], 'bgtz': [[r, 'target']],
        'bgt': [[r, r2, 'target']], 'ble': [[r, r2, 'back']], 'bgtu': [[r, r2, 'target']], 'bleu': [[r, r2, 'target']],
        'j': [['target'], ['back']], 'jr': [[r]], 'call': [['target'], ['back']], 'tail': [['target'], ['back']],
    }
    if name in pseudo:
        return pseudo[name]
    if name in ('jal', 'jalr', 'fence'):
        return []
    raise KeyError(name)


def render_operand(op, paren_style=0):
    if isinstance(op, tuple):
        _, imm, reg = op
        return ['{}({})', '{} ({})', '{}( {} )', '{} ( {} )'][paren_style % 4].format(imm, reg)
    return op


def render(name, operands, sep=', ', indent='', comment='', upper=False, paren_style=0, gap=' '):
    head = name.upper() if upper else name
    ops = [render_operand(op, paren_style) for op in operands]
    text = indent + head
    if ops:
        text += gap + sep.join(ops)
    return text + comment


PRELUDE = 'FOUR = 4\nback:\n'
POSTLUDE = '\ntarget:\naddi x0, x0, 0\n'


def in_context(text):
    return PRELUDE + text + POSTLUDE


# ----------------------------------------------------------------------------
# (a) documented syntax forms
# ----------------------------------------------------------------------------

def section_a():
    sec = 'a:syntax'
    seps = [', ', ' ', ',', ' , ', '\t', ',\t', '  ']
    indents = ['', '    ', '\t', ' \t ']
    comments = ['', ' # trailing comment', '# tight comment', '\t## two', ' # with (parens), commas = and: colon']
    for name in ALL_MNEMONICS:
        creg = name.startswith('c.')
        regs = ('x9', 'x10', 'x11') if creg else ('x5', 'x6', 'x7')
        shapes = shapes_for(name, *regs)
        for operands in shapes:
            for sep, indent, comment, upper, style in itertools.product(seps, indents, comments, (False, True), range(4)):
                has_mem = any(isinstance(op, tuple) for op in operands)
                if style and not has_mem:
                    continue
                text = render(name, operands, sep=sep, indent=indent, comment=comment, upper=upper, paren_style=style)
                check(sec, ('lex', text), do_lex(text))
                check(sec, ('parse', text), do_lex_parse(text))
            # full pipeline on a smaller set of spellings
            for sep, indent, comment, upper, style in [(', ', '', '', False, 0), (' ', '    ', ' # c', False, 1),
                                                       (',', '\t', '#c', True, 2), (' , ', '', '', True, 3)]:
                text = render(name, operands, sep=sep, indent=indent, comment=comment, upper=upper, paren_style=style)
                check_source(sec, in_context(text))

    # every register spelling in every register position (and upper case / hex spellings)
    spellings = REG_SPELLINGS + [s.upper() for s in REG_SPELLINGS if s.upper() != s] + ['0x1f', '0b101', '0o7', '32', 'x32', 'FOUR']
    reg_names = ['add', 'addi', 'lw', 'sw', 'beq', 'lui', 'jal', 'jalr', 'amoadd.w', 'lr.w', 'sc.w', 'mv', 'li',
                 'c.mv', 'c.add', 'c.jr', 'c.jalr', 'c.addi', 'c.li', 'c.lui', 'c.slli', 'c.lwsp', 'c.swsp', 'c.addi4spn',
                 'c.lw', 'c.sw', 'c.sub', 'c.and', 'c.srli', 'c.andi', 'c.beqz', 'slli', 'csrrw', 'neg', 'beqz', 'jr']
    for name in reg_names:
        for operands in shapes_for(name, 'x9', 'x10', 'x11'):
            for spelling in spellings:
                for position in range(3):
                    target = ('x9', 'x10', 'x11')[position]

                    def sub(op):
                        if isinstance(op, tuple):
                            return (op[0], op[1], spelling if op[2] == target else op[2])
                        return spelling if op == target else op
                    ops = [sub(op) for op in operands]
                    if ops == operands:
                        continue
                    text = render(name, ops)
                    check(sec, ('parse', text), do_lex_parse(text))
                    check_source(sec, in_context(text))

    # labels, constants, data directives
    misc = [
        'label:', '  label:', 'label: # comment', 'LABEL:', 'a.b_c:', 'label::', ':', 'label :', 'label: addi x0 x0 0',
        'NAME = 5', 'NAME=5', 'NAME = 0x10 # c', 'NAME = FOUR + 1', 'NAME = FOUR * (2 + 1)', 'NAME = %hi(0x12345678)',
        'NAME = %lo(0x12345678)', 'NAME = %position(back, 0x100)', 'NAME = %offset(back)', "NAME = 'a'", 'NAME = "ab"',
        'NAME =', '= 5', 'NAME = = 5', 'addi = 5', 'x1 = 5', 'zero = 0', 'myreg = x5', 'NAME = x5\naddi NAME NAME 1',
        'string hello', 'string "hello world"', 'string hello # not a comment', '  string   padded  ', 'string \\x41\\n\\t\\\\',
        'string café ☃', 'string \\u2603', 'STRING upper', 'string', 'string ', 'string\ttab',
        'bytes 1 2 3', 'bytes 1, 2, 3', 'BYTES 0xff -1', 'shorts 1 0xffff', 'ints 1 -2', 'longs 1', 'longlongs 1 2', 'bytes',
        'bytes 256', 'bytes FOUR', 'bytes x', 'shorts 0x10000',
        'pack <I 5', 'pack <B FOUR', 'pack <I %position(back, 0)', 'pack <h -2', 'pack', 'pack <I', 'pack I', 'PACK <I 5',
        'pack <I (5)', 'pack <I %hi(0x12345678)', 'pack <f 5',
        'db 1', 'dh 2', 'dw 3', 'dd 4', 'DB 1', 'Dw 0x12345678', 'db', 'db FOUR + 1', 'db 256', 'dw %lo(back)', 'dh -1',
        'align 4', 'align 0x10', 'align', 'align x', 'align 4 4', 'ALIGN 2', 'db 1\nalign 4\ndb 2', 'align 0', 'align -4',
        'error boom', 'error "quoted" # kept', '  error indented', 'error', 'error ', 'ERROR upper', 'error \\x41\\u2603', 'error café',
        'include_bytes', ' include_bytes nothere', ' include_bytes a 1', ' include_bytes a b', ' include_bytes a 1 2',
        'include', ' include nothere', 'bogus', 'bogus x1, x2', '4', '(', ')', '()', '# only a comment', '   ', ',', ', ,', ',,,',
        '%hi(4)', 'x1', 'addi', 'addi,', 'addi x1', 'addi x1 x2', 'addi x1, 4(x2)', 'lw x1', 'lw x1 x2', 'lw x1 4(x2', 'lw x1 4 x2)',
        'lw x1, (x2)', 'lw x1, 4()', 'lw x1, 4(x2)(x3)', 'lw x1, 4(x2) 5', 'sw x1', 'sw x1 x2', 'sw x1, 4(x2) 5', 'c.lw x8', 'c.sw x8 x9',
        'lw x1, %lo(target)(x2)', 'lw x1, %lo target (x2)', 'sw x1, %lo(target)(x2)', 'lui x1', 'lui', 'jal', 'jal x1 x2 x3',
        'fence 1', 'fence 1 2 3', 'amoadd.w x1 x2', 'amoadd.w x1 x2 x3 1', 'amoadd.w x1 x2 x3 1 1 1', 'lr.w x1', 'lr.w x1 x2 1',
        'ecall x1', 'ebreak 1', 'fence.i 1', 'c.nop 1', 'c.ebreak 1', 'c.jr', 'c.jr x1 x2', 'c.mv x1', 'c.sub x8', 'add x1 x2', 'add x1 x2 x3 x4',
        'beq x1 x2', 'beq x1 x2 target 4', 'beq x1 x2 (', 'beq x1 x2 %offset', 'c.j', 'c.j (', 'c.addi16sp', 'c.addi x8',
        'li', 'li x1', 'mv x1', 'ret x1', 'nop 1', 'call', 'call a b', 'tail (', 'j %offset', 'beqz x1', 'bgt x1 x2',
        'addi x1 x2 %hi', 'addi x1 x2 %hi(', 'addi x1 x2 %hi()', 'addi x1 x2 %lo(%hi(4))', 'addi x1 x2 %hi(%lo(%hi(0x12345)))',
        'addi x1 x2 %HI(4)', 'addi x1 x2 %Lo 4', 'addi x1 x2 %position', 'addi x1 x2 %position(', 'addi x1 x2 %position(back',
        'addi x1 x2 %position(back)', 'addi x1 x2 %position back', 'addi x1 x2 %offset', 'addi x1 x2 %offset(', 'addi x1 x2 %offset()',
        'addi x1 x2 %offset(back, 4)', 'addi x1 x2 %offset back 4', 'addi x1 x2 %offset(back', 'addi x1 x2 %bogus(4)',
        'addi x1 x2 1 +', 'addi x1 x2 1 2', 'addi x1 x2 nope', 'addi x1 x2 __import__("os")', 'addi x1 x2 4096',
    ]
    for text in misc:
        check(sec, ('lex', text), do_lex(text))
        for piece in text.split('\n'):
            check(sec, ('parse', piece), do_lex_parse(piece))
        check_source(sec, text)
        check_source(sec, in_context(text))
        check_source(sec, text.upper())

    # caller supplied constants / labels
    check(sec, 'preset', do_assemble('addi x1, x0, PRE\njal x0, there', constants={'PRE': 7}, labels={'there': 64}))
    check(sec, 'preset', do_assemble('PRE = 8\naddi x1, x0, PRE', constants={'PRE': 7}))


# ----------------------------------------------------------------------------
# (b) random programs
# ----------------------------------------------------------------------------

class Gen:
    def __init__(self, rng):
        self.rng = rng
        self.labels = []
        self.consts = []

    def reg(self):
        r = self.rng
        return r.choice(REG_SPELLINGS) if r.random() < 0.85 else r.choice(['X5', 'ZERO', '0x5', 'T0', 'MYREG', 'x32', 'fp'])

    def creg(self):
        r = self.rng
        return r.choice(CREG_SPELLINGS) if r.random() < 0.9 else r.choice(REG_SPELLINGS)

    def label(self):
        r = self.rng
        if not self.labels or r.random() < 0.5:
            self.labels.append('L{}'.format(len(self.labels)))
        return r.choice(self.labels)

    def const(self):
        r = self.rng
        if self.consts and r.random() < 0.8:
            return r.choice(self.consts)
        return r.choice(['UNDEF', 'FOUR'])

    def number(self, bits=12, signed=True):
        r = self.rng
        lo = -(1 << (bits - 1)) if signed else 0
        hi = (1 << (bits - 1)) - 1 if signed else (1 << bits) - 1
        kind = r.random()
        if kind < 0.05:
            v = r.choice([lo - 1, hi + 1, hi * 3])
        else:
            v = r.randint(lo, hi)
        fmt = r.random()
        if fmt < 0.6 or v < 0:
            return str(v)
        if fmt < 0.8:
            return hex(v)
        if fmt < 0.9:
            return bin(v)
        return oct(v)

    def imm(self, bits=12, signed=True):
        r = self.rng
        k = r.random()
        if k < 0.45:
            return self.number(bits, signed)
        if k < 0.55:
            return self.const()
        if k < 0.65:
            return '{} {} {}'.format(self.const(), r.choice('+-*|&^'), self.number(4, False))
        if k < 0.70:
            return '({} + {}) * {}'.format(self.number(4, False), self.number(4, False), self.number(3, False))
        if k < 0.78:
            return r.choice(['%lo({})', '%lo {}', '%LO({})', '%lo ({})', '%lo( {} )']).format(r.choice([self.label(), self.const(), self.number(32, False)]))
        if k < 0.84:
            return r.choice(['%hi({})', '%hi {}', '%Hi({})']).format(r.choice([self.label(), self.const(), self.number(32, False)]))
        if k < 0.90:
            return r.choice(['%position({}, {})', '%position {} {}', '%position({} {})']).format(self.label(), self.number(16, False))
        if k < 0.95:
            return r.choice(['%offset({})', '%offset {}']).format(self.label())
        return r.choice(["'a'", '%hi(%lo(4))', '%lo(%position(L0, 0))', '1 <<', 'x1', '', '%hi', '%lo()', '%offset', '%position(L0)'])

    def target(self):
        r = self.rng
        k = r.random()
        if k < 0.8:
            return self.label()
        if k < 0.95:
            return str(r.randrange(-64, 64, 2))
        return r.choice(['nolabel', '3', '0x10', '%offset', '('])

    def mem(self, reg, bits=12):
        r = self.rng
        imm = self.imm(bits)
        return r.choice(['{}({})', '{} ({})', '{}( {} )', '{} ( {} )']).format(imm, reg)

    def operands(self, name):
        r = self.rng
        o = OLD
        if name in ('slli', 'srli', 'srai'):
            return [self.reg(), self.reg(), self.number(5, False)]
        if name in o.R_TYPE_INSTRUCTIONS:
            return [self.reg(), self.reg(), self.reg()]
        if name == 'jalr':
            k = r.random()
            if k < 0.2:
                return [self.reg()]
            if k < 0.6:
                return [self.reg(), self.mem(self.reg())]
            return [self.reg(), self.reg(), self.imm()]
        if name in ('lb', 'lh', 'lw', 'lbu', 'lhu'):
            if r.random() < 0.6:
                return [self.reg(), self.mem(self.reg())]
            return [self.reg(), self.reg(), self.imm()]
        if name in o.I_TYPE_INSTRUCTIONS:
            if r.random() < 0.05:
                return [self.reg(), self.mem(self.reg())]
            if name.startswith('csrr'):
                return [self.reg(), self.reg(), self.number(12, False)]
            return [self.reg(), self.reg(), self.imm()]
        if name in o.S_TYPE_INSTRUCTIONS:
            if r.random() < 0.6:
                return [self.reg(), self.mem(self.reg())]
            return [self.reg(), self.reg(), self.imm()]
        if name in o.B_TYPE_INSTRUCTIONS:
            return [self.reg(), self.reg(), self.target()]
        if name in o.U_TYPE_INSTRUCTIONS:
            return [self.reg(), r.choice([self.number(20, False), self.imm(20, False)])]
        if name == 'jal':
            if r.random() < 0.4:
                return [self.target()]
            return [self.reg(), self.target()]
        if name == 'fence':
            k = r.random()
            if k < 0.4:
                return []
            return [self.number(4, False), self.number(4, False)]
        if name in o.A_TYPE_INSTRUCTIONS:
            ops = [self.reg(), self.reg(), self.reg()]
            if r.random() < 0.4:
                ops += [r.choice('01'), r.choice('01')]
            return ops
        if name in o.AL_TYPE_INSTRUCTIONS:
            ops = [self.reg(), self.reg()]
            if r.random() < 0.4:
                ops += [r.choice('01'), r.choice('01')]
            return ops
        if name in o.IE_TYPE_INSTRUCTIONS or name in o.CRE_TYPE_INSTRUCTIONS or name in o.CIN_TYPE_INSTRUCTIONS:
            return []
        if name in o.CR_TYPE_INSTRUCTIONS:
            return [self.reg(), self.reg()]
        if name in o.CRJ_TYPE_INSTRUCTIONS:
            return [self.reg()]
        if name in o.CI_TYPE_INSTRUCTIONS:
            return [self.reg(), self.imm(6)]
        if name in o.CIA_TYPE_INSTRUCTIONS:
            return [str(r.randrange(-512, 512, 16))]
        if name in o.CSS_TYPE_INSTRUCTIONS:
            return [self.reg(), str(r.randrange(0, 256, 4))]
        if name in o.CIW_TYPE_INSTRUCTIONS:
            return [self.creg(), str(r.randrange(4, 1024, 4))]
        if name in o.CL_TYPE_INSTRUCTIONS or name in o.CS_TYPE_INSTRUCTIONS:
            off = str(r.randrange(0, 128, 4)) if r.random() < 0.8 else self.imm(6)
            if r.random() < 0.6:
                return [self.creg(), r.choice(['{}({})', '{} ( {} )']).format(off, self.creg())]
            return [self.creg(), self.creg(), off]
        if name in o.CA_TYPE_INSTRUCTIONS:
            return [self.creg(), self.creg()]
        if name in ('c.beqz', 'c.bnez'):
            return [self.creg(), self.target()]
        if name in o.CB_TYPE_INSTRUCTIONS:
            return [self.creg(), self.imm(6)]
        if name in o.CJ_TYPE_INSTRUCTIONS:
            return [self.target()]
        if name in ('nop', 'ret'):
            return []
        if name == 'li':
            return [self.reg(), r.choice([self.number(32, True), self.imm(32)])]
        if name in ('mv', 'not', 'neg', 'seqz', 'snez', 'sltz', 'sgtz'):
            return [self.reg(), self.reg()]
        if name in ('beqz', 'bnez', 'blez', 'bgez', 'bltz', 'bgtz'):
            return [self.reg(), self.target()]
        if name in ('bgt', 'ble', 'bgtu', 'bleu'):
            return [self.reg(), self.reg(), self.target()]
        if name in ('j', 'call', 'tail'):
            return [self.target()]
        if name == 'jr':
            return [self.reg()]
        raise KeyError(name)

    def instruction(self):
        r = self.rng
        name = r.choice(ALL_MNEMONICS)
        ops = self.operands(name)
        sep = r.choice([', ', ', ', ' ', ',', ' , ', '\t'])
        head = name.upper() if r.random() < 0.1 else name
        text = head
        if ops:
            text += r.choice([' ', ' ', '\t', '  ']) + sep.join(ops)
        return text

    def data(self):
        r = self.rng
        k = r.randrange(9)
        if k == 0:
            return '{} {}'.format(r.choice(['bytes', 'BYTES']), r.choice([' ', ', ']).join(str(r.randrange(-128, 256)) for _ in range(r.randrange(0, 6))))
        if k == 1:
            name = r.choice(['shorts', 'ints', 'longs', 'longlongs'])
            return '{} {}'.format(name, ' '.join(self.number(r.choice([8, 16, 32]), r.random() < 0.5) for _ in range(r.randrange(1, 5))))
        if k == 2:
            return 'pack {} {}'.format(r.choice(['<I', '<i', '<H', '<B', '<b', '>I', '<Q', 'I', '<f', '<II']), self.imm(r.choice([8, 16, 32])))
        if k == 3:
            return '{} {}'.format(r.choice(['db', 'dh', 'dw', 'dd', 'DB', 'Dw']), self.imm(r.choice([8, 16, 32])))
        if k == 4:
            return 'string {}'.format(r.choice(['hello', '"hello world"', 'a # b', '\\x41\\n', 'café', '', ' spaced  ', '\\', '\\q', "'single'"]))
        if k == 5:
            return 'align {}'.format(r.choice(['2', '4', '8', '0x10', '1', '3', '0', 'x', '']))
        if k == 6:
            name = 'C{}'.format(len(self.consts))
            self.consts.append(name)
            return '{} {} {}'.format(name, '=', self.imm(r.choice([12, 20, 32])))
        if k == 7:
            name = 'R{}'.format(len(self.consts))
            self.consts.append(name)
            return '{} = {}'.format(name, self.reg())
        return r.choice(['', '   ', '# just a comment', '  # indented comment', 'error stop here', 'ebreak', 'c.nop'])

    def mutate(self, text):
        r = self.rng
        k = r.randrange(9)
        junk = ['(', ')', '=', ':', ',', '%hi', '%lo', '%offset', '%position', '#', 'x1', '0', '1 1', 'foo', '((', '))', '()', '4(x2)', ',,', '\t']
        words = text.split(' ')
        if k == 0 and words:
            del words[r.randrange(len(words))]
            return ' '.join(words)
        if k == 1:
            words.insert(r.randrange(len(words) + 1), r.choice(junk))
            return ' '.join(words)
        if k == 2 and text:
            return text[:r.randrange(len(text))]
        if k == 3 and text:
            i = r.randrange(len(text))
            return text[:i] + r.choice(junk) + text[i:]
        if k == 4 and len(words) > 1:
            i, j = r.randrange(len(words)), r.randrange(len(words))
            words[i], words[j] = words[j], words[i]
            return ' '.join(words)
        if k == 5:
            return text.replace(',', r.choice(['', ' ', ',,', ' , ']))
        if k == 6:
            return text.replace('(', r.choice(['', '((', ' ', ')'])).replace(')', r.choice(['', '))', ' ', '(']))
        if k == 7 and words:
            i = r.randrange(len(words))
            words[i] = r.choice(junk)
            return ' '.join(words)
        return text + r.choice(junk)

    def program(self, mutate_rate):
        r = self.rng
        self.labels = []
        self.consts = []
        lines = []
        n = r.randint(1, 28)
        for _ in range(n):
            k = r.random()
            if k < 0.70:
                text = self.instruction()
            elif k < 0.92:
                text = self.data()
            else:
                text = None  # label placeholder
            if text is not None:
                if r.random() < mutate_rate:
                    text = self.mutate(text)
                text = r.choice(['', '', '    ', '\t']) + text + r.choice(['', '', '', ' # comment', '# c', '  ## (x) = y:'])
            lines.append(text)
        # place the labels that were referenced
        placeholders = [i for i, t in enumerate(lines) if t is None]
        names = list(self.labels)
        r.shuffle(names)
        for i in placeholders:
            lines[i] = (names.pop() + ':') if names else 'extra{}:'.format(i)
        for name in names:
            if r.random() < 0.95:
                lines.insert(r.randrange(len(lines) + 1), r.choice(['', '  ']) + name + ':')
        return r.choice(['\n', '\n', '\r\n', '\n\n']).join(lines)


def section_b():
    sec = 'b:random'
    rng = random.Random(SEED)
    gen = Gen(rng)
    # clean programs of one instruction each reach the back end far more often
    for _ in range(4000):
        gen.labels, gen.consts = [], []
        text = gen.instruction()
        labels = ''.join('{}:\n'.format(name) for name in gen.labels)
        if rng.random() < 0.5:
            src = 'FOUR = 4\nMYREG = x5\n' + labels + text + '\n'
        else:
            src = 'FOUR = 4\nMYREG = x5\n' + text + '\n' + labels
        check(sec, ('parse', text), do_lex_parse(text))
        check_source(sec, src)
    for rate in (0.0, 0.05, 0.3):
        for _ in range(1500):
            src = gen.program(rate)
            if rng.random() < 0.7:
                src = 'FOUR = 4\nMYREG = x5\n' + src
            check_source(sec, src)
            for text in src.splitlines():
                check(sec, ('parse', text), do_lex_parse(text))


# ----------------------------------------------------------------------------
# (c) malformed lines
# ----------------------------------------------------------------------------

def section_c():
    sec = 'c:malformed'

    # c1: parse_item over raw token sequences for every head
    pool = ['x1', 'x9', '4', '(', ')', 'foo', '%hi', '%lo', '%offset', '%position', '=', ':', 'foo:', '-', '']
    for head in ALL_HEADS:
        for variant in {head, head.upper(), head.capitalize()}:
            for n in range(0, 4):
                for ops in itertools.product(pool, repeat=n):
                    check(sec, ('tokens', variant, ops), do_parse_tokens((variant,) + ops))
            # longer, paren shaped, sequences
            for ops in [
                ('x1', '4', '(', 'x2', ')'), ('x1', '4', '(', 'x2'), ('x1', '4', '(', 'x2', ')', 'x3'), ('x1', '4', ')', 'x2', '('),
                ('x1', '4', '(', 'x2', 'x3'), ('x1', 'x2', '(', '4', ')'), ('x1', '%lo', '(', 'foo', ')', '(', 'x2', ')'),
                ('x1', 'x2', '%lo', '(', 'foo', ')'), ('x1', 'x2', '%lo', '(', 'foo'), ('x1', 'x2', '%position', '(', 'foo', '4', ')'),
                ('x1', 'x2', '%position', 'foo', '4', '+', '4'), ('x1', 'x2', '%offset', '(', 'foo', ')'), ('x1', 'x2', 'x3', '1', '1'),
                ('x1', 'x2', 'x3', '1'), ('x1', 'x2', 'x3', '1', '1', '1'), ('x1', 'x2', '1', '1'), ('x1', '(', 'x2', ')'),
                ('(', 'x1', ')', 'x2', '4'), ('x1', '(', '4', ')', 'x2'), ('x1', 'x2', '(', '(', '4', ')', ')'),
                ('=', '4'), ('=',), ('x', '=', '4'), ('=', '=', '='), ('a', 'b', 'c', 'd', 'e', 'f', 'g'),
            ]:
                check(sec, ('tokens', variant, ops), do_parse_tokens((variant,) + ops))
    check(sec, ('tokens', ()), do_parse_tokens(()))

    # c2: parse_immediate over token sequences
    ipool = ['%hi', '%lo', '%offset', '%position', '(', ')', 'foo', '4', '%HI', '+']
    for n in range(0, 6):
        for toks in itertools.product(ipool, repeat=n):
            check(sec, ('imm', toks), do_parse_immediate(toks))
    for toks in [('%hi', '(', '%lo', '(', '%position', '(', 'foo', '4', ')', ')', ')'),
                 ('%hi', '%lo', '%hi', '%lo', '4'), ('%Position', '(', 'foo', '1', '+', '2', ')'),
                 ('%OFFSET', 'foo'), ('',), ('', '('), ('%hi', ''), ('1', '+', '(', '2', '*', '3', ')')]:
        check(sec, ('imm', toks), do_parse_immediate(toks))

    # c3: the lexer on every code point (leading, trailing, separating)
    for cp in range(0x110000):
        c = chr(cp)
        text = '{0}addi{0}x1,{0}x2{0},{0}4{0}'.format(c)
        check(sec, ('lex-cp', cp), do_lex(text))
    for cp in list(range(0x3000)) + [0xfeff, 0xd800, 0xdfff, 0x1f600, 0x10ffff]:
        c = chr(cp)
        for text in ['{}'.format(c), ' {} '.format(c), 'error a{}b'.format(c), 'string a{}b'.format(c), '{}error x'.format(c),
                     '{}string x'.format(c), 'string{}x'.format(c), 'addi x1 x2 4 #{}x'.format(c), 'a{0}({0}b{0}){0}'.format(c),
                     'string \\{}'.format(c), 'error \\{}'.format(c)]:
            check(sec, ('lex-cp2', text), do_lex(text))

    # c4: the lexer / reader / parser on random strings over a nasty alphabet
    rng = random.Random(SEED + 1)
    alphabet = ['#', '(', ')', ',', ' ', '\t', '\n', '\r', '\x0b', '\x0c', '\x1c', '\x85', ' ', '\xa0', '　', '\\', '\\n', '\\x4', '\\x41',
                '\\u26', '\\u2603', '\\N{BULLET}', '\\777', '"', "'", 'error ', 'string ', 'error', 'string', 'include ', 'include_bytes ',
                'addi', 'lw', 'sw', 'x1', '4', ':', '=', '%hi', '%lo', '%offset', '%position', 'foo', 'é', '☃', '\U0001f600', '\udc80', '\x00', '-', '+', '0x', 'ab']
    for _ in range(60000):
        text = ''.join(rng.choice(alphabet) for _ in range(rng.randint(0, 9)))
        check(sec, ('lex-rand', text), do_lex(text))
        check(sec, ('parse-rand', text), do_lex_parse(text))
    for _ in range(6000):
        text = ''.join(rng.choice(alphabet) for _ in range(rng.randint(0, 14)))
        check(sec, ('read-rand', text), do_read_lines(text))
        check(sec, ('asm-rand', text), do_assemble(text))

    # c5: non Line inputs of lex_tokens
    for arg in ['addi x1 x2 3', '', 'a\nb # c\nd # e', 'a # b\n', 'string a\nb', 'error a\nb', '# a\n# b', '\n']:
        check(sec, ('lex-str', arg), do_lex(arg))

    class Text(str):
        pass
    check(sec, 'lex-strsub', lambda mod: mod.lex_tokens(Text('addi x1 x2 3')))
    check(sec, 'lex-none', lambda mod: mod.lex_tokens(None))
    check(sec, 'lex-bytes', lambda mod: mod.lex_tokens(b'addi'))


# ----------------------------------------------------------------------------
# (d) include trees
# ----------------------------------------------------------------------------

def write(root, rel, content, binary=False):
    path = os.path.join(root, rel)
    os.makedirs(os.path.dirname(path), exist_ok=True)
    if binary:
        with open(path, 'wb') as f:
            f.write(content)
    else:
        with open(path, 'w', encoding='utf-8', newline='') as f:
            f.write(content)
    return path


def run_cli(argv, cwd):
    """Run cli_main() of each module in cwd; compare exit, output files."""
    def fn(mod):
        old_argv, old_cwd = sys.argv, os.getcwd()
        outdir = tempfile.mkdtemp(prefix='out-', dir=SCRATCH)
        out = os.path.join(outdir, 'out.bin')
        lab = os.path.join(outdir, 'out.labels')
        sys.argv = ['bronzebeard'] + list(argv) + ['-o', out, '-l', lab]
        os.chdir(cwd)
        try:
            try:
                mod.cli_main()
                status = None
            except SystemExit as e:
                status = str(e.code) if not isinstance(e.code, mod.AssemblerError) else ('AssemblerError', str(e.code))
        finally:
            sys.argv = old_argv
            os.chdir(old_cwd)
        files = {}
        for p in (out, lab):
            if os.path.exists(p):
                with open(p, 'rb') as f:
                    files[os.path.basename(p)] = f.read()
        return {'status': status, 'files': files}
    return fn


def section_d():
    sec = 'd:includes'
    root = tempfile.mkdtemp(prefix='tree-', dir=SCRATCH)
    start_cwd = os.getcwd()

    write(root, 'proj/main.asm', '\n'.join([
        '# main program',
        'include defs.asm',
        'include "sub/code.asm"   # quoted, with a comment',
        "include 'quoted.asm'",
        'INCLUDE upper.asm',
        'include shared.asm',
        'start:',
        '    addi x1, x0, DEF_A',
        '    addi x2, x0, DEEP',
        '    addi x3, x0, SHARED',
        '    jal x0, sub_entry',
        'include_bytes blob.bin',
        'include_bytes sub/blob2.bin',
        'include_bytes incblob.bin',
        'end:',
        '    lw x5, %lo(end)(x0)',
        '',
    ]))
    write(root, 'proj/defs.asm', 'DEF_A = 11\nDEF_B = DEF_A * 2\n')
    write(root, 'proj/quoted.asm', 'QUOTED = 1\n')
    write(root, 'proj/upper.asm', 'UPPER = 2\n')
    write(root, 'proj/shared.asm', 'SHARED = 100  # next to main: only used when no -i dir has one\n')
    write(root, 'proj/sub/code.asm', '\n'.join([
        'sub_entry:',
        '    addi x4, x0, DEF_B',
        'include deeper/deep.asm',
        'include sibling.asm      # found next to code.asm, not next to main.asm',
        'include_bytes blob2.bin',
        '    sw x4, 4(x2)',
        '',
    ]))
    write(root, 'proj/sub/sibling.asm', 'SIBLING = 5\n    addi x6, x0, SIBLING\n')
    write(root, 'proj/sub/deeper/deep.asm', 'DEEP = 33\ninclude leaf.asm\n')
    write(root, 'proj/sub/deeper/leaf.asm', 'LEAF = 44\n    c.nop\n')
    write(root, 'proj/blob.bin', bytes(range(7)), binary=True)
    write(root, 'proj/sub/blob2.bin', b'\xde\xad\xbe\xef\x01', binary=True)
    write(root, 'inc1/shared.asm', 'SHARED = 200\n')
    write(root, 'inc1/incblob.bin', b'inc1', binary=True)
    write(root, 'inc1/only1.asm', 'ONLY1 = 1\ninclude only2.asm\n')
    write(root, 'inc2/shared.asm', 'SHARED = 300\n')
    write(root, 'inc2/incblob.bin', b'inc2-longer', binary=True)
    write(root, 'inc2/only2.asm', 'ONLY2 = 2\n')
    write(root, 'inc2/sub/code.asm', 'sub_entry:\n    addi x9, x9, 9\n')
    write(root, 'elsewhere/cwdfile.asm', 'CWDFILE = 9\n')
    write(root, 'elsewhere/blob.bin', b'elsewhere!', binary=True)
    write(root, 'proj/uses_inc.asm', 'include only1.asm\naddi x1, x0, ONLY1 + ONLY2\n')
    write(root, 'proj/crlf.asm', 'include defs.asm\r\naddi x1, x0, DEF_A\r\n\r\ninclude_bytes blob.bin\r\n')

    bad = {
        'missing.asm': 'addi x1, x0, 1\ninclude nothere.asm\n',
        'missing_bytes.asm': 'include_bytes nothere.bin\n',
        'noarg.asm': 'include \n',
        'noarg2.asm': 'include   # nothing\n',
        'twoargs.asm': 'include defs.asm other.asm\n',
        'noarg_bytes.asm': 'include_bytes \n',
        'twoargs_bytes.asm': 'include_bytes blob.bin 3\n',
        'comment_bytes.asm': 'include_bytes blob.bin # comment\n',
        'quoted_bytes.asm': 'include_bytes "blob.bin"\n',
        'indented.asm': '  include defs.asm\naddi x1, x0, 1\n',
        'indented_bytes.asm': '  include_bytes blob.bin\n',
        'indented_bytes2.asm': '  include_bytes blob.bin 7\n',
        'tab.asm': 'include\tdefs.asm\n',
        'tab_bytes.asm': 'include_bytes\tblob.bin\n',
        'bare.asm': 'include\n',
        'bare_bytes.asm': 'include_bytes\n',
        'hash_in_name.asm': 'include defs#.asm\n',
        'quote_mix.asm': 'include "\'defs.asm\'"\n',
        'empty_quotes.asm': 'include ""\n',
        'dir.asm': 'include sub\n',
        'dir_bytes.asm': 'include_bytes sub\n',
        'upper_bytes.asm': 'INCLUDE_BYTES blob.bin\n',
        'mixed.asm': 'Include Defs.asm\n',
        'abs.asm': 'include {}\naddi x1, x0, DEF_A\n'.format(os.path.join(root, 'proj', 'defs.asm')),
        'abs_bytes.asm': 'include_bytes {}\n'.format(os.path.join(root, 'proj', 'blob.bin')),
        'dotdot.asm': 'include ../inc2/only2.asm\ninclude sub/../defs.asm\naddi x1, x0, ONLY2 + DEF_A\n',
        'err_in_include.asm': 'include bad_inner.asm\n',
        'bad_inner.asm': 'addi x1, x0, 1\n\n   addi x1, x0\n',
        'err_line.asm': 'include defs.asm\n\n\nerror from line four\n',
        'self_loop.asm': 'include self_loop.asm\n',
        'unicode.asm': 'include defs.asm # café\nstring café\n',
        'include_word.asm': 'includes = 4\ninclude_bytesx = 5\naddi x1, x0, includes\n',
        'vt.asm': 'include defs.asm\x0baddi x1, x0, DEF_A\x0cinclude_bytes blob.bin\x1caddi x2, x0, 2\n',
    }
    for name, content in bad.items():
        write(root, os.path.join('proj', name), content)

    proj = os.path.join(root, 'proj')
    inc1 = os.path.join(root, 'inc1')
    inc2 = os.path.join(root, 'inc2')
    elsewhere = os.path.join(root, 'elsewhere')

    include_dir_sets = [None, [], [inc1], [inc2], [inc1, inc2], [inc2, inc1], [elsewhere], [os.path.join(root, 'nonexistent'), inc1],
                        ['../inc1'], ['inc1', 'inc2'], (inc1,), [proj], ['.']]
    cwds = [root, proj, inc1, elsewhere, os.path.join(proj, 'sub')]
    files = ['main.asm', 'uses_inc.asm', 'crlf.asm'] + sorted(bad)

    try:
        for cwd in cwds:
            os.chdir(cwd)
            for dirs in include_dir_sets:
                kwargs = {} if dirs is None else {'include_dirs': dirs}
                for name in files:
                    absolute = os.path.join(proj, name)
                    relative = os.path.relpath(absolute, cwd)
                    for path in (absolute, relative):
                        check(sec, ('read', cwd, dirs, path), do_read_lines(path, **kwargs))
                        check(sec, ('asm', cwd, dirs, path), do_assemble(path, **kwargs))
                        check(sec, ('asm -c', cwd, dirs, path), do_assemble(path, compress=True, **kwargs))
                    # the same program handed over as source text: search happens from the cwd
                    with open(absolute, encoding='utf-8', newline='') as f:
                        text = f.read()
                    check(sec, ('read-src', cwd, dirs, name), do_read_lines(text, **kwargs))
                    check(sec, ('asm-src', cwd, dirs, name), do_assemble(text, **kwargs))
                # source strings that include things relative to the cwd
                for text in ['include cwdfile.asm\naddi x1, x0, CWDFILE', 'include_bytes blob.bin', 'include defs.asm\naddi x1 x0 DEF_B',
                             'include proj/defs.asm\ninclude_bytes proj/blob.bin', 'include shared.asm\naddi x1 x0 SHARED',
                             'include only1.asm', 'include sub/code.asm', 'include_bytes incblob.bin\ninclude_bytes incblob.bin']:
                    check(sec, ('read-src', cwd, dirs, text), do_read_lines(text, **kwargs))
                    check(sec, ('asm-src', cwd, dirs, text), do_assemble(text, **kwargs))
            # read_lines called the way the recursion calls it
            check(sec, ('read-include-flag', cwd), do_read_lines(os.path.join(proj, 'defs.asm'), include=True))
            check(sec, ('read-include-flag-missing', cwd), do_read_lines(os.path.join(proj, 'nope.asm'), include=True))
            check(sec, ('read-include-flag-text', cwd), do_read_lines('addi x1, x0, 1', include=True))
            check(sec, ('read-dir', cwd), do_read_lines(proj))

        # the CLI, from different working directories, with -i (absolute and relative) and -c
        for cwd in cwds:
            for extra in ([], ['-c'], ['-i', inc1], ['-i', inc2, '-i', inc1], ['-i', os.path.relpath(inc1, cwd), '-c'],
                          ['-i', os.path.join(root, 'nonexistent')], ['--include-definitions']):
                for name in ['main.asm', 'uses_inc.asm', 'missing.asm', 'err_in_include.asm', 'twoargs.asm', 'err_line.asm', 'nofile.asm']:
                    for path in (os.path.join(proj, name), os.path.relpath(os.path.join(proj, name), cwd)):
                        check(sec, ('cli', cwd, extra, path), run_cli([path] + extra, cwd))

        # random include trees
        rng = random.Random(SEED + 2)
        gen = Gen(rng)
        for t in range(150):
            troot = tempfile.mkdtemp(prefix='rnd{}-'.format(t), dir=SCRATCH)
            dirs = ['.', 'a', 'b', 'a/c', 'lib1', 'lib2']
            nfiles = rng.randint(2, 7)
            names = ['{}/f{}.asm'.format(rng.choice(dirs), i) for i in range(nfiles)]
            blobs = ['{}/d{}.bin'.format(rng.choice(dirs), i) for i in range(rng.randint(0, 3))]
            for b in blobs:
                write(troot, b, bytes(rng.randrange(256) for _ in range(rng.randint(0, 9))), binary=True)
            for i, name in enumerate(names):
                body = []
                for _ in range(rng.randint(1, 6)):
                    k = rng.random()
                    if k < 0.35 and i + 1 < nfiles:
                        # only include later files: no cycles
                        other = rng.choice(names[i + 1:])
                        spelling = rng.choice([other, os.path.basename(other), os.path.relpath(os.path.join(troot, other), os.path.dirname(os.path.join(troot, name))),
                                               os.path.join(troot, other), './' + other])
                        quote = rng.choice(['', '', '"', "'"])
                        kw = rng.choice(['include', 'include', 'INCLUDE', 'Include', ' include', 'include ', 'include\t'])
                        body.append('{} {}{}{}{}'.format(kw, quote, spelling, quote, rng.choice(['', '', ' # c', '#c', ' extra'])))
                    elif k < 0.5 and blobs:
                        other = rng.choice(blobs)
                        spelling = rng.choice([other, os.path.basename(other), os.path.join(troot, other)])
                        body.append('{} {}{}'.format(rng.choice(['include_bytes', 'include_bytes', 'INCLUDE_BYTES', ' include_bytes']), spelling,
                                                     rng.choice(['', '', '', ' # c', ' 3'])))
                    else:
                        gen.labels, gen.consts = [], []
                        body.append(rng.choice(['    ', '']) + rng.choice(['addi x1, x1, 1', 'c.nop', 'db 1', 'K{} = {}'.format(i, i), 'string s{}'.format(i), gen.instruction()]))
                write(troot, name, rng.choice(['\n', '\n', '\r\n']).join(body) + '\n')
            lib_sets = [None, [os.path.join(troot, 'lib1')], [os.path.join(troot, 'lib2'), os.path.join(troot, 'lib1')], [os.path.join(troot, 'a')], ['lib1', 'a/c']]
            for cwd in [troot, os.path.join(troot, 'a'), SCRATCH]:
                os.makedirs(cwd, exist_ok=True)
                os.chdir(cwd)
                for libs in lib_sets:
                    kwargs = {} if libs is None else {'include_dirs': libs}
                    for name in names[:3]:
                        absolute = os.path.join(troot, name)
                        for path in (absolute, os.path.relpath(absolute, cwd)):
                            check(sec, ('rnd-read', t, cwd, libs, path), do_read_lines(path, **kwargs))
                            check(sec, ('rnd-asm', t, cwd, libs, path), do_assemble(path, **kwargs))

        # the shipped examples against the shipped definitions
        os.chdir(HERE)
        defs = os.path.join(HERE, 'bronzebeard', 'definitions')
        for name in sorted(os.listdir(os.path.join(HERE, 'examples'))):
            if not name.endswith('.asm'):
                continue
            path = os.path.join(HERE, 'examples', name)
            for compress in (False, True):
                for dirs in ([defs], None):
                    check(sec, ('example', name, compress), do_assemble(path, compress=compress, include_dirs=dirs))
                    check(sec, ('example-rel', name, compress), do_assemble(os.path.join('examples', name), compress=compress, include_dirs=dirs))
        for name in sorted(os.listdir(defs)):
            check(sec, ('definition', name), do_read_lines(os.path.join(defs, name)))
            check(sec, ('definition', name), do_assemble(os.path.join(defs, name)))
    finally:
        os.chdir(start_cwd)


def main():
    try:
        table_invariants()
        for section in (section_a, section_b, section_c, section_d):
            before = STATS.checked
            section()
            print('{}: {} comparisons'.format(section.__name__, STATS.checked - before), flush=True)
    finally:
        shutil.rmtree(SCRATCH, ignore_errors=True)

    print()
    print('comparisons : {}'.format(STATS.checked))
    print('by section  : {}'.format(STATS.sections))
    print('by outcome  : {}'.format(dict(sorted(STATS.kinds.items(), key=lambda kv: -kv[1]))))
    if STATS.text_notes:
        shapes = {}
        for section, what, a, b in STATS.text_notes:
            shapes.setdefault((a, b), (section, what))
        print('notes       : {} escaped (non AssemblerError) exceptions of equal type whose text differs; {} distinct pairs:'.format(
            len(STATS.text_notes), len(shapes)))
        for (a, b), (section, what) in list(shapes.items())[:12]:
            print('    old {!r}\n    new {!r}\n        e.g. [{}] {!r}'.format(a, b, section, what))
    print('mismatches  : {}'.format(len(STATS.mismatches)))
    if STATS.mismatches:
        print('FAIL')
        return 1
    print('OK: refactored front end matches HEAD on every comparison')
    return 0


if __name__ == '__main__':
    sys.exit(main())
