#!/venv/bin/python
"""Confirm and evaluate a delivered seeded change (developer tool, not a registered check).

  tools/r3_eval.py /tmp/r3/C14/deliver/m1.diff C14 [--keep NAME]

1. applies the diff to a scratch copy of /repo (never /repo itself) including the tests, runs the test suite there (must pass);
2. runs the delivered demo `<stem>_demo.py <tree>` against the changed copy (must exit 1) and against an unchanged copy (must exit 0);
3. runs all 20 checks against the changed copy and reports which fire;
4. with --keep NAME and a confirmed change stores patch.diff, demo.py, meta.json under /verif/seeded/NAME/.
"""
import argparse
import json
import os
import shutil
import subprocess
import sys
import tempfile

VERIF = os.path.dirname(os.path.dirname(os.path.abspath(__file__)))
PY = '/venv/bin/python'
PROPS = ['C%02d' % i for i in range(1, 21)]


def sh(cmd, cwd=None, timeout=600):
    try:
        r = subprocess.run(cmd, shell=True, cwd=cwd, capture_output=True, text=True, timeout=timeout)
        return r.returncode, r.stdout + r.stderr
    except subprocess.TimeoutExpired:
        return 124, 'timeout'


def copy_repo(repo):
    d = tempfile.mkdtemp(prefix='bbverif-r3-')
    for sub in ('bronzebeard', 'docs', 'tests', 'examples'):
        if os.path.isdir(os.path.join(repo, sub)):
            shutil.copytree(os.path.join(repo, sub), os.path.join(d, sub), ignore=shutil.ignore_patterns('__pycache__'))
    for f in ('setup.py', 'setup.cfg', 'pyproject.toml', 'README.md', 'conftest.py', 'pytest.ini', 'tox.ini'):
        if os.path.exists(os.path.join(repo, f)):
            shutil.copy(os.path.join(repo, f), d)
    return d


def main():
    ap = argparse.ArgumentParser()
    ap.add_argument('diff')
    ap.add_argument('prop')
    ap.add_argument('--keep')
    ap.add_argument('--repo', default='/repo')
    ap.add_argument('--skip-tests', action='store_true')
    args = ap.parse_args()
    diff = os.path.abspath(args.diff)
    stem = diff[:-5]
    demo = stem + '_demo.py'
    note = stem + '.txt'
    text = open(diff).read()
    touched = [l[6:] for l in text.splitlines() if l.startswith('+++ b/')]
    if not touched or any(not t.startswith('bronzebeard/') for t in touched):
        print('REJECT: touches', touched)
        return 2
    changed = copy_repo(args.repo)
    clean = copy_repo(args.repo)
    try:
        rc, out = sh('git apply {}'.format(diff), cwd=changed)
        if rc != 0:
            print('REJECT: patch does not apply:', out[:300])
            return 2
        tests_ok = None
        if not args.skip_tests:
            rc_t, out_t = sh('{} -m pytest -q -p no:cacheprovider -x 2>&1 | tail -3'.format(PY), cwd=changed, timeout=900)
            tests_ok = ' passed' in out_t and 'failed' not in out_t and 'error' not in out_t.lower()
            print('tests with change:', out_t.strip().splitlines()[-1] if out_t.strip() else '?')
        rc1, o1 = sh('{} {} {}'.format(PY, demo, changed), cwd=os.path.dirname(demo), timeout=120)
        rc0, o0 = sh('{} {} {}'.format(PY, demo, clean), cwd=os.path.dirname(demo), timeout=120)
        print('demo on changed tree: exit', rc1, '| on unchanged tree: exit', rc0)
        confirmed = (tests_ok is not False) and rc1 == 1 and rc0 == 0
        print('CONFIRMED' if confirmed else 'NOT CONFIRMED')
        fired = {}
        for p in PROPS:
            rc, out = sh('{} {}/bbverif/check.py {} --repo {} --no-evidence'.format(PY, VERIF, p, changed))
            fired[p] = rc
            if rc != 0:
                lines = [l for l in out.splitlines() if l.strip().startswith('finding') or l.startswith('ANALYSIS-ERROR')]
                print('  {} exit={} {}'.format(p, rc, (lines[0].strip()[:240] if lines else '')))
        caught = [p for p, rc in fired.items() if rc == 1]
        undecided = [p for p, rc in fired.items() if rc == 2]
        verdict = 'caught' if args.prop in caught else ('undecided' if args.prop in undecided else 'missed')
        print('fired:', caught, 'undecided:', undecided, '| target', args.prop, verdict.upper())
        if args.keep and confirmed:
            d = os.path.join(VERIF, 'seeded', args.keep)
            os.makedirs(d, exist_ok=True)
            shutil.copy(diff, os.path.join(d, 'patch.diff'))
            shutil.copy(demo, os.path.join(d, 'demo.py'))
            summary = open(note).read().strip() if os.path.exists(note) else ''
            meta = {'id': args.keep, 'breaks_property': args.prop, 'summary': summary, 'touched_files': touched,
                    'confirmed': {'tests_pass_with_change': tests_ok, 'demo_exit_with_change': rc1, 'demo_exit_without_change': rc0,
                                  'commands': ['scratch copy of /repo + git apply patch.diff; /venv/bin/python -m pytest -q -p no:cacheprovider',
                                               '/venv/bin/python demo.py <changed tree>  (exit 1)', '/venv/bin/python demo.py <unchanged tree>  (exit 0)']},
                    'checks_fired': caught, 'checks_undecided': undecided, 'first_run_verdict': verdict, 'verdict': verdict,
                    'note': 'demo.py takes the tree (a directory containing bronzebeard/) as its first argument'}
            try:
                old = json.load(open(os.path.join(d, 'meta.json')))
                if old.get('delivered_for'):
                    # relabelled by hand (the change breaks another property than the one it was delivered for): keep that
                    meta['delivered_for'], meta['breaks_property'], meta['note'] = old['delivered_for'], old['breaks_property'], old.get('note', meta['note'])
                if old.get('first_run_verdict'):
                    meta['first_run_verdict'] = old['first_run_verdict']
            except (OSError, ValueError):
                pass
            with open(os.path.join(d, 'meta.json'), 'w') as f:
                json.dump(meta, f, indent=1)
            print('kept in', d)
        return 0
    finally:
        shutil.rmtree(changed, ignore_errors=True)
        shutil.rmtree(clean, ignore_errors=True)


if __name__ == '__main__':
    sys.exit(main())
