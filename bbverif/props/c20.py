"""C20 - with -c every eligible instruction is compressed and nothing grows."""
import itertools

from ..core import Report, Finding, AnalysisError
from ..facts import Facts
from .. import layoutrules as LR, oracle, alignform
from ..comprel import CompRel
from ..layout import pipeline
from .c04 import check_rounds, check_structure

LEVEL = 'other'


def check_complete(rep, facts, rel, rule):
    """R20.1: every 32-bit instruction that equals the expansion of a legal non-hint RV32C instruction lies in the region of
    some rule (first match wins; whichever fires is correct by C04)."""
    total = 0
    for cm, spec in oracle.RVC.items():
        base, mapping = spec['expands']
        doms = [oracle.legal_values(op) if op['kind'] != 'regc' else list(range(8, 16)) for op in spec['operands']]
        for op, d in zip(spec['operands'], doms):
            for (alo, ahi, adelta) in op['alias']:
                pass
        cls, attrs = rel.item_fields(base)
        base_spec = oracle.RV32[base]
        args_attrs = facts.args_attrs(cls) if cls else None
        if cls is None or args_attrs is None:
            raise AnalysisError('no unique item class for expansion mnemonic {}'.format(base))
        role_attr = {op['role']: a for op, a in zip(base_spec['operands'], args_attrs)}
        # other spellings of the same operand that the 32-bit encoder accepts (alias windows derived from the encoder itself:
        # lui's unsigned upper range, or any wrap a change adds to an encoder): they produce the same word, so they are eligible too
        alias_cells = {}
        try:
            from ..encsum import all_summaries, derived_operand, canon
            sm = all_summaries(facts).get(base)
            if sm is not None:
                for attr, param in zip(args_attrs, sm.params):
                    info = derived_operand(sm, param)
                    if info and info.get('kind', 'int') != 'reg':
                        cells = [c for c in canon(info['cells']) if c[2] != 0]
                        if cells:
                            alias_cells[attr] = cells
        except AnalysisError:
            alias_cells = None
        if alias_cells is None:
            raise AnalysisError('{}: the accepted spellings of the operands of {} could not be derived from its encoder'.format(cm, base))
        missed = None
        n = 0
        for combo in itertools.product(*doms):
            ops = {op['role']: v for op, v in zip(spec['operands'], combo)}
            tup = {'name': base}
            for role, src in mapping.items():
                tup[role_attr[role]] = src[1] if isinstance(src, tuple) else ops[src]
            spellings = [tup]
            for attr, cells in alias_cells.items():
                cur = tup.get(attr)
                if not isinstance(cur, int):
                    continue
                for c in cells:
                    lo_, hi_, delta_, step_ = c[0], c[1], c[2], (c[3] if len(c) > 3 else 1)
                    orig = cur - delta_
                    if lo_ <= orig <= hi_ and (orig - lo_) % (step_ or 1) == 0:
                        alt = dict(tup)
                        alt[attr] = orig          # written as `orig`, encoded exactly like `cur`
                        spellings.append(alt)
            for t in spellings:
                n += 1
                if not any(ru.name in (base, None) and ru.holds(t) for ru in rel.rules):
                    missed = missed or (t, ops)
        total += n
        rep.check(missed is None, rule, '{}: all {} expansions of legal operand tuples are matched by a rule'.format(cm, n),
                  lambda cm=cm, missed=missed: Finding(rule, 'transform_compressible', 'criteria for ' + cm,
                                                       '{} {} is the expansion of the legal {} {} but no compression rule matches it: it stays 32 bits wide'.format(
                                                           missed[0]['name'], {k: v for k, v in missed[0].items() if k != 'name'}, cm, missed[1]),
                                                       line=rel.pa.fn.lineno))
    rep.analysed['eligible instructions enumerated'] = total


def check_monotone(rep, facts, rule):
    """R20.2: no transformation enlarges an item or moves a label up."""
    for compress in (True,):
        for name, node, inc, out in LR.class_flow(facts, compress):
            pa = LR.pass_analysis(facts, name, frozenset(inc))
            for r in pa.rows:
                if r['path'].end == 'raise':
                    continue
                d = r['delta']
                grow = r['appended'] - r['consumed']
                inst = '{} [{}]'.format(name, r['crit'][0] if r['crit'] else r['path'].cond_text()[-60:])
                if d.is_const() and grow.is_const():
                    ok = d.const >= 0 and grow.const <= 0
                elif any(facts.is_subclass(c, 'Align') for c in ((r['path'].facts.get(pa.item) or {}).get('isa') or ()) if c in facts.classes):
                    # an Align item: delta = alignment - padding with 0 <= padding <= alignment - 1 (normal form below, C09)
                    ok = True
                else:
                    ok = (grow + d).is_zero() and not d.terms
                    if not ok:
                        # sizes that are not constants: whether size() and the emitted bytes agree is the layout invariant (C03 /
                        # C09 decide it); the pass does the same with and without -c, so nothing about "shorter" follows either way
                        rep.note('{}: symbolic sizes {} -> {} (labels -{}) are not compared here'.format(inst, r['consumed'], r['appended'], d))
                        continue
                where = r['updates'][0][0]['node'] if r['updates'] else (r['app_values'][0][1] if r['app_values'] else pa.loop)
                rep.check(ok, rule, inst + ': size {} -> {}, labels -{}'.format(r['consumed'], r['appended'], d),
                          lambda name=name, r=r, where=where: Finding(rule, name, where,
                                                                    'on the path [{}] an item of {} bytes becomes {} bytes and later labels move by -({})'.format(
                                                                        r['path'].cond_text()[-100:], r['consumed'], r['appended'], r['delta']), line=getattr(where, 'lineno', None)),
                          nontrivial=bool(r['updates']))
    ci = facts.classes.get('Align')
    if ci is None or 'resolution_size' not in ci.methods:
        raise AnalysisError('anchor vanished: Align.resolution_size')
    try:
        ok, forms = alignform.padding_normal_form(ci.methods['resolution_size'])
    except alignform.Undecided as e:
        raise AnalysisError('Align.resolution_size undecided: {}'.format(e))
    if not ok and 'mask' in forms:
        ok = True      # x & (N - 1) is wrong for non powers of two (C09) but never exceeds N - 1: sizes stay monotone
    rep.check(ok, rule, 'align never grows: 0 <= padding <= N - 1 <= pessimistic size N',
              lambda: Finding(rule, 'Align.resolution_size', 'normal form', 'alignment padding may exceed the pessimistic size', line=ci.node.lineno))


def run(repo, tier):
    facts = Facts(repo.asm)
    rep = Report('C20', LEVEL,
                 'Completeness of the lifted compression relation: for every RVC instruction of the oracle, every 32-bit instruction that '
                 'equals its expansion with a legal, non-hint, non-reserved operand tuple (all register choices x every legal immediate, '
                 'enumerated over the lifted formulas, never over repository code) satisfies some rule of the criteria table.  Monotone '
                 'sizes: on every path of every pass label shifts are >= 0 and emitted bytes <= consumed bytes.  A compression round '
                 'follows pseudo-instruction expansion; dispatch chain exhaustive.')
    rep.trusted_base = ['CPython ast', 'bbverif.comprel / pathwalk', 'RVC oracle']
    rep.not_decided = ['"never longer" for whole programs with align additionally needs monotonicity of rounding up (a lemma outside the code)',
                       'eligibility of label-dependent operands (excluded by the statement)']
    rel = CompRel(facts)
    rep.count('criteria rules', len(rel.rules))
    check_complete(rep, facts, rel, 'R20.1.complete')
    for fac, field in rel.raw_compares:
        node = rel.factories[fac][2]
        rep.fail(Finding('R20.1.spelling', 'transform_compressible.' + fac, node,
                         'predicate {} compares the register operand `{}` as written: an eligible instruction whose registers are spelled differently (a0 vs x10) is not compressed'.format(fac, field),
                         line=node.lineno), instance=fac + ' ' + str(field))
    from ..comprel import check_operand_value
    check_operand_value(rep, rel, 'R20.1.operand-value')
    check_rounds(rep, facts, 'R20.3.rounds')
    try:
        check_monotone(rep, facts, 'R20.2.monotone')
    except AnalysisError as e:
        # the size rules need a pipeline they can follow; that must not mask a violation the rules above have established
        if not rep.findings:
            raise
        rep.note('R20.2.monotone not decided ({})'.format(str(e)[:160]))
    check_structure(rep, facts, rel, 'R20.4')
    rep.floor('criteria rules', 20)
    rep.floor('eligible instructions enumerated', 25000)
    return rep
