"""Abstract interpretation of chains of str.encode / bytes.decode with constant codec names (C10 R10.4).

The `string` directive turns source text into bytes in two steps: the lexer processes backslash escapes by a chain of codec
conversions, the string pass encodes the result.  The specification is

    emitted bytes == UTF-8( text denoted by the source spelling )

where a literal character denotes itself and a backslash escape denotes the character it names.  Every codec the model admits
(UTF-8/16/32, Latin-1, ASCII, unicode_escape, raw_unicode_escape, with the standard error handlers) is defined *piecewise* on
code-point ranges whose only break points are 0x80, 0x100, 0x800 and 0x10000, and on the escape grammar.  The abstract domain is
therefore the partition of input units into classes (ASCII, Latin-1 supplement, 2-byte BMP, 3-byte BMP, astral; and the escape
forms \\n-style, \\xHH, octal, \\uHHHH, \\UHHHHHHHH, each split by the class of the character it denotes; the backslash itself),
and the abstract transformer of a codec step on a class is obtained by applying the *library* codec (never repository code) to
representatives taken at both ends and inside each range.  A chain is correct iff it maps every class to the specified result;
a class on which it raises or produces something else is a violation; a codec or error handler outside the model is an
AnalysisError.
"""
import codecs

from .core import AnalysisError
from .pathwalk import is_const, show

MODELLED_CODECS = {'utf-8', 'iso8859-1', 'ascii', 'unicode-escape', 'raw-unicode-escape', 'utf-16', 'utf-16-le', 'utf-16-be',
                   'utf-32', 'utf-32-le', 'utf-32-be', 'utf-8-sig'}
MODELLED_ERRORS = {'strict', 'ignore', 'replace', 'backslashreplace', 'xmlcharrefreplace', 'namereplace', 'surrogateescape', 'surrogatepass'}

BS = '\\'


def _lit(chars):
    return [(c, c) for c in chars]


def _esc(fmt, cps):
    return [(BS + fmt.format(cp), chr(cp)) for cp in cps]


# (class name, [(source spelling, denoted text)])
CLASSES = [
    ('ASCII characters', _lit(['A', 'z', '0', ' ', '~', '#', '"', "'", '(', ','])),
    ('Latin-1 supplement characters (U+0080..U+00FF)', _lit(['\u0080', '©', 'é', 'ÿ'])),
    ('BMP characters with a 2-byte UTF-8 form (U+0100..U+07FF)', _lit(['Ā', 'Ω', '߿'])),
    ('BMP characters with a 3-byte UTF-8 form (U+0800..U+FFFF)', _lit(['ࠀ', '€', '日', '�'])),
    ('astral characters (U+10000..U+10FFFF)', _lit(['\U00010000', '\U0001f600', '\U0010ffff'])),
    ('the escaped backslash', [(BS + BS, BS)]),
    ('single-character escapes (\\n \\t \\r \\0 \\\' \\")', [(BS + 'n', '\n'), (BS + 't', '\t'), (BS + 'r', '\r'), (BS + '0', '\0'), (BS + "'", "'"), (BS + '"', '"')]),
    ('\\xHH escapes of ASCII characters', _esc('x{:02x}', [0x00, 0x41, 0x7f])),
    ('\\xHH escapes of Latin-1 characters', _esc('x{:02x}', [0x80, 0xe9, 0xff])),
    ('octal escapes', [(BS + '101', 'A'), (BS + '351', 'é')]),
    ('\\uHHHH escapes of ASCII characters', _esc('u{:04x}', [0x41, 0x7f])),
    ('\\uHHHH escapes of Latin-1 characters', _esc('u{:04x}', [0x80, 0xe9, 0xff])),
    ('\\uHHHH escapes of BMP characters', _esc('u{:04x}', [0x100, 0x7ff, 0x800, 0x20ac, 0xfffd])),
    ('\\UHHHHHHHH escapes of astral characters', _esc('U{:08x}', [0x10000, 0x1f600, 0x10ffff])),
    ('literal non-ASCII text next to an escape', [('é' + BS + 'n', 'é\n'), ('€' + BS + 'u20ac', '€€'),
                                                  ('\U0001f600' + BS + 'x41' + '日', '\U0001f600A日')]),
]
# texts as they are after escape processing (inputs of the emission / size chains)
DENOTED_CLASSES = [(name, sorted({d for _, d in pairs})) for name, pairs in CLASSES]


RESOLVE = [None]     # optional callback: symbolic value -> Python constant (module-level constants), set by the caller


def codec_name(value, what):
    if is_const(value) and isinstance(value[1], str):
        return value[1]
    if RESOLVE[0] is not None:
        try:
            v = RESOLVE[0](value)
        except Exception:
            v = None
        if isinstance(v, str):
            return v
    raise AnalysisError('{} is not a constant string: {}'.format(what, show(value)))


def make_op(kind, encoding, errors):
    try:
        norm = codecs.lookup(encoding).name
    except LookupError:
        raise AnalysisError('codec {!r} is not known to the codec-chain model'.format(encoding))
    if norm not in MODELLED_CODECS:
        raise AnalysisError('codec {!r} ({}) is outside the codec-chain model (its definition is not piecewise on the modelled classes)'.format(encoding, norm))
    if errors not in MODELLED_ERRORS:
        raise AnalysisError('error handler {!r} is outside the codec-chain model'.format(errors))
    return (kind, norm, errors, encoding)


def expand_star(args, what):
    """Positional arguments with `*<literal tuple / list>` spliced in (f(*('latin-1', 'backslashreplace')) is f('latin-1',
    'backslashreplace')); star-args of anything that is not a literal sequence are not understood."""
    out = []
    for a in args:
        if not (isinstance(a, tuple) and a and a[0] == 'star'):
            out.append(a)
            continue
        inner = a[1]
        while isinstance(inner, tuple) and inner and inner[0] == 'res':
            inner = inner[3]
        if inner[0] in ('tuple', 'list') and not any(e[0] == 'star' for e in inner[1]):
            out.extend(inner[1])
        elif is_const(inner) and isinstance(inner[1], (tuple, list)):
            out.extend(('const', x) for x in inner[1])
        else:
            if RESOLVE[0] is not None:
                try:
                    v = RESOLVE[0](inner)
                except Exception:
                    v = None
                if isinstance(v, (tuple, list)):
                    out.extend(('const', x) for x in v)
                    continue
            raise AnalysisError('{}: star-arguments are not a literal sequence: {}'.format(what, show(a)))
    return out


def _args(args, kwargs, what):
    enc, err = 'utf-8', 'strict'
    pos = expand_star(args, what)
    kw = dict(kwargs)
    if len(pos) > 2 or set(kw) - {'encoding', 'errors'}:
        raise AnalysisError('{}: unexpected arguments'.format(what))
    if pos:
        enc = codec_name(pos[0], what + ' codec')
    if len(pos) > 1:
        err = codec_name(pos[1], what + ' error handler')
    if 'encoding' in kw:
        enc = codec_name(kw['encoding'], what + ' codec')
    if 'errors' in kw:
        err = codec_name(kw['errors'], what + ' error handler')
    return enc, err


def split_chain(value):
    """(base value, [ops in application order]) where ops are the outermost encode / decode conversions of a symbolic value:
    x.encode(...), x.decode(...), codecs.encode/decode(x, ...), bytes(x, enc), str(x, enc)."""
    ops = []
    v = value
    while True:
        if v[0] == 'res':
            v = v[3]
            continue
        if v[0] == 'mcall' and v[2] in ('encode', 'decode'):
            if v[1] in (('name', 'str'), ('name', 'bytes')) and v[3]:
                # the unbound form str.encode(x, codec) / bytes.decode(x, codec)
                enc, err = _args(v[3][1:], v[4], v[1][1] + '.' + v[2])
                ops.insert(0, make_op(v[2], enc, err))
                v = v[3][0]
                continue
            if v[1] == ('name', 'codecs'):
                if not v[3]:
                    break
                enc, err = _args(v[3][1:], v[4], 'codecs.' + v[2])
                ops.insert(0, make_op(v[2], enc, err))
                v = v[3][0]
                continue
            enc, err = _args(v[3], v[4], '.' + v[2])
            ops.insert(0, make_op(v[2], enc, err))
            v = v[1]
            continue
        # codecs.escape_decode(b)[0] / `text, _ = codecs.escape_decode(b)`: the bytes-literal escape processor (bytes -> bytes)
        inner = v[1] if (v[0] == 'unpack' and v[2] == '0') or (v[0] == 'sub' and v[2] == ('const', 0)) else None
        while inner is not None and inner[0] == 'res':
            inner = inner[3]
        if inner is not None and inner[0] == 'mcall' and inner[1] == ('name', 'codecs') and inner[2] in ('escape_decode', 'escape_encode') and inner[3]:
            err = codec_name(inner[3][1], 'codecs.' + inner[2] + ' error handler') if len(inner[3]) > 1 else 'strict'
            if err not in MODELLED_ERRORS:
                raise AnalysisError('error handler {!r} is outside the codec-chain model'.format(err))
            ops.insert(0, ('bytes-' + inner[2], 'bytes-literal-escapes', err, inner[2]))
            v = inner[3][0]
            continue
        if v[0] == 'call' and v[1] in ('bytes', 'str') and (len(v[2]) >= 2 or (len(v[2]) == 1 and 'encoding' in dict(v[3]))):
            enc, err = _args(v[2][1:], v[3], v[1] + '(x, codec)')
            ops.insert(0, make_op('encode' if v[1] == 'bytes' else 'decode', enc, err))
            v = v[2][0]
            continue
        break
    return v, ops


def describe(ops):
    return ''.join(('.{}({!r}{})'.format(k, enc, '' if err == 'strict' else ', ' + repr(err)) if not k.startswith('bytes-') else ' -> codecs.{}() -> '.format(enc))
                   for k, _, err, enc in ops) or '(no conversion)'


def well_typed(ops, start):
    """Type ('str' | 'bytes') of the result of applying ops to a value of type `start`, or None when an op is applied to the wrong type."""
    t = start
    for k, _, _, _ in ops:
        if k.startswith('bytes-'):
            if t != 'bytes':
                return None
            continue
        if (k == 'encode') != (t == 'str'):
            return None
        t = 'bytes' if k == 'encode' else 'str'
    return t


def run(ops, value):
    """('ok', result) | ('error', exception class name) of the library codecs applied in order."""
    cur = value
    for k, norm, err, _ in ops:
        try:
            if k == 'bytes-escape_decode':
                cur = codecs.escape_decode(cur, err)[0]
            elif k == 'bytes-escape_encode':
                cur = codecs.escape_encode(cur, err)[0]
            else:
                cur = codecs.encode(cur, norm, err) if k == 'encode' else codecs.decode(cur, norm, err)
        except (UnicodeError, ValueError) as e:
            return 'error', type(e).__name__
    return 'ok', cur


def check_chain(ops, inputs, expected_of):
    """[(class name, input, expected, outcome)] for the classes on which the chain does not produce the expected result."""
    bad = []
    for name, samples in inputs:
        for s in samples:
            src = s[0] if isinstance(s, tuple) else s
            want = expected_of(s)
            status, got = run(ops, src)
            if status != 'ok' or got != want:
                bad.append((name, src, want, 'raises ' + got if status != 'ok' else repr(got)))
                break
    return bad
