"""Rules L1, L4, L5 and the pass-order effect analysis (MUT / BAKE / PEEK) shared by C03 and C08."""
import ast

from .core import AnalysisError, Finding
from .astutil import unparse, dotted, walk_no_nested
from .pathwalk import show, is_const, C, PathState
from .layout import Sizes, LinS, pipeline
from . import layoutrules as LR
from . import immsites as IS


def check_L1(report, facts, rule):
    """resolve_labels: labels[name] = running sum of size() of the items before the label."""
    pa = LR.pass_analysis(facts, 'resolve_labels')
    n = 0
    if pa.pos_var is None:
        # a counter that visibly starts elsewhere is a finding; no recognisable counter at all is no verdict (raised in there)
        require_offset_from_zero(report, pa, pa.fn, rule, 'resolve_labels', 'offset counting starts at 0',
                                 'no running offset that starts at 0 and advances by the size of each item')
        report.count('label definition sites', sum(len(r['acc'].label_sets) for r in pa.rows))
        return
    for r in pa.rows:
        for key, val, node, idx in r['acc'].label_sets:
            n += 1
            adv_before = [a for a in r['acc'].advances if a[4] < idx]
            ok = val == ('lv', pa.pos_var) and not adv_before and key == ('attr', pa.item, 'name')
            if not ok and not plain_offset_value(val):
                # recorded from something the rules do not see through (the field of a helper object, a call): no verdict
                raise AnalysisError('resolve_labels: a label is recorded as {}, which is not followed back to the running offset'.format(show(val)[:80]))
            report.check(ok, rule, 'labels[item.name] = offset reached so far',
                         lambda node=node, val=val: Finding(rule, 'resolve_labels', node,
                                                            'a label is recorded as {} instead of the running offset at its definition'.format(show(val)), line=node.lineno))
            f = r['path'].facts.get(pa.item)
            isa = f['isa'] if f else set()
            if not isa:
                # which items reach this statement is decided by a test the path facts do not capture
                raise AnalysisError('resolve_labels: the class of the items that define labels is not established on the path [{}]'.format(r['path'].cond_text()[-80:]))
            report.check(any(facts.is_subclass(c, 'Label') for c in isa if c in facts.classes), rule, 'only Label items define labels',
                         lambda node=node: Finding(rule, 'resolve_labels', node, 'labels are defined from items that are not Label', line=node.lineno))
    report.count('label definition sites', n)
    # position starts at 0
    fn = facts.funcs['resolve_labels']
    require_offset_from_zero(report, pa, fn, rule, 'resolve_labels', 'offset counting starts at 0',
                             'no running offset that starts at 0 and advances by the size of each item')


def plain_offset_value(v):
    """A value built from local variables and integer constants by + / - only."""
    if is_const(v):
        return isinstance(v[1], int)
    if v[0] in ('lv', 'havoc'):
        return True
    if v[0] == 'bin' and v[1] in ('+', '-'):
        return plain_offset_value(v[2]) and plain_offset_value(v[3])
    return False


def require_offset_from_zero(report, pa, fn, rule, fname, text, message):
    """The pass keeps a running offset that starts at 0.  A counter that visibly starts elsewhere is a finding; a pass whose
    bookkeeping is not a local counter at all (a helper object, a closure) is not understood: no verdict."""
    if pa.pos_var is not None:
        report.ok(rule, text)
        return
    nonzero = None
    for st in pa.loop_fn.body:
        if st is pa.loop:
            break
        if isinstance(st, ast.Assign) and len(st.targets) == 1 and isinstance(st.targets[0], ast.Name) and isinstance(st.value, ast.Constant) \
                and isinstance(st.value.value, int) and not isinstance(st.value.value, bool) and st.value.value != 0:
            name = st.targets[0].id
            if any(isinstance(n, ast.AugAssign) and isinstance(n.target, ast.Name) and n.target.id == name for n in ast.walk(pa.loop)):
                nonzero = st
    if nonzero is not None:
        report.fail(Finding(rule, fname, nonzero, message + ' (the counter starts at {})'.format(nonzero.value.value), line=nonzero.lineno), instance=text)
        return
    raise AnalysisError('{}: no local running offset (a counter set to 0 before the item loop and advanced inside it) is recognised'.format(fname))


def position_starts_at_zero(report, facts, fname, rule):
    fn = facts.funcs.get(fname)
    if fn is None:
        raise AnalysisError('anchor vanished: pass {}'.format(fname))
    pa = LR.pass_analysis(facts, fname)
    require_offset_from_zero(report, pa, fn, rule, fname, '{}: offset counting starts at 0'.format(fname),
                             'the pass has no running offset that starts at 0 and advances with the emitted items')


def method_return_lin(facts, cls, mname):
    """LinS of the value returned by a small method on its non-raising paths, over symbols of its parameters."""
    ci = facts.classes.get(cls)
    if ci is None or mname not in ci.methods:
        raise AnalysisError('anchor vanished: {}.{}'.format(cls, mname))
    m = ci.methods[mname]
    paths = IS.function_paths(facts, m)
    sz = Sizes(facts)
    outs = []
    for p in paths:
        if p.end != 'return':
            continue
        val = canonical_lookup(facts, [e for e in p.events if e[0] == 'return'][-1][1])
        outs.append((sz.lin(val, p), p, val))
    return m, outs


def canonical_lookup(facts, val):
    """Equivalent spellings inside the small eval methods brought to one form: `env.get(key)` whose result is used as a number on a
    returning path is `env[key]` (a missing key would have made it None; the None test in front raises, like the original
    membership test); `x.eval(position, env, line=line)` is the positional call."""
    from .layout import map_value
    names = None
    for ci in facts.classes.values():
        m = ci.methods.get('eval')
        if m is not None and len(m.args.args) == 4:
            names = [a.arg for a in m.args.args][1:]
            break

    def step(t):
        if t[0] == 'mcall' and t[2] == 'get' and len(t[3]) == 1 and not (t[4] if len(t) > 4 else ()):
            return ('sub', t[1], t[3][0])
        if t[0] == 'mcall' and t[2] == 'eval' and len(t) > 4 and t[4] and names:
            kw = dict(t[4])
            args = list(t[3])
            for nm in names[len(args):]:
                if nm not in kw:
                    return t
                args.append(kw.pop(nm))
            if not kw:
                return ('mcall', t[1], 'eval', tuple(args), ())
        return t
    return map_value(val, step)


def env_precedence(env, cname, lname):
    """Which table wins for a name defined in both, for an environment built from the constants and the label table:
    'constants-first' (ChainMap(constants, labels), {**labels, **constants}), 'labels-first' (the reverse), None = not understood."""
    cv, lv = ('name', cname), ('name', lname)
    if env[0] == 'call' and env[1] in ('ChainMap', 'collections.ChainMap') and not env[3] and len(env[2]) == 2:
        if env[2] == (cv, lv):
            return 'constants-first'
        if env[2] == (lv, cv):
            return 'labels-first'
    if env[0] == 'dict' and len(env[1]) == 2 and all(k == ('opaque', '**') for k, _ in env[1]):
        vals = tuple(v for _, v in env[1])          # later entries override earlier ones
        if vals == (lv, cv):
            return 'constants-first'
        if vals == (cv, lv):
            return 'labels-first'
    return None


def check_L4(report, facts, rule):
    """Final values: evaluated at the item's own final offset against ChainMap(constants, labels); Offset = label - position,
    Position = base + label."""
    pa = LR.pass_analysis(facts, 'resolve_immediates')
    sites = 0
    from .layout import table_param
    cname = table_param(facts, 'resolve_immediates', 'constants') or 'constants'
    lname = table_param(facts, 'resolve_immediates', 'labels') or 'labels'
    writes_labels = any(r['acc'].label_updates or r['acc'].label_sets or r['acc'].label_other for r in pa.rows)
    for r in pa.rows:
        p = r['path']
        for ev in p.events:
            if ev[0] != 'value':
                continue
            v = ev[1]
            pos = env = None
            if v[0] == 'mcall' and v[2] == 'eval' and len(v[3]) == 3 and v[1] == ('attr', pa.item, 'imm'):
                pos, env = v[3][0], v[3][1]
            elif v[0] == 'call' and v[1] in facts.funcs and len(v[2]) >= 3 and v[2][0] == pa.item:
                pos, env = v[2][1], v[2][2]
            else:
                continue
            sites += 1
            node = ev[2]
            # on a path that knows the item is the jalr half of an auipc pair, a constant displacement is R-auipc's business
            base, k = pos, 0
            while base[0] == 'bin' and base[1] in ('+', '-') and is_const(base[3]) and isinstance(base[3][1], int):
                k += base[3][1] if base[1] == '+' else -base[3][1]
                base = base[2]
            auipc_path = any(IS.contains(t, C('is_auipc_jump')) or IS.contains(t, ('attr', pa.item, 'is_auipc_jump'))
                             for t, pol, _ in p.conds if pol)
            if auipc_path and base == ('lv', pa.pos_var):
                pos = base
            report.check(pos == ('lv', pa.pos_var), rule + '.position', 'resolve_immediates evaluates at the item\'s own start offset',
                         lambda node=node, pos=pos: Finding(rule + '.position', 'resolve_immediates', node,
                                                            'immediates are evaluated at {} instead of the offset at which the item starts'.format(show(pos)), line=node.lineno))
            prec = env_precedence(env, cname, lname)
            if prec is None or (env[0] == 'dict' and writes_labels):
                # neither of the understood spellings (ChainMap(constants, labels); {**labels, **constants} in a pass that leaves the
                # table alone): which table wins for a name defined in both is not established
                raise AnalysisError('resolve_immediates: the evaluation environment {} is not understood'.format(show(env)[:80]))
            good_env = prec == 'constants-first'
            report.check(good_env, rule + '.env', 'resolve_immediates evaluates against ChainMap(constants, labels)',
                         lambda node=node, env=env: Finding(rule + '.env', 'resolve_immediates', node,
                                                            'immediates are evaluated against {}'.format(show(env)), line=node.lineno))
    report.count('baking evaluation sites', sites)
    # what is stored into the item is the value evaluated on this very path (at this item's offset): a value taken from a
    # table filled at other positions (a memo keyed by the expression's text) is stale for every position-dependent operand
    for r in pa.rows:
        p = r['path']
        if p.end == 'raise':
            continue
        for v, at in IS.stored_immediates(p):
            ev = (None, None, None, v, at)
            while v[0] == 'res':
                v = v[3]
            evals = IS.find_all(v, lambda t: (t[0] == 'mcall' and t[2] == 'eval' and len(t[3]) == 3) or
                                (t[0] == 'call' and t[1] in facts.funcs and len(t[2]) >= 2 and t[2][0] == pa.item))
            if evals:
                report.ok(rule + '.bake', 'the stored immediate is the value evaluated on this path')
                continue
            if v[0] == 'sub':
                report.fail(Finding(rule + '.bake', 'resolve_immediates', ev[4],
                                    'the immediate stored in the item is read from {} instead of being the value evaluated at the item\'s own offset: '
                                    'an operand that depends on the position (%offset inside %hi / %lo of a far call, %position) gets the value of another site'.format(show(v)[:60]),
                                    line=getattr(ev[4], 'lineno', None)), instance='stored immediate is evaluated here')
            else:
                raise AnalysisError('resolve_immediates: the value stored as the immediate ({}) is not followed back to an evaluation'.format(show(v)[:80]))
    position_starts_at_zero(report, facts, 'resolve_immediates', rule + '.position')
    # Offset.eval / Position.eval normal forms
    m, outs = method_return_lin(facts, 'Offset', 'eval')
    params = [a.arg for a in m.args.args]
    posn, envn = ('name', params[1]), ('name', params[2])
    want = LinS({('sub', envn, ('attr', ('name', 'self'), 'reference')): 1, posn: -1})
    report.check(len(outs) >= 1 and all(o[0] == want for o in outs), rule + '.offset', 'Offset.eval == env[reference] - position',
                 lambda: Finding(rule + '.offset', 'Offset.eval', m, '%offset evaluates to {} instead of label - position'.format(
                     '; '.join(repr(o[0]) for o in outs)), line=m.lineno))
    m, outs = method_return_lin(facts, 'Position', 'eval')
    params = [a.arg for a in m.args.args]
    posn, envn, linen = ('name', params[1]), ('name', params[2]), ('name', params[3])
    base = ('mcall', ('attr', ('name', 'self'), 'expr'), 'eval', (posn, envn, linen), ())
    want = LinS({('sub', envn, ('attr', ('name', 'self'), 'reference')): 1, base: 1})
    report.check(len(outs) >= 1 and all(o[0] == want for o in outs), rule + '.position-modifier', 'Position.eval == base + env[reference]',
                 lambda: Finding(rule + '.position-modifier', 'Position.eval', m, '%position evaluates to {} instead of base + label'.format(
                     '; '.join(repr(o[0]) for o in outs)), line=m.lineno))
    # Arithmetic.eval looks names up in the same env
    ci = facts.classes.get('Arithmetic')
    m = ci.methods.get('eval') if ci else None
    if m is None:
        raise AnalysisError('anchor vanished: Arithmetic.eval')
    params = [a.arg for a in m.args.args]
    if len(params) < 3:
        raise AnalysisError('Arithmetic.eval does not take (position, env, line)')
    # every builtin eval(...) reached from Arithmetic.eval - directly or through methods of the class the environment is handed
    # to - must evaluate self.expr with that environment as its namespace
    found = []          # (call node, verdict True / False / None)
    seen = set()

    def scan(meth, env_names):
        key = (meth.name, tuple(sorted(env_names)))
        if key in seen:
            return
        seen.add(key)
        for n in ast.walk(meth):
            if not isinstance(n, ast.Call):
                continue
            if dotted(n.func) == 'eval':
                if not n.args or unparse(n.args[0]) != 'self.expr' or n.keywords:
                    found.append((n, None))
                    continue
                ns = n.args[2] if len(n.args) == 3 else None
                if isinstance(ns, ast.Name) and ns.id not in env_names:
                    via = local_alias(meth, ns.id, env_names)
                    if via is not False:
                        found.append((n, via))
                        continue
                if isinstance(ns, ast.Name) and ns.id in env_names:
                    found.append((n, True))
                elif ns is None or not any(isinstance(x, ast.Name) and x.id in env_names for x in ast.walk(ns)):
                    found.append((n, False))      # names are resolved in something that is not the environment given
                else:
                    found.append((n, None))       # derived from the environment in a way that is not followed
            elif isinstance(n.func, ast.Attribute) and isinstance(n.func.value, ast.Name) and n.func.value.id == 'self' and n.func.attr in ci.methods:
                callee = ci.methods[n.func.attr]
                cparams = [a.arg for a in callee.args.args][1:]
                passed = set()
                for cp, a in zip(cparams, n.args):
                    if isinstance(a, ast.Name) and a.id in env_names:
                        passed.add(cp)
                for kw in n.keywords:
                    if kw.arg and isinstance(kw.value, ast.Name) and kw.value.id in env_names:
                        passed.add(kw.arg)
                scan(callee, passed)
    scan(m, {params[2]})
    if not found:
        raise AnalysisError('Arithmetic.eval: no eval(self.expr, ..) is reached from it: how names are resolved is not understood')
    if any(v is None for _, v in found) and not any(v is False for _, v in found):
        raise AnalysisError('Arithmetic.eval: the namespace of `{}` is not followed back to the environment parameter'.format(
            unparse(next(n for n, v in found if v is None))[:80]))
    bad = [n for n, v in found if v is False]
    report.check(not bad, rule + '.arith', 'Arithmetic.eval resolves names in the environment it is given',
                 lambda: Finding(rule + '.arith', 'Arithmetic.eval', bad[0],
                                 'the arithmetic expression is not evaluated with the given environment as its namespace', line=bad[0].lineno))


def local_alias(fn, name, env_names):
    """Is the local `name` of `fn` the environment parameter under another name?  True: every binding is the parameter itself
    (`x = env`, `x = env if env is not None else {}`, `x = env or {}`); None: bound from the parameter in a way that is not
    followed; False: its bindings never mention the parameter."""
    def is_env(e):
        return isinstance(e, ast.Name) and e.id in env_names

    def empty(e):
        return (isinstance(e, ast.Dict) and not e.keys) or (isinstance(e, ast.Call) and isinstance(e.func, ast.Name) and e.func.id == 'dict' and not e.args and not e.keywords)
    verdicts = []
    for st in ast.walk(fn):
        if isinstance(st, ast.Assign) and any(isinstance(t, ast.Name) and t.id == name for t in st.targets):
            v = st.value
            if is_env(v):
                verdicts.append(True)
            elif isinstance(v, ast.IfExp) and ((is_env(v.body) and empty(v.orelse)) or (is_env(v.orelse) and empty(v.body))) \
                    and all(is_env(x) or not isinstance(x, ast.Name) for x in ast.walk(v.test)):
                verdicts.append(True)
            elif isinstance(v, ast.BoolOp) and isinstance(v.op, ast.Or) and len(v.values) == 2 and is_env(v.values[0]) and empty(v.values[1]):
                verdicts.append(True)
            elif any(is_env(x) for x in ast.walk(v)):
                verdicts.append(None)
            else:
                verdicts.append(False)
        elif isinstance(st, (ast.AugAssign, ast.For, ast.With, ast.NamedExpr)) and any(isinstance(x, ast.Name) and x.id == name and isinstance(x.ctx, ast.Store) for x in ast.walk(st)):
            verdicts.append(None)
    if not verdicts:
        return False
    if all(v is True for v in verdicts):
        return True
    if all(v is False for v in verdicts):
        return False
    return None


def check_L5(report, facts, rule):
    """labels is never rebound inside a pass, and assemble hands the caller's dict to every pass."""
    from .layout import table_param
    done = set()
    for name, guard, node, args, call in pipeline(facts):
        for fname in pass_functions(name, call):
            fn = facts.funcs.get(fname)
            if fn is None or fname in done:
                continue
            done.add(fname)
            lname = table_param(facts, fname, 'labels')
            if lname is None:
                continue
            bad = []
            for n in ast.walk(fn):
                if isinstance(n, ast.Name) and n.id == lname and isinstance(n.ctx, (ast.Store, ast.Del)):
                    bad.append(n)
            report.check(not bad, rule, '{}: parameter `{}` never rebound'.format(fname, lname),
                         lambda bad=bad, fname=fname, lname=lname: Finding(rule, fname, getattr(bad[0], '_parent', bad[0]),
                                                                          'the pass rebinds `{}`: its updates no longer reach the table the caller reads'.format(lname), line=bad[0].lineno))
    # assemble hands one and the same table to every pass that takes `labels`: the caller's dict when one is given
    from .layout import pass_pipeline
    pl = pass_pipeline(facts)
    afn = facts.funcs['assemble']
    n = 0
    # `if labels is None: labels = {}` forks the evaluation: on one path every pass gets the caller's dict, on the other an object
    # created in this call.  A fresh object is fine on a path as long as the caller's dict is what the pass gets on another one.
    seen_values = {}
    from .layout import item_passes as _ip
    for value, calls in pl.all_paths():
        for nm, c, its in _ip(facts, calls):
            f = facts.funcs.get(c.name)
            if f is None:
                continue
            params = [a.arg for a in f.args.args]
            lname = labels_param(facts, c.name)
            if lname in params and params.index(lname) < len(c.args):
                seen_values.setdefault(c.name, set()).add(c.args[params.index(lname)])
    for value, calls, assumed in pl.all_paths_with_assumptions():
        none_path = any(none_test(text, 'labels') == ('is-none' if outcome else 'is-not-none') for text, outcome in assumed
                        if none_test(text, 'labels') is not None)
        tables = []
        from .layout import item_passes
        for nm, c, its in item_passes(facts, calls):
            f = facts.funcs.get(c.name)
            if f is None:
                continue
            params = [a.arg for a in f.args.args]
            lname = labels_param(facts, c.name)
            if lname not in params:
                continue
            idx = params.index(lname)
            v = c.args[idx] if idx < len(c.args) else dict(c.kwargs).get(lname) if not isinstance(c.kwargs, dict) else c.kwargs.get(lname)
            tables.append((c, v))
        for c, v in tables:
            n += 1
            ok = v is not None and (caller_table(v, 'labels') or (v[0] == 'ref' and none_path and ('param', 'labels') in seen_values.get(c.name, set())))
            report.check(ok, rule, 'compress={}: {} receives the caller\'s labels dict (a fresh one only when none is given)'.format(value, c.name),
                         lambda c=c, v=v: Finding(rule, 'assemble', c.node, '{} does not receive the label table of this assemble() call (it gets {})'.format(
                             c.name, v[:2] if v else None), line=getattr(c.node, 'lineno', afn.lineno)))
            report.check(v == tables[0][1], rule, 'compress={}: {} receives the same table as {}'.format(value, c.name, tables[0][0].name),
                         lambda c=c: Finding(rule, 'assemble', c.node, '{} is handed a different label table than {}'.format(c.name, tables[0][0].name),
                                             line=getattr(c.node, 'lineno', afn.lineno)), nontrivial=False)
    report.count('label table hand-overs', n)


def pass_functions(name, call):
    """The functions behind one row of the pipeline: the listed name, the function finally called and the wrappers in between."""
    out = [name]
    if call is not None:
        for x in tuple(call.via) + (call.name,):
            if x not in out:
                out.append(x)
    return out


def labels_param(facts, fname):
    """The parameter of `fname` that holds the label table: the one that receives assemble's `labels` on an evaluated path; a
    parameter literally called `labels` otherwise (a pass that is handed some other object under that name must still be
    reported)."""
    from .layout import table_param
    f = facts.funcs.get(fname)
    params = [a.arg for a in f.args.args] if f is not None else []
    return table_param(facts, fname, 'labels') or ('labels' if 'labels' in params else None)


def param_holds_labels(facts, fname, pname):
    """Does parameter `pname` of pass `fname` receive the label table (as opposed to the constants table) from assemble?
    True / False, or None when the pass is not called with that parameter on any evaluated path."""
    from .layout import pass_pipeline, item_passes
    from .passorder import origins
    f = facts.funcs.get(fname)
    if f is None:
        return None
    params = [a.arg for a in f.args.args]
    if pname not in params:
        return None
    idx = params.index(pname)
    verdict = None
    for value, calls in pass_pipeline(facts).all_paths():
        for nm, c, its in item_passes(facts, calls):
            if c.name != fname and nm != fname:
                continue
            v = c.args[idx] if idx < len(c.args) else None
            if v is None:
                continue
            leaves = origins(v)
            hit = any(l == ('param', 'labels') for l in leaves)
            verdict = bool(verdict) or hit
    return verdict


def caller_table(v, pname):
    """The abstract value is the caller's argument `pname`, replaced by an object created in this call exactly when it is None."""
    if v == ('param', pname):
        return True
    if v[0] == 'choice':
        a, b = v[2], v[3]
        kind = none_test(str(v[1]), pname)
        if kind == 'is-not-none':
            return a == ('param', pname) and b[0] == 'ref'
        if kind == 'is-none':
            return b == ('param', pname) and a[0] == 'ref'
    return False


def none_test(text, pname):
    """'is-none' / 'is-not-none' when the test (source text) compares the parameter with None - either operand order, `is` or
    `==`, possibly under `not` - else None."""
    try:
        node = ast.parse(text.strip(), mode='eval').body
    except SyntaxError:
        return None
    neg = False
    while isinstance(node, ast.UnaryOp) and isinstance(node.op, ast.Not):
        node, neg = node.operand, not neg
    if not (isinstance(node, ast.Compare) and len(node.ops) == 1):
        return None
    l, r = node.left, node.comparators[0]
    is_p = lambda e: isinstance(e, ast.Name) and e.id == pname
    is_none = lambda e: isinstance(e, ast.Constant) and e.value is None
    if not ((is_p(l) and is_none(r)) or (is_none(l) and is_p(r))):
        return None
    if isinstance(node.ops[0], (ast.Is, ast.Eq)):
        positive = True
    elif isinstance(node.ops[0], (ast.IsNot, ast.NotEq)):
        positive = False
    else:
        return None
    return 'is-none' if positive != neg else 'is-not-none'


def pass_effects(facts):
    """{pass name: set of effects} with MUT (writes labels), BAKE (stores a label-dependent evaluation into an item)."""
    out = {}
    sites = IS.eval_sites(facts)
    item_sites = [s for s in sites if s.recv[0] == 'attr' and s.recv[2] == 'imm']
    wr = IS.wrappers(facts, item_sites)
    wcalls = IS.wrapper_call_sites(facts, wr)
    for name, guard, node, args, tgt in pipeline(facts):
        if name in out or name in ('read_lines', 'resolve_blobs'):
            continue
        eff = set()
        behind = pass_functions(name, tgt)
        in_pass = lambda fn: any(fn == b or fn.startswith(b + '.') for b in behind)
        pa = LR.pass_analysis(facts, name)
        for r in pa.rows:
            if r['acc'].label_updates or r['acc'].label_sets or r['acc'].label_other:
                eff.add('MUT')
            # a value computed from the running offset is stored into an emitted item (align padding): it is only right if no
            # later pass changes the size of anything before it
            if pa.pos_var is not None:
                for val, n in r['app_values']:
                    dep = offset_dependence(pa, r['path'], val)
                    if dep == 'data':
                        eff.add('BAKE')
                        eff.add('POSBAKE')
                    elif dep == 'opaque':
                        eff.add('POS?')       # the offset goes into a call that is not followed (a local search helper): what comes back is not known
        for s in sites:
            if in_pass(s.fn):
                uses_labels = IS.contains(s.env, ('name', pa.labels_name)) or s.env[0] == 'name'
                if s.kind == 'BAKE' and uses_labels:
                    eff.add('BAKE')
                    eff.add('EVALBAKE')
                elif s.kind in ('PEEK', 'RETURN') and uses_labels:
                    eff.add('PEEK')
        for c in wcalls:
            if in_pass(c['fn']):
                eff.add('BAKE' if c['kind'] == 'BAKE' else 'PEEK')
                if c['kind'] == 'BAKE':
                    eff.add('EVALBAKE')
        out[name] = eff
    return out


def label_writing_passes(facts):
    """Names of the passes that may still move labels: those ordered before the first pass that bakes label-dependent values
    into items, on both arms of `compress` (L3: once values are baked nothing may move).  Derived from the effects of the passes,
    not from their names."""
    eff = pass_effects(facts)
    before, after = set(), set()
    for compress in (False, True):
        order = [n for n, g, node, a, t in pipeline(facts) if g == 'always' or (g == 'compress' and compress)]
        bakes = [i for i, n in enumerate(order) if 'EVALBAKE' in eff.get(n, ())]
        if not bakes:
            raise AnalysisError('effect analysis found no BAKE pass')
        before |= set(order[:bakes[0]])
        after |= set(order[bakes[0]:])
    return before - after


def offset_dependence(pa, path, val):
    """How an emitted item depends on the running offset: 'data' - the offset (or arithmetic on it, with the methods of the item
    followed) is stored in the item; 'opaque' - the offset only goes into calls that are not followed (a local closure that looks a
    rule up at this offset and returns its name); None - not at all."""
    pos = ('lv', pa.pos_var)
    if not IS.contains(val, pos):
        return None
    try:
        val = pa.sizes.resolve(val, path)
    except AnalysisError:
        pass
    found = {'data': False, 'opaque': False}
    from .pathwalk import imm_eval_wrappers
    wrappers = imm_eval_wrappers(pa.facts)
    methods = set()
    for ci in pa.facts.classes.values():
        methods.update(ci.methods)

    def walk(t, hidden):
        if t == pos:
            found['opaque' if hidden else 'data'] = True
            return
        if not isinstance(t, tuple):
            return
        k = t[0] if t and isinstance(t[0], str) else None
        inside = hidden
        if k == 'callv' or (k == 'call' and isinstance(t[1], str) and t[1] not in LR.PURE_BUILTINS) or (k == 'mcall' and len(t) > 2 and t[2] in methods):
            inside = True
            if k == 'call' and t[1] in wrappers:
                inside = hidden      # the evaluation of an immediate at this offset: understood (a baking site)
        for x in t:
            if isinstance(x, tuple):
                walk(x, inside)
    walk(val, False)
    return 'data' if found['data'] else ('opaque' if found['opaque'] else None)


def check_position_frozen(report, facts, rule):
    """A pass that stores a function of the running byte offset into the items it emits (align padding) must not be followed by
    a pass that still changes item sizes: the padding would no longer bring the offset to the boundary."""
    eff = pass_effects(facts)
    n = 0
    for compress in (False, True):
        order = [(nm, node) for nm, g, node, a, t in pipeline(facts) if g == 'always' or (g == 'compress' and compress)]
        for b, (nm, node) in enumerate(order):
            if 'POS?' in eff.get(nm, ()) and 'POSBAKE' not in eff.get(nm, ()) and any('MUT' in eff.get(order[m][0], ()) for m in range(b + 1, len(order))):
                report.undecided('{}: the running offset goes into a call that is not followed and whose result is stored in the emitted item; whether the item '
                                 'depends on the offset is not established'.format(nm))
            if 'POSBAKE' not in eff.get(nm, ()):
                continue
            n += 1
            late = [order[m][0] for m in range(b + 1, len(order)) if 'MUT' in eff.get(order[m][0], ())]
            report.check(not late, rule, 'compress={}: no pass changes item sizes after {} has fixed offset-dependent bytes'.format(compress, nm),
                         lambda nm=nm, late=late, node=node: Finding(rule, 'assemble', node,
                                                                  '{} emits bytes computed from the running offset, but {} still change(s) item sizes afterwards: the padding no longer '
                                                                  'ends on the requested boundary'.format(nm, late), line=node.lineno))
    report.count('offset-dependent emission passes', n)


def check_bake_after_mut(report, facts, rule):
    eff = pass_effects(facts)
    for compress in (False, True):
        order = [(n, node) for n, g, node, a, t in pipeline(facts) if g == 'always' or (g == 'compress' and compress)]
        muts = [i for i, (n, _) in enumerate(order) if 'MUT' in eff.get(n, ())]
        bakes = [i for i, (n, _) in enumerate(order) if 'BAKE' in eff.get(n, ())]
        if not bakes or not muts:
            raise AnalysisError('effect analysis found no {} pass'.format('BAKE' if not bakes else 'MUT'))
        for b in bakes:
            late = [order[m][0] for m in muts if m > b]
            report.check(not late, rule, 'compress={}: {} runs after the last label-moving pass'.format(compress, order[b][0]),
                         lambda b=b, late=late: Finding(rule, 'assemble', order[b][1],
                                                        'label-dependent values are baked by {} before {} still move labels'.format(order[b][0], late),
                                                        line=order[b][1].lineno))
    report.sample({'effects': {k: sorted(v) for k, v in eff.items()}})
    return eff


SCALAR_BUILTINS = {'len', 'bool', 'str', 'repr', 'sum', 'min', 'max', 'any', 'all', 'isinstance', 'id', 'hash', 'int', 'format', 'sorted', 'list', 'tuple', 'set', 'frozenset'}
MAPPING_COPIES = {'dict', 'ChainMap', 'collections.ChainMap', 'OrderedDict', 'collections.OrderedDict', 'copy.copy', 'copy.deepcopy', 'copy', 'deepcopy',
                  'MappingProxyType', 'types.MappingProxyType'}


def table_derivative(v, labels):
    """What a local bound to an expression over the label table is: 'view' (the table itself / a ChainMap over it), 'copy' (a new
    mapping filled from it), 'scalar' (a number, text, flag or key list computed from it - never an evaluation environment),
    None = not understood."""
    is_labels = lambda e: isinstance(e, ast.Name) and e.id == labels
    if is_labels(v):
        return 'view'
    if isinstance(v, ast.Call):
        d = dotted(v.func)
        if d in ('ChainMap', 'collections.ChainMap') and any(is_labels(a) for a in v.args):
            return 'view'
        if d in SCALAR_BUILTINS:
            return 'scalar'
        if d in MAPPING_COPIES:
            return 'copy'
        if isinstance(v.func, ast.Attribute) and is_labels(v.func.value):
            if v.func.attr == 'copy':
                return 'copy'
            if v.func.attr in ('get', 'keys', 'values', 'items', '__len__', '__contains__'):
                return 'scalar'
        if isinstance(v.func, ast.Attribute) and v.func.attr in ('format', 'join') and isinstance(v.func.value, ast.Constant):
            return 'scalar'
        return None
    if isinstance(v, (ast.Dict, ast.DictComp)):
        return 'copy'
    if isinstance(v, (ast.Compare, ast.JoinedStr, ast.ListComp, ast.SetComp, ast.GeneratorExp)) or (isinstance(v, ast.UnaryOp) and isinstance(v.op, ast.Not)):
        return 'scalar'
    if isinstance(v, ast.Subscript) and is_labels(v.value):
        return 'scalar'
    return None


def check_live_env(report, facts, rule):
    """Every environment handed to an evaluation inside a pass that also moves labels must be a *live view* of the label
    table (ChainMap(constants, labels) or the dict itself): a copy taken before the loop goes stale as soon as the pass shifts
    labels, so later decisions in the same pass are taken on offsets that are no longer true."""
    n = 0
    seen_fns = set()
    rows = [(fname, guard) for name, guard, node, args, tgt in pipeline(facts) for fname in pass_functions(name, tgt)]
    for name, guard in rows:
        fn = facts.funcs.get(name)
        if fn is None or name in seen_fns:
            continue
        seen_fns.add(name)
        params = [a.arg for a in fn.args.args]
        LABELS = labels_param(facts, name)
        if LABELS is None or LABELS not in params:
            continue
        mutates = any(isinstance(c, ast.Call) and isinstance(c.func, ast.Attribute) and c.func.attr in ('update', '__setitem__', 'pop', 'clear')
                      and isinstance(c.func.value, ast.Name) and c.func.value.id == LABELS for c in ast.walk(fn)) or \
            any(isinstance(s, (ast.Assign, ast.AugAssign)) and any(isinstance(t, ast.Subscript) and isinstance(t.value, ast.Name) and t.value.id == LABELS
                                                                  for t in (s.targets if isinstance(s, ast.Assign) else [s.target])) for s in ast.walk(fn))
        # locals whose definition mentions labels
        for st in ast.walk(fn):
            if not (isinstance(st, ast.Assign) and len(st.targets) == 1 and isinstance(st.targets[0], ast.Name)):
                continue
            v = st.value
            mentions = any(isinstance(x, ast.Name) and x.id == LABELS for x in ast.walk(v))
            if not mentions or st.targets[0].id == LABELS:
                continue
            var = st.targets[0].id
            # is this local passed on as an argument of a call (an environment), as opposed to labels.update(<it>)?
            used_as_env = False
            for c in ast.walk(fn):
                if isinstance(c, ast.Call):
                    if isinstance(c.func, ast.Attribute) and c.func.attr == 'update' and isinstance(c.func.value, ast.Name) and c.func.value.id == LABELS:
                        continue
                    argn = [a for a in list(c.args) + [k.value for k in c.keywords] if isinstance(a, ast.Name) and a.id == var]
                    if argn:
                        used_as_env = True
            if not used_as_env:
                continue
            kind = table_derivative(v, LABELS)
            if kind == 'scalar':
                continue        # a number / string / flag computed from the table (len(labels), a log text) is no environment
            if kind is None and mutates:
                report.undecided('{}: `{}` is derived from the label table ({}) and handed on while the pass moves labels; whether it is a copy that goes stale '
                                 'is not understood'.format(name, var, unparse(v)[:60]))
                continue
            n += 1
            live = isinstance(v, ast.Call) and dotted(v.func) in ('ChainMap', 'collections.ChainMap') and any(isinstance(a, ast.Name) and a.id == LABELS for a in v.args)
            live = live or (isinstance(v, ast.Name) and v.id == LABELS)
            report.check(live or not mutates, rule, '{}: evaluation environment `{}` is a live view of labels'.format(name, var),
                         lambda name=name, st=st, var=var: Finding(rule, name, st,
                                                                  '`{}` copies the label table ({}) and is then used as the evaluation environment while this pass keeps shifting labels: '
                                                                  'decisions later in the pass are taken on stale offsets (e.g. a backward branch judged in range for c.beqz that is not)'.format(
                                                                      var, unparse(v)[:60]), line=st.lineno))
    report.count('evaluation environments built from labels', n)
