"""Lifting of compression predicates to formulas (shared by layoutrules and comprel).

A predicate is whatever value sits in a criteria list: it is *applied* symbolically (pathwalk.Walker.eval_call) to the three
symbols INST, POS, ENV - however it was produced (factory closure, factory of factories, pre-built predicate, lambda) - and the
resulting expression is translated into a formula over the terms
    ('NAME',)  ('REG', field)  ('IMM',)  ('const', v)  ('mod', term, term)
with nodes ('cmp', op, term, term) ('and', [..]) ('or', [..]) ('not', x)."""
import ast

from .core import AnalysisError
from .pathwalk import show, is_const, C, PathState

INST, POS, ENV = ('sym', 'INST'), ('sym', 'POS'), ('sym', 'ENV')
RAW_COMPARES = []
UNGUARDED_EVALS = []      # (predicate, table): i.imm.eval(.., <table that is not the label environment>, ..) not under a handler for AssemblerError
_GUARD = [0]


def catches_assembler_error(v):
    caught = v[3] if len(v) > 3 else ()
    return any(c in ('*', 'Exception', 'BaseException') or 'AssemblerError' in c for c in caught)
REG_FIELDS = ('rd', 'rs1', 'rs2', 'rd_rs1')


def factory_name(walker, pred):
    """Name of the outermost local function a predicate value was made by (for messages)."""
    if pred[0] == 'obj':
        return pred[1]
    fn, _ = walker.fn_of_value(pred) if pred[0] in ('lambda', 'closure') else (None, None)
    if fn is None:
        if pred[0] == 'callv' and pred[1][0] == 'closure':
            return pred[1][1]
        return show(pred)[:40]
    name = getattr(fn, 'name', '<lambda>')
    par = getattr(fn, '_parent', None)
    while par is not None and not isinstance(par, ast.FunctionDef):
        par = getattr(par, '_parent', None)
    if par is not None and getattr(par, '_parent', None) is not None and isinstance(getattr(par, '_parent', None), ast.FunctionDef):
        return par.name
    return par.name if par is not None and name in ('inner', '<lambda>') else name


def lift_predicate(walker, pred, facts, st=None):
    """(formula, factory name, function node) of a predicate value."""
    fname = factory_name(walker, pred)
    if pred[0] == 'obj' and walker.method_of_obj(pred, '__call__') is not None:
        fn = walker.method_of_obj(pred, '__call__')
        v = walker.eval_call(pred, (INST, POS, ENV), (), st or PathState())
        if v is None:
            raise AnalysisError('predicate {}: cannot be evaluated as a single effect-free expression'.format(fname))
        return to_formula(v, facts, fname), fname, fn
    if pred[0] not in ('lambda', 'closure'):
        raise AnalysisError('compression predicate {} is not a function value the analysis can apply'.format(show(pred)[:80]))
    fn, _ = walker.fn_of_value(pred)
    v = walker.eval_call(pred, (INST, POS, ENV), (), st or PathState())
    if v is None:
        raise AnalysisError('predicate {}: cannot be evaluated as a single effect-free expression'.format(fname))
    return to_formula(v, facts, fname), fname, fn


def to_formula(v, facts, fname):
    k = v[0]
    if is_const(v) and isinstance(v[1], bool):
        return ('and', []) if v[1] else ('or', [])
    if k == 'cmp' and v[1] in ('in', 'not in') and v[3][0] == 'call' and v[3][1] == 'range' and len(v[3][2]) in (1, 2):
        # x in range(a, b)  ==  a <= x and x < b
        x = to_term(v[2], facts, fname)
        args = [to_term(a, facts, fname) for a in v[3][2]]
        lo, hi = (('const', 0), args[0]) if len(args) == 1 else (args[0], args[1])
        f = ('and', [('cmp', '>=', x, lo), ('cmp', '<', x, hi)])
        return f if v[1] == 'in' else ('not', f)
    if k == 'cmp' and v[1] in ('in', 'not in') and v[3][0] in ('list', 'tuple', 'set'):
        x = to_term(v[2], facts, fname)
        f = ('or', [('cmp', '==', x, to_term(a, facts, fname)) for a in v[3][1]])
        return f if v[1] == 'in' else ('not', f)
    if k == 'cmp' and v[1] in ('is', 'is not') and (is_const(v[2]) or is_const(v[3])):
        f = cmp_formula('==', v[2], v[3], facts, fname)
        return f if v[1] == 'is' else ('not', f)
    if k == 'cmp' and v[1] in ('==', '!=', '<', '<=', '>', '>='):
        return cmp_formula(v[1], v[2], v[3], facts, fname)
    if k == 'bool':
        return (v[1], [to_formula(x, facts, fname) for x in v[2]])
    if k == 'un' and v[1] == 'not':
        return ('not', to_formula(v[2], facts, fname))
    if k == 'orelse':
        # try: X  except: <constant>  -- where the evaluation of X fails the predicate is the constant
        if is_const(v[2]) and v[2][1] is False:
            _GUARD[0] += catches_assembler_error(v)
            try:
                return to_formula(v[1], facts, fname)
            finally:
                _GUARD[0] -= catches_assembler_error(v)
        raise AnalysisError('predicate {}: a failing evaluation makes the predicate {!r}'.format(fname, v[2][1]))
    if k == 'call' and v[1] == 'is_int' and len(v[2]) == 1 and v[2][0] == ('attr', ('attr', INST, 'imm'), 'expr'):
        # the text of the operand is an integer literal (not a name, not an expression)
        return ('cmp', '==', ('ISLITERAL',), ('const', True))
    if k == 'call' and v[1] == 'isinstance' and len(v[2]) == 2 and v[2][0] == ('attr', INST, 'imm') and v[2][1] == ('name', 'Arithmetic'):
        return ('cmp', '==', ('ISARITH',), ('const', True))
    if k == 'call' and v[1] == 'isinstance' and len(v[2]) == 2 and v[2][0] == ('attr', INST, 'imm') and v[2][1] == ('name', 'Offset'):
        return ('cmp', '==', ('ISOFFSET',), ('const', True))
    if k == 'call' and v[1] == 'isinstance' and len(v[2]) == 2 and v[2][1][0] == 'name' and v[2][0] == INST:
        # the class of the instruction item: decided per rule from the class parse_item builds for the rule's mnemonic
        return ('cmp', '==', ('KIND', 'inst isa {}'.format(v[2][1][1])), ('const', True))
    if k == 'call' and v[1] == 'isinstance' and len(v[2]) == 2 and v[2][1][0] == 'name' and rooted_at_imm(v[2][0]):
        # the class of the immediate expression (or of a part of it): a fact about the kind of the operand
        return ('cmp', '==', ('KIND', '{} isa {}'.format(show(v[2][0]).replace("('sym', 'INST')", 'inst'), v[2][1][1])), ('const', True))
    if k == 'cmp' and v[1] in ('in', 'not in') and v[3] == ENV and v[2][0] == 'attr' and v[2][1] == ('attr', INST, 'imm'):
        # found in the environment the predicate is handed (constants and labels alike)
        f = ('cmp', '==', ('KIND', '{} in <env>'.format(v[2][2])), ('const', True))
        return f if v[1] == 'in' else ('not', f)
    if k == 'cmp' and v[1] in ('in', 'not in') and v[3][0] == 'name' and v[2][0] == 'attr' and v[2][1] == ('attr', INST, 'imm'):
        # which table the reference of the immediate expression is found in: a fact about the kind of the operand
        f = ('cmp', '==', ('KIND', '{} in {}'.format(v[2][2], v[3][1])), ('const', True))
        return f if v[1] == 'in' else ('not', f)
    if k == 'ifexp':
        c, a, b = to_formula(v[1], facts, fname), to_formula(v[2], facts, fname), to_formula(v[3], facts, fname)
        return ('or', [('and', [c, a]), ('and', [('not', c), b])])
    raise AnalysisError('predicate {}: result {} is not a comparison'.format(fname, show(v)[:100]))


def rooted_at_imm(v):
    while isinstance(v, tuple) and v and v[0] == 'attr':
        if v == ('attr', INST, 'imm'):
            return True
        v = v[1]
    return False


TRUE, FALSE = ('and', []), ('or', [])


def cmp_formula(op, a, b, facts, fname):
    """Formula of `a <op> b` where an operand may be a conditional value or a value with a failure fallback."""
    for x, y, left in ((a, b, True), (b, a, False)):
        if x[0] == 'res':
            x = x[3]
        if x[0] == 'ifexp':
            c = to_formula(x[1], facts, fname)
            fa = cmp_formula(op, x[2], y, facts, fname) if left else cmp_formula(op, y, x[2], facts, fname)
            fb = cmp_formula(op, x[3], y, facts, fname) if left else cmp_formula(op, y, x[3], facts, fname)
            return ('or', [('and', [c, fa]), ('and', [('not', c), fb])])
        if x[0] == 'orelse':
            # X where its evaluation succeeds, the constant K where it fails: representable when `K <op> y` is false (the
            # predicate is simply false where X is undefined, which is how formulas read undefined terms anyway)
            fk = cmp_formula(op, x[2], y, facts, fname) if left else cmp_formula(op, y, x[2], facts, fname)
            if fk == TRUE and is_const(y) and y[1] is None:
                # `value is None` for a value with the fallback None: "the evaluation failed"
                return ('cmp', '==', ('UNDEF',), ('const', True))
            if fk != FALSE:
                raise AnalysisError('predicate {}: a failing evaluation does not make the comparison false'.format(fname))
            _GUARD[0] += catches_assembler_error(x)
            try:
                return cmp_formula(op, x[1], y, facts, fname) if left else cmp_formula(op, y, x[1], facts, fname)
            finally:
                _GUARD[0] -= catches_assembler_error(x)
    if is_const(a) and is_const(b):
        va, vb = a[1], b[1]
        try:
            r = {'==': va == vb, '!=': va != vb, 'is': va is vb or va == vb, 'is not': not (va is vb or va == vb)}.get(op)
            if r is None:
                r = {'<': va < vb, '<=': va <= vb, '>': va > vb, '>=': va >= vb}[op]
        except TypeError:
            raise AnalysisError('predicate {}: comparison {!r} {} {!r} raises'.format(fname, va, op, vb))
        return TRUE if r else FALSE
    for x, y in ((a, b), (b, a)):
        if is_const(y) and y[1] is None and x[0] == 'bin' and x[1] in ('+', '-', '*', '%', '<<', '>>', '&', '|') and op in ('==', '!='):
            return FALSE if op == '==' else TRUE        # the result of integer arithmetic is never None
    # X + k <op> c   is   X <op> c - k ;   (X + k) % m == r   is   X % m == (r - k) % m     (integers)
    def affine(v):
        k = 0
        while v[0] == 'bin' and v[1] in ('+', '-') and is_const(v[3]) and isinstance(v[3][1], int) and not isinstance(v[3][1], bool):
            k += v[3][1] if v[1] == '+' else -v[3][1]
            v = v[2]
        return v, k
    if is_const(b) and isinstance(b[1], int) and not isinstance(b[1], bool):
        base, k = affine(a)
        if k:
            return cmp_formula(op, base, C(b[1] - k), facts, fname)
        if a[0] == 'bin' and a[1] == '%' and is_const(a[3]) and isinstance(a[3][1], int) and a[3][1] > 0 and op in ('==', '!='):
            base, k = affine(a[2])
            if k:
                return cmp_formula(op, ('bin', '%', base, a[3]), C((b[1] - k) % a[3][1]), facts, fname)
    if is_const(a) and isinstance(a[1], int) and not isinstance(a[1], bool):
        base, k = affine(b)
        if k:
            return cmp_formula(op, C(a[1] - k), base, facts, fname)
    return ('cmp', op, to_term(a, facts, fname), to_term(b, facts, fname))


def to_term(v, facts, fname):
    i, p, e = INST, POS, ENV
    if is_const(v):
        return ('const', v[1])
    if v[0] == 'name' and isinstance(facts.consts.get(v[1]), int):
        return ('const', facts.consts[v[1]])
    if v == ('attr', i, 'name'):
        return ('NAME',)
    if v[0] == 'call' and v[1] == 'getattr' and len(v[2]) == 2 and v[2][0] == i and v[2][1] == C('name'):
        return ('NAME',)
    if v[0] == 'call' and v[1] == 'lookup_register' and len(v[2]) == 1:
        inner = v[2][0]
        if inner[0] == 'call' and inner[1] == 'getattr' and len(inner[2]) == 2 and inner[2][0] == i and is_const(inner[2][1]):
            return ('REG', inner[2][1][1])
        if inner[0] == 'attr' and inner[1] == i:
            return ('REG', inner[2])
    if v[0] == 'call' and v[1] == 'getattr' and len(v[2]) == 2 and v[2][0] == i and is_const(v[2][1]) and v[2][1][1] in REG_FIELDS:
        # a register-kinded field compared as written (not normalised through lookup_register)
        RAW_COMPARES.append((fname, v[2][1][1]))
        return ('REG', v[2][1][1])
    if v[0] == 'attr' and v[1] == i and v[2] in REG_FIELDS:
        RAW_COMPARES.append((fname, v[2]))
        return ('REG', v[2])
    if v[0] == 'mcall' and v[2] == 'eval' and v[1] in (('attr', i, 'imm'), ('attr', ('attr', i, 'imm'), 'expr')):
        inner = v[1] != ('attr', i, 'imm')
        if len(v[3]) >= 2 and v[3][1][0] == 'name' and v[3][1][1] != 'labels' and v[3][1] != e:
            # evaluated against a table that is not the label environment (the pass's constants): label-independent - and it
            # fails (AssemblerError) for an expression that mentions a label
            if not _GUARD[0]:
                UNGUARDED_EVALS.append((fname, v[3][1][1]))
            return ('IMMX', v[3][1][1]) if inner else ('IMMC', v[3][1][1])
        # .expr of the operand: the expression inside a %hi / %lo wrapper, not the value the instruction carries
        return ('IMMX', None) if inner else ('IMM',)
    if v[0] == 'call' and v[1] in facts.funcs and len(v[2]) >= 2 and v[2][0] == i and v[2][1] == p:
        # wrapper around i.imm.eval (judged by R-auipc); evaluated against the live environment or against another table
        if len(v[2]) >= 3 and v[2][2][0] == 'name' and v[2][2] != e and v[2][2][1] != 'labels':
            return ('IMMC', v[2][2][1])
        return ('IMM',)
    if v[0] == 'call' and v[1] == 'int' and v[2] and v[2][0] == ('attr', ('attr', i, 'imm'), 'expr') and len(v[2]) + len(v[3]) == 2 \
            and ((len(v[2]) == 2 and v[2][1] == C(0)) or (v[3] and v[3][0] == ('base', C(0)))):
        # the integer the operand's text spells: label-independent (and a ValueError for anything that is not a literal)
        return ('IMMC', '<literal>')
    if v[0] == 'call' and v[1] == 'int' and len(v[2]) == 1 and not v[3]:
        inner = v[2][0]
        fld = None
        if inner[0] == 'attr' and inner[1] == i and inner[2] in REG_FIELDS:
            fld = inner[2]
        elif inner[0] == 'call' and inner[1] == 'getattr' and len(inner[2]) == 2 and inner[2][0] == i and is_const(inner[2][1]) and inner[2][1][1] in REG_FIELDS:
            fld = inner[2][1][1]
        if fld is not None:
            # the operand text read as a *decimal* integer (int(x) without base 0, no lookup_register): `3` is seen, `0x3` and
            # `0b11` raise ValueError, a register name too
            RAW_COMPARES.append((fname, fld + ' [int() in base 10]'))
            return ('REG', fld)
    if v[0] == 'bin' and v[1] == '%':
        return ('mod', to_term(v[2], facts, fname), to_term(v[3], facts, fname))
    if v[0] == 'bin' and v[1] in ('+', '-', '*', '<<') and is_const(v[2]) and is_const(v[3]):
        raise AnalysisError('unfolded constant arithmetic')
    raise AnalysisError('predicate {}: term {} outside the relation fragment'.format(fname, show(v)[:100]))
