"""Differential test: original encoder (/repo) vs refactored encoder (this dir).

Compares, call by call, either the returned integer or the type of the raised
exception (so ValueError-vs-ValueError, TypeError-vs-TypeError, ...).
"""
import importlib.util
import inspect
import itertools
import os
import random
import sys

sys.dont_write_bytecode = True

HERE = os.path.dirname(os.path.abspath(__file__))


def load(name, path):
    spec = importlib.util.spec_from_file_location(name, path)
    module = importlib.util.module_from_spec(spec)
    sys.modules[name] = module
    spec.loader.exec_module(module)
    return module


OLD = load('asm_original', '/repo/bronzebeard/asm.py')
NEW = load('asm_refactored', os.path.join(HERE, 'bronzebeard', 'asm.py'))
assert OLD.__file__ != NEW.__file__

REG_NAMES = ('rd', 'rs1', 'rs2', 'rd_rs1')


class Tally:
    def __init__(self):
        self.comparisons = 0
        self.differences = 0
        self.value_errors = 0
        self.other_errors = 0
        self.results = 0
        self.shown = 0

    def outcome(self, func, args, kwargs):
        try:
            value = func(*args, **kwargs)
            return ('ok', type(value), value)
        except Exception as e:
            return ('raise', type(e))

    def compare(self, label, old_func, new_func, *args, **kwargs):
        a = self.outcome(old_func, args, kwargs)
        b = self.outcome(new_func, args, kwargs)
        self.comparisons += 1
        if a[0] == 'ok':
            self.results += 1
        elif a[1] is ValueError:
            self.value_errors += 1
        else:
            self.other_errors += 1
        if a != b:
            self.differences += 1
            if self.shown < 40:
                self.shown += 1
                print('DIFF', label, args, kwargs, a, b)


T = Tally()

# ---------------------------------------------------------------------------
# operand pools
# ---------------------------------------------------------------------------
ALL_REGS = list(OLD.REGISTERS.keys()) + [
    '0x1f', '0x8', '0X0A', '0b1010', '0o17', ' 9', '9 ', '-0', '+5', '1_0', '0x20',
    '32', 'x32', 'X5', 'A0', 'foo', '', 'zer0', '05', '0x', -1, 32, 100, -8,
    None, 1.0, 8.0, 8.5, True, False, b'9', (1,), 'fp', 's0', 'ra',
]
SOME_REGS = [0, 'x1', 'sp', 'x8', 'a0', 's1', 15, 'x16', 't6', '0x1f', 'a5', 'x7', 'bogus', 40]
RAND_REGS = [0, 1, 2, 'x3', 'x7', 'x8', 's1', 'a0', 'a1', 'a2', 'a3', 'a4', 'a5', 'x16', 'x31', 'zero', 'sp']

WINDOW = set()
for k in range(0, 22):
    for d in range(-40, 41):
        WINDOW.add((1 << k) + d)
        WINDOW.add(-(1 << k) + d)
for d in range(-40, 41):
    WINDOW.add(d)
# the "upper" alias range of lui / c.lui
for base in (0x80000, 0xfffe0, 0xfffff, 0x100000, 0xfffff000):
    for d in range(-40, 41):
        WINDOW.add(base + d)
WINDOW = sorted(WINDOW)

ODD_IMMS = [3.5, 4.0, 0.0, -0.0, 2.0, 32.0, '4', None, True, False, 2**31, -2**31, 2**32,
            2**32 + 4, -2**32, 2**40, -2**40 + 2, 2**64, float('inf'), float('nan'), (1,), 1j]


def random_imms(rng, n):
    out = []
    spans = [1 << k for k in (3, 5, 6, 7, 8, 9, 10, 11, 12, 13, 14, 20, 21, 22, 23)]
    for i in range(n):
        span = spans[i % len(spans)]
        v = rng.randint(-2 * span, 2 * span)
        # bias towards aligned values so that the encode path gets exercised
        r = rng.random()
        if r < 0.3:
            v &= ~1
        elif r < 0.5:
            v &= ~3
        elif r < 0.6:
            v &= ~15
        out.append(v)
    return out


def operand_names(p):
    """positional operand names of a partial that are still free"""
    sig = inspect.signature(p.func)
    names = []
    for name, param in sig.parameters.items():
        if param.kind == param.POSITIONAL_OR_KEYWORD and name not in p.keywords:
            names.append(name)
    return names


def sweep_mnemonic(name, rng):
    old = OLD.INSTRUCTIONS[name]
    new = NEW.INSTRUCTIONS[name]
    assert old.func.__name__ == new.func.__name__
    # the bindings must be literally unchanged
    assert {k: v for k, v in old.keywords.items() if k != 'cs'} == \
           {k: v for k, v in new.keywords.items() if k != 'cs'}, name
    ops = operand_names(old)
    assert ops == operand_names(new)
    regs = [o for o in ops if o in REG_NAMES]
    has_imm = 'imm' in ops
    is_fence = 'succ' in ops
    is_atomic = old.func.__name__ == 'a_type'

    def call(*args, **kwargs):
        T.compare(name, old, new, *args, **kwargs)

    def build(regvals, imm):
        vals = dict(zip(regs, regvals))
        if has_imm:
            vals['imm'] = imm
        return [vals[o] for o in ops]

    if is_fence:
        pool = list(range(0, 21)) + ['0b11', '0xf', '0b1111', '16', '0', 'zz', '', 'iorw', -1, -5,
                                     None, True, 1.0, '0o7', ' 3', '1_0']
        for s in pool:
            for p in pool:
                call(s, p)
        return

    imm_samples = [0, 4, 16, 1, -2, 32, 64, 2048, -4096, 5000] if has_imm else [None]

    # (a) every register spelling in every register position
    for pos in range(len(regs)):
        for r in ALL_REGS:
            for other in SOME_REGS[:6]:
                regvals = [other] * len(regs)
                regvals[pos] = r
                for imm in imm_samples[:4]:
                    call(*build(regvals, imm))
    # all pairs of a smaller pool
    if len(regs) >= 2:
        for combo in itertools.product(SOME_REGS, repeat=len(regs)):
            for imm in imm_samples[:3]:
                call(*build(list(combo), imm))

    # (b) immediates
    if has_imm:
        for imm in WINDOW:
            regvals = [rng.choice(RAND_REGS) for _ in regs]
            call(*build(regvals, imm))
            call(*build(['a0'] * len(regs), imm))
        for imm in random_imms(rng, 20000):
            regvals = [rng.choice(RAND_REGS) for _ in regs]
            call(*build(regvals, imm))
        for imm in ODD_IMMS:
            for r in ('a0', 'x0', 'x2', 'bogus'):
                call(*build([r] * len(regs), imm))

    # no operands at all (ecall, c.nop, ...)
    if not ops:
        call()

    # wrong arity
    call(*(['a0'] * (len(ops) + 1)))
    if ops:
        call(*(['a0'] * (len(ops) - 1)))

    # (d) aq / rl
    if is_atomic:
        flags = [0, 1, 2, '1', '0', '2', '0b1', '0x1', -1, True, False, None, 1.0, 'x', '']
        for aq in flags:
            for rl in flags:
                for r in SOME_REGS:
                    call(*build([r] * len(regs), None), aq=aq, rl=rl)
                call(*build(['a0', 'a1', 'a2'][:len(regs)], None), aq=aq)
                call(*build(['a0', 'a1', 'a2'][:len(regs)], None), rl=rl)


# ---------------------------------------------------------------------------
# direct calls of the encoder functions with arbitrary fixed fields
# ---------------------------------------------------------------------------
ENCODERS = ['r_type', 'i_type', 'ij_type', 's_type', 'b_type', 'u_type', 'j_type', 'fence', 'a_type',
            'cr_type', 'ci_type', 'cia_type', 'ciu_type', 'cil_type', 'css_type', 'ciw_type', 'cl_type',
            'cs_type', 'ca_type', 'cb_type', 'cbi_type', 'cj_type']
CONSTRAINTS = ['RegRdNotZero', 'RegRs1NotZero', 'RegRs2NotZero', 'RegRdRs1NotZero', 'RegRdRs1NotTwo',
               'ImmNotZero', 'ShamtBit5Zero']


def sweep_encoders(rng, rounds):
    for fname in ENCODERS:
        old = getattr(OLD, fname)
        new = getattr(NEW, fname)
        assert str(inspect.signature(old)) == str(inspect.signature(new)), fname
        sig = inspect.signature(old)
        pos = [n for n, p in sig.parameters.items() if p.kind == p.POSITIONAL_OR_KEYWORD]
        kwo = [n for n, p in sig.parameters.items() if p.kind == p.KEYWORD_ONLY]
        for _ in range(rounds):
            args = []
            for n in pos:
                if n in REG_NAMES:
                    args.append(rng.choice(RAND_REGS + ['bogus', 33]))
                elif n == 'imm':
                    span = 1 << rng.choice((4, 6, 8, 10, 12, 13, 20, 21))
                    v = rng.randint(-span - 8, span + 8)
                    if rng.random() < 0.7:
                        v &= ~rng.choice((1, 3, 15))
                    args.append(v)
                else:  # succ / pred
                    args.append(rng.choice([rng.randint(-2, 18), '0b101', '0xf', 'q']))
            kwargs = {}
            cnames = []
            for n in kwo:
                if n == 'cs':
                    r = rng.random()
                    if r < 0.3:
                        continue
                    if r < 0.4:
                        cnames = None
                        continue
                    cnames = rng.sample(CONSTRAINTS, rng.randint(0, 3))
                elif n in ('aq', 'rl'):
                    if rng.random() < 0.5:
                        kwargs[n] = rng.choice([0, 1, 2, '1', '0b0', True])
                elif n in ('rd', 'rs1'):  # fence
                    kwargs[n] = rng.choice([0, 'x5', 31, 'bogus'])
                elif n == 'fm':
                    kwargs[n] = rng.choice([0, 0, 0, 1, 7, 8, 15, -1, 16])
                else:  # opcode / functN: deliberately also out of range
                    r = rng.random()
                    if r < 0.7:
                        kwargs[n] = rng.randint(0, 127)
                    elif r < 0.9:
                        kwargs[n] = rng.randint(-300, 5000)
                    else:
                        kwargs[n] = rng.choice([None, '3', 2.0, True])
            ko = dict(kwargs)
            kn = dict(kwargs)
            if 'cs' in kwo:
                if cnames is None:
                    ko['cs'] = kn['cs'] = None
                elif cnames or rng.random() < 0.5:
                    ko['cs'] = [getattr(OLD, c) for c in cnames]
                    kn['cs'] = [getattr(NEW, c) for c in cnames]
            a = T.outcome(old, args, ko)
            b = T.outcome(new, args, kn)
            T.comparisons += 1
            if a != b:
                T.differences += 1
                if T.shown < 40:
                    T.shown += 1
                    print('DIFF', fname, args, kwargs, cnames, a, b)


def sweep_helpers():
    for r in ALL_REGS:
        for c in (False, True, 0, 1, None, 'yes'):
            T.compare('lookup_register', OLD.lookup_register, NEW.lookup_register, r, c)
            T.compare('lookup_register', OLD.lookup_register, NEW.lookup_register, r, compressed=c)
        T.compare('lookup_register', OLD.lookup_register, NEW.lookup_register, r)
    values = list(range(-70, 70)) + [None, 'a', 1.0, 0.0, 32.0, True, False]
    for cname in CONSTRAINTS:
        oc, nc = getattr(OLD, cname), getattr(NEW, cname)
        for field in ('rd', 'rs1', 'rs2', 'rd_rs1', 'imm', 'other'):
            for v in values:
                T.compare(cname, oc, nc, **{field: v})
                T.compare(cname, oc, nc, **{field: v, 'imm': 0})
    for field, bit, value in itertools.product(('imm', 'rd'), range(0, 8), (0, 1, 4, 32)):
        oc, nc = OLD.constraint_bit(field, bit, value), NEW.constraint_bit(field, bit, value)
        for v in values:
            T.compare('constraint_bit', oc, nc, **{field: v})
    for field, value in itertools.product(('imm', 'rd'), (0, 2, -4, 31)):
        oc, nc = OLD.constraint_not(field, value), NEW.constraint_not(field, value)
        for v in values:
            T.compare('constraint_not', oc, nc, **{field: v})


def sweep_assemble():
    """end to end: the rest of the assembler keeps working on top (valid and invalid lines)"""
    lines = [
        'addi x1, x2, 3', 'c.addi x8, 1', 'lui t0, 0xfffff', 'lui t0, 0x100000', 'lw a0, 8(sp)', 'lw a0, sp, 8',
        'sw a0, -4(s0)', 'sw s0, a0, -4', 'beq a0, a1, start', 'jal ra, start', 'jalr zero, 0(ra)',
        'jalr zero, ra, 0', 'jalr zero, ra, 3', 'fence', 'ecall', 'ebreak', 'fence.i', 'amoadd.w a0, a1, (a2)',
        'amoadd.w a0, a1, a2', 'amoadd.w a0, a1, a2, 1, 1', 'amoadd.w a0, a1, a2, 2, 0', 'lr.w a0, (a1)',
        'lr.w a0, a1', 'c.lwsp a0, 12(sp)', 'c.lwsp a0, 12', 'c.lwsp x0, 12', 'c.swsp a0, 12', 'c.swsp a0, 13',
        'c.lw a0, 4(a1)', 'c.lw a0, a1, 4', 'c.lw t0, a1, 4', 'c.sw a1, a0, 4', 'c.j start', 'c.jal start',
        'c.beqz a0, start', 'c.bnez t0, start', 'c.lui a1, 3', 'c.lui a1, 0xfffff', 'c.lui sp, 3', 'c.lui a1, 0',
        'c.addi16sp sp, -32', 'c.addi16sp -32', 'c.addi16sp 0', 'c.addi16sp 8', 'c.addi4spn a0, sp, 16',
        'c.addi4spn a0, 16', 'c.addi4spn a0, 0', 'c.srli a0, 3', 'c.srli a0, 32', 'c.srai a0, -1', 'c.andi a0, -1',
        'c.slli a0, 31', 'c.slli zero, 1', 'c.sub a0, a1', 'c.and a0, t1', 'c.mv a0, a1', 'c.mv a0, zero',
        'c.add a0, a1', 'c.jr ra', 'c.jr zero', 'c.jalr ra', 'c.ebreak', 'c.nop', 'li a0, 0x12345678',
        'li a0, 5', 'call start', 'tail start', 'mv a0, a1', 'not a0, a1', 'mul a0, a1, a2',
        'csrrw zero, 0x300, a0', 'csrrw zero, a0, 0x300', 'csrrwi zero, 5, 0x300', 'auipc a0, 1', 'c.li a0, -3',
        'c.li a0, 32', 'fence 0b11, 0b11', 'fence 16, 1', 'fence rw, rw', 'lui a0, %hi(start)',
        'addi a0, a0, %lo(start)', 'addi a0, a0, 2048', 'addi a0, a0, -2049', 'slli a0, a0, 3', 'beq a0, a1, 3',
        'beq a0, a1, 4096', 'jal zero, 1048576', 'addi q0, a0, 1', 'sub a0, a1, a2', 'and a0, a1, a2',
    ]
    for compress in (False, True):
        for text in lines + ['\n'.join(lines[:3] + ['sub a0, a1, a2', 'addi a0, a0, 1', 'lw a0, sp, 8', 'jal zero, start'])]:
            source = 'start:\n' + text + '\n'
            outs = []
            for mod in (OLD, NEW):
                try:
                    outs.append(('ok', mod.assemble(source, compress=compress)))
                except Exception as e:
                    outs.append(('raise', type(e).__name__))
            T.comparisons += 1
            if outs[0] != outs[1]:
                T.differences += 1
                print('DIFF assemble', repr(text), compress, outs)


def outside_encoder_identical():
    """is everything except the refactored region textually the same in both files?"""
    marker = '# RV32I Base Integer Instruction Set'
    old = open(OLD.__file__).read()
    new = open(NEW.__file__).read()
    return (old[:old.index('def lookup_register')] == new[:new.index('class RegisterFile')]
            and old[old.index(marker):] == new[new.index(marker):])


def main():
    seed = int(sys.argv[1]) if len(sys.argv) > 1 else 20260928
    rng = random.Random(seed)
    assert list(OLD.INSTRUCTIONS) == list(NEW.INSTRUCTIONS)
    for name in OLD.INSTRUCTIONS:
        before = T.comparisons
        sweep_mnemonic(name, rng)
        print('{:12s} {:8d} comparisons'.format(name, T.comparisons - before))
    before = T.comparisons
    sweep_encoders(rng, 6000)
    print('{:12s} {:8d} comparisons'.format('<encoders>', T.comparisons - before))
    before = T.comparisons
    sweep_helpers()
    print('{:12s} {:8d} comparisons'.format('<helpers>', T.comparisons - before))
    if outside_encoder_identical():
        before = T.comparisons
        sweep_assemble()
        print('{:12s} {:8d} comparisons'.format('<assemble>', T.comparisons - before))
    else:
        print('NOTE: /repo/bronzebeard/asm.py differs from the refactored file outside the encoder region '
              '(the original changed after it was copied); end-to-end assemble() comparison skipped')
    print('seed', seed)
    print('results {}  ValueErrors {}  other errors {}'.format(T.results, T.value_errors, T.other_errors))
    print('TOTAL comparisons: {}  differences: {}'.format(T.comparisons, T.differences))
    return 1 if T.differences else 0


if __name__ == '__main__':
    sys.exit(main())
