"""Thorough tier: is every rule of a property still alive on *this* tree?

For the property being checked, each text-edit variant of bbverif/variants*.py whose anchors exist in the current working tree is
applied to a scratch copy (outside /repo and /verif, removed at once) and the same check is run on the copy: a `breaking` twin must be
reported (exit 1), a `preserving` twin must stay silent (exit 0), an `undecided` twin must end without verdict (exit 2).  This is the
"positive example that must match on every run" of each rule, taken over the sources as they are now, not over a frozen fixture.
The repository code is never executed: a twin is only analysed.  The result is recorded in the evidence; it does not change the
verdict on the tree itself."""
import concurrent.futures
import os

from . import selftest


def variants_for(prop):
    from . import variants
    out = []
    for (vid, props, edits) in variants.BREAKING:
        if props and prop in props:
            out.append((vid, [prop], edits, 'breaking'))
    for (vid, props, edits) in variants.PRESERVING:
        if props is None or prop in props:
            out.append((vid, [prop], edits, 'preserving'))
    for (vid, props, edits) in getattr(variants, 'UNDECIDED', []):
        if props and prop in props:
            out.append((vid, [prop], edits, 'undecided'))
    return out


def applicable(v, repo_root):
    for e in v[2]:
        rel, old = e[0], e[1]
        try:
            with open(os.path.join(repo_root, rel)) as f:
                s = f.read()
        except OSError:
            return False
        n = s.count(old)
        nth = e[3] if len(e) > 3 else None
        if n == 0 or (nth is None and n != 1):
            return False
    return True


def run(prop, repo_root, jobs=16):
    vs = variants_for(prop)
    live = [v for v in vs if applicable(v, repo_root)]
    want = {'breaking': 1, 'preserving': 0, 'undecided': 2}
    res = {'variants_known': len(vs), 'variants_applicable': len(live), 'by_kind': {}, 'missed': [], 'alarmed': [], 'other': [], 'samples': []}
    with concurrent.futures.ThreadPoolExecutor(max_workers=jobs) as ex:
        for vid, kind, results, err in ex.map(lambda v: selftest.run_variant(v, repo_root, {prop}), live):
            k = res['by_kind'].setdefault(kind, {'run': 0, 'as_expected': 0})
            k['run'] += 1
            code = results.get(prop, (None, ''))[0] if not err else None
            if code == want[kind]:
                k['as_expected'] += 1
                if len(res['samples']) < 6:
                    res['samples'].append({'variant': vid, 'kind': kind, 'exit': code})
            elif kind == 'breaking':
                res['missed'].append({'variant': vid, 'exit': code, 'error': err})
            elif kind == 'preserving':
                res['alarmed'].append({'variant': vid, 'exit': code, 'error': err})
            else:
                res['other'].append({'variant': vid, 'exit': code, 'error': err})
    return res
