#!/venv/bin/python
"""Developer tool (not a registered check): run only the front-end rules of C13 (bbverif/lexrules.py: lexer, reader, hand-over to
the parser, register numbers) - without the shared encoder / compression engines.

  tools/c13_frontend.py --repo DIR          verdict for one tree (exit 0 / 1 / 2 like a check)
  tools/c13_frontend.py --variants          every c13-* / p13-* / u13- variant of bbverif/variants.py plus C13_FRONTEND_PRESERVING:
                                            breaking -> 1, preserving -> 0, undecided -> 2 (text edits on a scratch copy of --base, removed
                                            afterwards; nothing of the analysed code is executed)
"""
import argparse
import os
import shutil
import sys

sys.path.insert(0, os.path.dirname(os.path.dirname(os.path.abspath(__file__))))

from bbverif import lexrules, variants          # noqa: E402
from bbverif.core import Repo, Report, AnalysisError   # noqa: E402
from bbverif.facts import Facts                 # noqa: E402
from bbverif.selftest import make_copy, apply_edit     # noqa: E402


def verdict(root):
    """(exit code, lines)"""
    try:
        repo = Repo(root)
        facts = Facts(repo.asm)
        rep = Report('C13', 'other', 'front-end rules only')
        lexer = lexrules.check_lexer(rep, facts)
        skips = lexrules.check_reader(rep, facts)
        lexrules.check_handover(rep, facts, bool(skips))
        lexrules.check_line_ends(rep, skips, lexer)
        lexrules.check_operand_spelling(rep, facts)
        lexrules.check_register_numbers(rep, facts)
    except AnalysisError as e:
        return 2, ['ANALYSIS-ERROR ' + str(e)]
    except Exception as e:      # noqa
        return 2, ['ANALYSIS-ERROR internal: ' + repr(e)]
    if rep.findings:
        return 1, ['finding: ' + str(f) for f in rep.findings]
    return 0, ['{} obligations discharged; {}'.format(len(rep.obligations), rep.analysed)]


def main():
    ap = argparse.ArgumentParser()
    ap.add_argument('--repo')
    ap.add_argument('--base', default='/repo')
    ap.add_argument('--variants', action='store_true')
    ap.add_argument('-v', action='store_true')
    args = ap.parse_args()
    if not args.variants:
        code, lines = verdict(args.repo or args.base)
        print('\n'.join(lines))
        return code
    todo = []
    for kind, want, lst in (('breaking', 1, variants.BREAKING), ('preserving', 0, variants.PRESERVING),
                            ('undecided', 2, variants.UNDECIDED), ('preserving', 0, variants.C13_FRONTEND_PRESERVING)):
        for vid, props, edits in lst:
            if vid.startswith(('c13-', 'p13-', 'u13-', 'w13-')) and vid not in FRONT_END_BLIND and '-isint-' not in vid:
                todo.append((kind, want, vid, edits))
    bad = 0
    for kind, want, vid, edits in todo:
        d = make_copy(args.base)
        try:
            for e in edits:
                apply_edit(d, *e)
            code, lines = verdict(d)
        finally:
            shutil.rmtree(d, ignore_errors=True)
        ok = code == want
        bad += 0 if ok else 1
        if args.v or not ok:
            print('{:6s} {:10s} {:40s} exit={} (want {})  {}'.format('ok' if ok else 'WRONG', kind, vid, code, want, lines[0][:200]))
    print('front-end variants: {}  wrong: {}'.format(len(todo), bad))
    return 1 if bad else 0


# C13 variants decided by the rules that are not part of the front end (REGISTERS table, BASE_OFFSET_INSTRUCTIONS; the `-isint-`
# variants belong to R13.7 in props/c13.py / intlang.py)
FRONT_END_BLIND = {'c13-fp-dropped', 'c13-s1', 'c13-lhu-missing', 'w13-registers-item-assignment', 'w13-registers-update-literal',
                   'w13-base-offset-add', 'w13-base-offset-ior', 'w13-regsmatch-helper', 'w13-isint-renamed', 'w13-isint-named-base', 'w13-rtype-number-converted'}

if __name__ == '__main__':
    sys.exit(main())
