"""C01 - 32-bit instructions encode exactly as the RISC-V specification defines (and injectively)."""
from ..core import Report, Finding
from ..facts import Facts
from .. import oracle, encprops

LEVEL = 'proof'


def _walk_one(args):
    """Worker: enumerate every accepted immediate of one mnemonic (x 3 register choices) over the derived closed form and decode
    each word with the generic format decoder."""
    import sys
    repo_root, m = args
    from ..core import Repo
    from ..encsum import all_summaries, derived_operand, canon
    from ..comprel import encode_closed_form
    facts = Facts(Repo(repo_root).asm)
    s = all_summaries(facts)[m]
    spec = oracle.RV32[m]
    fmt = oracle.RV32_FORMAT.get(m)
    if fmt is None or s.always_refused:
        return m, 0, None
    imm_param = [p for p, op in zip(s.params, spec['operands']) if op['kind'] == 'imm']
    reg_params = [p for p, op in zip(s.params, spec['operands']) if op['kind'] in ('reg', 'num5')]
    role = {p: op['role'] for p, op in zip(s.params, spec['operands'])}
    if len(imm_param) != 1:
        return m, 0, None
    ip = imm_param[0]
    cells = canon(derived_operand(s, ip)['cells'])
    n = 0
    key = {'U': 'imm_u', 'J': 'imm_j', 'B': 'imm_b', 'S': 'imm_s', 'I': 'imm_i'}[fmt]
    for regs in ((0,) * len(reg_params), (31,) * len(reg_params), tuple((21 + 3 * i) % 32 for i in range(len(reg_params)))):
        ops = dict(zip(reg_params, regs))
        for (lo, hi, delta, mm, r) in cells:
            if lo < -(1 << 24) or hi > (1 << 24):
                return m, n, 'unbounded accepted set'
            for v in range(lo, hi + 1, mm):
                ops[ip] = v
                w = encode_closed_form(s, ops)
                f = oracle.rv32_fields(w)
                n += 1
                want = v + delta
                if f[key] != want:
                    return m, n, '{} {}={} encodes to 0x{:08x} whose {} immediate is {}'.format(m, ip, v, w, fmt, f[key])
                for p, rv in zip(reg_params, regs):
                    fld = {'rd': 'rd', 'rs1': 'rs1', 'rs2': 'rs2', 'uimm': 'rs1', 'shamt': 'rs2'}[role[p]]
                    if f[fld] != rv:
                        return m, n, '{} {}={} lands in field value {}'.format(m, p, rv, f[fld])
    return m, n, None


def forward_walk(rep, facts, mns):
    """thorough: every accepted immediate of every immediate-carrying 32-bit mnemonic, encoded by the *derived closed form* and
    decoded by an independent generic format decoder (the repository is not executed)."""
    import concurrent.futures
    root = REPO_ROOT[0]
    total = 0
    with concurrent.futures.ProcessPoolExecutor(max_workers=16) as ex:
        for m, n, err in ex.map(_walk_one, [(root, m) for m in mns if m in oracle.RV32_FORMAT]):
            total += n
            rep.check(err is None, 'R1.forward-walk', '{}: {} accepted tuples decode to the operands that were encoded'.format(m, n),
                      lambda m=m, err=err: Finding('R1.forward-walk', m, m, err, line=encprops.binding_line(facts, m)), nontrivial=n > 0)
    rep.analysed['forward-walk encodings decoded'] = total


REPO_ROOT = [None]


def run(repo, tier):
    REPO_ROOT[0] = repo.root
    facts = Facts(repo.asm)
    rep = Report('C01', LEVEL,
                 'Bit-provenance abstract interpretation of the 9 32-bit format encoders under the constants bound by each of '
                 'the 66 partial bindings yields, per mnemonic, the exact function operand tuple -> word for all operand values '
                 'at once; it is compared bit by bit with an oracle table written from the ISA manual, checked for injectivity on '
                 'the derived accepted set, and the front end (token -> constructor -> attribute -> args() -> encoder parameter) '
                 'is followed by a token-provenance dataflow over parse_item.')
    rep.trusted_base = ['CPython ast', 'bbverif.bitdom transfer functions', 'bbverif.oracle RV32 table (from the ISA manual)',
                        'that Python eval/int turn a literal operand token into the integer it spells']
    rep.not_decided = ['value computed by eval() for an operand expression (C11 trusted base)',
                       'CSR numbers >= 0x800 are only expressible as negative immediates (I-format range)']
    mns = encprops.check_tables(rep, facts, 'R1.tables', oracle.RV32, compressed=False)
    # each rule group on its own: what one group does not understand is a deferred no-verdict, not the end of the run
    at = encprops.attempt
    at(rep, encprops.check_layout, rep, facts, mns, 'R1.layout')
    at(rep, encprops.check_injective, rep, facts, mns, 'R1.injective')
    at(rep, encprops.check_disjoint, rep, facts, mns, 'R1.disjoint', 32)
    at(rep, encprops.check_wiring, rep, facts, 'R1.wiring', False, repo.text['docs/instruction_reference.rst'])
    at(rep, encprops.check_rebuild_invariant, rep, facts, 'R1.rebuild')
    at(rep, encprops.check_registers, rep, facts, 'R1.registers')
    at(rep, encprops.check_resolve_instructions, rep, facts, 'R1.pack')
    if tier == 'thorough':
        forward_walk(rep, facts, mns)
    rep.floor('mnemonic bindings', 66)
    rep.floor('encoder summaries', 66)
    rep.floor('parse paths analysed', 14)
    rep.floor('item classes checked for the rebuild invariant', 30)
    return rep
