"""Token -> constructor -> attribute -> args() -> encoder-parameter dataflow for parse_item / parse_immediate (and similar
token-shuffling code).  A small path-enumerating provenance evaluator: values are *where a token went*, never token contents.

The whole function is walked from its first statement; calls of module-level helpers, of closures returned by parser factories and
of functions stored in module-level dispatch tables are inlined (the factory call is evaluated symbolically with its constant
arguments, then the returned closure is walked), `for names, parser in TABLE:` over a literal module-level table is unrolled, and
`tokens[a:b]` slices are the same provenance as star-unpacking.  Every path ends in an Outcome (the `return` of an item / the
`raise`); outcomes are grouped by what the path knows about the *head* (the lower-cased first token):

  ('table', NAME)   head in NAME           (first positive membership fact on the path, NAME a module-level table / set)
  ('head', 'x')     head == 'x'            (also: head in {'x'}, or the only value left of a known set after `!=` tests)
  ('other', text)   no fact about the head, first positive other condition
  else-outcomes     no positive condition at all

so an if/elif chain, a sequence of early-return ifs and an ordered dispatch table tried in priority order give the same arms.

Provenance values (tuples):
  ('tok', k)            tokens[k]
  ('tokend', k)         tokens[-k]
  ('rest', k, e)        tokens[k:len-e] as a list
  ('lower', p)          p.lower()
  ('list', [p...])      list / tuple literal
  ('imm', p)            parse_immediate(p, line)
  ('int', p)            int(p, base=0)
  ('const', v)          folded constant
  ('line',)             the Line object
  ('call', fname, [p], {k: p})  other call (kept symbolically; fname is a class name for constructor calls)
  ('star', p)           *p in an argument list (kept only when the number of tokens is not known)
  ('ref', NAME)         module-level table / set NAME
  ('func', name)        module-level function
  ('closure', FunctionDef, env)   nested function with the environment it was defined in
  ('classref', name)    a class of the module used as a value
  ('expr', text)        anything else
"""
import ast
import copy as _copy

from .core import AnalysisError
from .astutil import fold, NotConstant, unparse, dotted
from .pathwalk import DEFAULT_OPAQUE

OPAQUE = set(DEFAULT_OPAQUE) | {'parse_immediate', 'is_int', 'lookup_register'}
NON_NONE = {'func', 'closure', 'classref', 'list', 'rest', 'tok', 'tokend', 'lower', 'line', 'imm', 'int', 'ref', 'star'}
MAX_PATHS = 20000
MAX_DEPTH = 12


def _replace(node, target, repl):
    """Copy of the expression with `target` replaced (only the spine down to the target is copied; the analysed tree, whose nodes
    carry parent links, is never modified)."""
    if node is target:
        return repl
    if not any(n is target for n in ast.walk(node)):
        return node
    new = _copy.copy(node)
    for field, value in ast.iter_fields(node):
        if isinstance(value, ast.AST):
            setattr(new, field, _replace(value, target, repl))
        elif isinstance(value, list):
            setattr(new, field, [_replace(x, target, repl) if isinstance(x, ast.AST) else x for x in value])
    return new


def table_values(facts, ref):
    """Set of names of a ('ref', NAME) / ('const', collection) value, or None."""
    if ref[0] == 'ref':
        t = facts.tables.get(ref[1])
        if t is not None:
            return set(t)
        s_ = facts.sets.get(ref[1])
        return set(s_) if s_ is not None else None
    if ref[0] == 'const' and isinstance(ref[1], (set, frozenset, list, tuple, dict)):
        return set(ref[1])
    return None


def toks_in(v, depth=0):
    """Single-token provenances nested anywhere in a value."""
    out = []
    if depth > 8:
        return out
    if isinstance(v, dict):
        for x in v.values():
            out += toks_in(x, depth + 1)
    elif isinstance(v, (list, tuple)):
        if v and isinstance(v[0], str):
            if v[0] in ('tok', 'tokend'):
                return [v]
            if v[0] in ('closure', 'obj', 'expr', 'const'):
                return out
            for x in v[1:]:
                out += toks_in(x, depth + 1)
        else:
            for x in v:
                out += toks_in(x, depth + 1)
    return out


def admits(facts, path, head):
    """Can a line whose lower-cased first token is `head` take this path?  Decided from the path's facts about the head (tests
    of earlier arms that came out negative included, so first-match-wins dispatch is honoured)."""
    for f in path.head_facts:
        if f[0] == 'eq':
            if (head == f[1]) != f[2]:
                return False
        elif f[0] == 'in':
            vals = table_values(facts, f[1])
            if vals is not None and (head in vals) != f[2]:
                return False
    return True


class Path:
    def __init__(self):
        self.env = {}
        self.conds = []        # (text, polarity, node)
        self.min_tokens = 0
        self.exact_tokens = None
        self.events = []
        self.head_facts = []   # ('eq', value, polarity, node) / ('in', NAME or frozenset, polarity, node) about the head token
        self.tok_facts = []    # ('tok_eq', provenance, const, polarity) / ('is_int', provenance, polarity)
        self.tok_tests = []    # (token provenance, kind, detail, polarity, via): every test on the path that looks at a token;
                               # kind 'eq' (detail = constant) | 'in' (frozenset) | 'in-table' (NAME) | 'other' (text);
                               # via 'raw' | 'lower' | 'lookup' (lookup_register(token)) | 'int'
        self.flow = None       # None | 'break' | 'continue'
        self.ctor = None       # (value, node): the constructor call value most recently built by a `return`
        self.objs = {}         # object id -> {attribute: provenance} of helper-class instances built on this path
        self.counts = None     # set of possible numbers of tokens (from `len(tokens) in (..)` tests), or None
        self.unknown_conds = []  # conditions on operand tokens that taught the path nothing (their meaning is not modelled)
        self.tests = {}        # local name -> (test expression it was bound to, bindings of the names in it at that moment)
        self.unknown_head = []   # comparisons of something derived from the first token that is not the recognised head (lower-cased)

    def clone(self):
        p = Path()
        p.env = dict(self.env)
        p.conds = list(self.conds)
        p.min_tokens = self.min_tokens
        p.exact_tokens = self.exact_tokens
        p.events = list(self.events)
        p.head_facts = list(self.head_facts)
        p.tok_facts = list(self.tok_facts)
        p.tok_tests = list(self.tok_tests)
        p.flow = self.flow
        p.ctor = self.ctor
        p.objs = {k: dict(v) for k, v in self.objs.items()}
        p.counts = set(self.counts) if self.counts is not None else None
        p.unknown_conds = list(self.unknown_conds)
        p.tests = dict(self.tests)
        p.unknown_head = list(self.unknown_head)
        return p

    def set_counts(self, allowed):
        self.counts = set(allowed) if self.counts is None else self.counts & set(allowed)
        if self.exact_tokens is not None:
            self.counts &= {self.exact_tokens}
        if len(self.counts) == 1:
            self.exact_tokens = next(iter(self.counts))

    # -- what the path knows -------------------------------------------------------------------------------------------------
    def paren_form(self):
        """The path was taken because some token equals '(' / ')' (the `imm(reg)` operand syntax): True / False; None when the
        path rests on a condition about operand tokens whose meaning is not modelled (it may be a test for that syntax)."""
        if any(f[0] == 'tok_eq' and f[2] in ('(', ')') and f[3] for f in self.tok_facts):
            return True
        if self.unknown_conds:
            return None
        return False

    def head_sets(self, positive=True):
        return [f[1] for f in self.head_facts if f[0] == 'in' and f[2] == positive]


class Outcome:
    def __init__(self, kind, path, node, cls=None, args=None, kwargs=None):
        self.kind = kind       # 'return' | 'raise'
        self.path = path
        self.node = node
        self.cls = cls
        self.args = args or []
        self.kwargs = kwargs or {}

    def cond_text(self):
        return ' and '.join(('' if c[1] else 'not ') + '(' + c[0] + ')' for c in self.path.conds) or 'always'


class _Frame:
    def __init__(self, name):
        self.name = name
        self.returns = []      # (path, value)


class TokenFlow:
    def __init__(self, facts, tokens_name='tokens', line_name='line', consts=None, roots=None):
        self.facts = facts
        self.tokens_name = tokens_name
        self.line_name = line_name
        self.consts = consts or facts.consts
        self.roots = roots or {}           # parameter name -> provenance at the top level
        self._frames = []
        self._module_cache = {}
        self._tmp = 0
        self._paths = 0

    # -- names ----------------------------------------------------------------------------------------------------------------
    def module_value(self, name):
        """Provenance of a module-level name."""
        f = self.facts
        if name in f.tables or name in f.sets:
            return ('ref', name)
        if name in self.consts:
            return ('const', self.consts[name])
        if name in f.funcs:
            return ('func', name)
        if name in f.classes:
            return ('classref', name)
        if name in f.assign_nodes:
            return self._module_expr(name, f.assign_nodes[name].value)
        return None

    def _module_expr(self, name, node):
        """Provenance of a module-level expression (calls of factories walked), cached under the name it is assigned to."""
        if name in self._module_cache:
            v = self._module_cache[name]
            if v is None:
                raise AnalysisError('token-flow: module-level name {} is defined in terms of itself'.format(name))
            return v
        self._module_cache[name] = None
        p = Path()
        saved, self._frames = self._frames, []
        try:
            st = ast.copy_location(ast.Assign(targets=[ast.Name(id='__module_value', ctx=ast.Store())], value=node), node)
            sink = []
            live = self._stmt(st, p, sink)
        finally:
            self._frames = saved
        if len(live) != 1 or sink:
            raise AnalysisError('token-flow: module-level table {} is not built by straight-line code'.format(name))
        v = live[0].env['__module_value']
        self._module_cache[name] = v
        return v

    def dict_of(self, v):
        """[(constant key, value provenance)] of a dict-valued provenance (a literal, a comprehension, a module-level table), or None."""
        if v[0] == 'dictv':
            return v[1]
        if v[0] == 'ref' and v[1] in self.facts.assign_nodes:
            node = self.facts.assign_nodes[v[1]].value
            if isinstance(node, (ast.Dict, ast.DictComp)):
                d = self._module_expr('dict:' + v[1], node)
                return d[1] if d[0] == 'dictv' else None
        return None

    def table_values(self, ref):
        if ref[0] == 'dictv':
            return {k for k, _ in ref[1]}
        return table_values(self.facts, ref)

    def _iter_values(self, it):
        """Elements a for-clause / loop sees, or None."""
        if it[0] == 'list' and not any(x[0] == 'star' for x in it[1]):
            return list(it[1])
        if it[0] == 'dictv':
            return [('const', k) for k, _ in it[1]]
        if it[0] == 'ref':
            t = self.facts.tables.get(it[1])
            if t is not None:
                return [('const', k) for k in t]
            s_ = self.facts.sets.get(it[1])
            if s_ is not None:
                return [('const', k) for k in sorted(s_, key=repr)]
        if it[0] == 'const' and isinstance(it[1], (list, tuple)):
            return [('const', k) for k in it[1]]
        if it[0] == 'const' and isinstance(it[1], dict):
            return [('const', k) for k in it[1]]
        if it[0] == 'const' and isinstance(it[1], (set, frozenset)):
            return [('const', k) for k in sorted(it[1], key=repr)]
        return None

    def _comp(self, node, path):
        """Value of a comprehension whose for-clauses run over literal tables and whose conditions are decidable."""
        results = []

        def rec(i, p):
            if i == len(node.generators):
                if isinstance(node, ast.DictComp):
                    results.append((self.ev(node.key, p), self.ev(node.value, p)))
                else:
                    results.append(self.ev(node.elt, p))
                return True
            g = node.generators[i]
            if g.is_async:
                return False
            vals = self._iter_values(self.ev(g.iter, p))
            if vals is None:
                return False
            for v in vals:
                q = p.clone()
                self.bind(g.target, v, q)
                keep = True
                for c in g.ifs:
                    d = self.decide(c, q)
                    if d is None:
                        return False
                    if not d:
                        keep = False
                        break
                if keep and not rec(i + 1, q):
                    return False
            return True

        if not rec(0, path.clone()):
            return ('expr', unparse(node))
        if isinstance(node, ast.DictComp):
            pairs = {}
            for k, v in results:
                if k[0] != 'const':
                    return ('expr', unparse(node))
                try:
                    pairs[k[1]] = v
                except TypeError:
                    return ('expr', unparse(node))
            return ('dictv', list(pairs.items()))
        return ('list', results)

    # -- expressions ----------------------------------------------------------------------------------------------------------
    def ev(self, node, path):
        if isinstance(node, ast.Name):
            if node.id in path.env:
                return path.env[node.id]
            if not self._frames:
                if node.id in self.roots:
                    return self.roots[node.id]
                if node.id == self.tokens_name:
                    return ('rest', 0, 0)
                if node.id == self.line_name:
                    return ('line',)
            mv = self.module_value(node.id)
            if mv is not None:
                return mv
            return ('expr', node.id)
        if isinstance(node, ast.Constant):
            return ('const', node.value)
        if isinstance(node, (ast.List, ast.Tuple)):
            out = []
            for e in node.elts:
                if isinstance(e, ast.Starred):
                    out.extend(self._splice(self.ev(e.value, path), path))
                else:
                    out.append(self.ev(e, path))
            return ('list', out)
        if isinstance(node, ast.Dict) and all(k is not None for k in node.keys):
            pairs = []
            for k, v in zip(node.keys, node.values):
                kv = self.ev(k, path)
                if kv[0] != 'const':
                    return ('expr', unparse(node))
                pairs.append((kv[1], self.ev(v, path)))
            try:
                return ('dictv', list(dict(pairs).items()))
            except TypeError:
                return ('expr', unparse(node))
        if isinstance(node, (ast.DictComp, ast.ListComp, ast.SetComp, ast.GeneratorExp)):
            return self._comp(node, path)
        if isinstance(node, ast.Attribute):
            base = self.ev(node.value, path)
            if base[0] == 'obj':
                attrs = path.objs.get(base[2], {})
                if node.attr in attrs:
                    return attrs[node.attr]
                for c in self.facts.mro(base[1]):
                    for st in self.facts.classes[c].node.body:
                        if isinstance(st, ast.Assign) and any(isinstance(t, ast.Name) and t.id == node.attr for t in st.targets):
                            return self.ev(st.value, Path())
                return ('expr', unparse(node))
            if base == ('line_tokens',):
                if node.attr == 'tokens':
                    return ('rest', 0, 0)
                if node.attr == 'line':
                    return ('line',)
            return ('expr', unparse(node))
        if isinstance(node, ast.Subscript):
            base = self.ev(node.value, path)
            if isinstance(node.slice, ast.Slice):
                sl = node.slice
                if sl.step is None and base[0] in ('rest', 'list'):
                    try:
                        lo = self._int(sl.lower, path, 0)
                        hi = self._int(sl.upper, path, None)
                    except NotConstant:
                        lo = hi = 'x'
                    if base[0] == 'rest' and lo != 'x' and lo >= 0 and (hi is None or hi < 0):
                        return ('rest', base[1] + lo, base[2] + (-hi if hi is not None else 0))
                    if base[0] == 'list' and lo != 'x':
                        return ('list', base[1][lo:hi])
                return ('expr', unparse(node))
            try:
                k = self._int(node.slice, path, None)
            except NotConstant:
                k = None
            if isinstance(k, int):
                if base[0] == 'rest':
                    if k >= 0:
                        path.min_tokens = max(path.min_tokens, base[1] + k + 1 + base[2])
                        return ('tok', base[1] + k)
                    return ('tokend', base[2] - k)
                if base[0] == 'list' and -len(base[1]) <= k < len(base[1]):
                    return base[1][k]
            return ('expr', unparse(node))
        if isinstance(node, ast.Call):
            return self._call_value(node, path)
        if isinstance(node, ast.BinOp) and isinstance(node.op, ast.Add):
            a, b = self.ev(node.left, path), self.ev(node.right, path)
            if a[0] == 'list' and b[0] == 'list':
                return ('list', a[1] + b[1])
        if isinstance(node, ast.IfExp):
            d = self.decide(node.test, path)
            if d is not None:
                return self.ev(node.body if d else node.orelse, path)
            return ('expr', unparse(node))
        try:
            return ('const', fold(node, self._fold_env(path)))
        except NotConstant:
            return ('expr', unparse(node))

    def _fold_env(self, path):
        env = dict(self.consts)
        for k, v in path.env.items():
            if isinstance(v, tuple) and v and v[0] == 'const':
                env[k] = v[1]
            elif k in env:
                del env[k]
        return env

    def _int(self, node, path, default):
        if node is None:
            return default
        v = fold(node, self._fold_env(path))
        if v is None:
            return default
        if not isinstance(v, int) or isinstance(v, bool):
            raise NotConstant('not an int')
        return v

    def _splice(self, v, path):
        """Elements of *v inside a list / argument list."""
        if v[0] == 'list':
            return list(v[1])
        if v[0] == 'rest' and path.exact_tokens is not None:
            return [('tok', i) for i in range(v[1], path.exact_tokens - v[2])]
        return [('star', v)]

    def _call_value(self, node, path):
        fn = dotted(node.func)
        if isinstance(node.func, ast.Attribute) and node.func.attr == 'lower' and not node.args:
            return ('lower', self.ev(node.func.value, path))
        target = None
        if isinstance(node.func, ast.Name):
            target = self.ev(node.func, path)
            if target[0] == 'classref':
                fn = target[1]
        args = []
        for a in node.args:
            if isinstance(a, ast.Starred):
                v = self.ev(a.value, path)
                vararg_cls = False
                if target is not None and target[0] == 'classref':
                    owner = self.facts.init_owner(target[1])
                    vararg_cls = owner is not None and bool(owner.init_vararg)
                if v[0] == 'rest' and vararg_cls:
                    args.append(('star', v))
                else:
                    args.extend(self._splice(v, path))
            else:
                args.append(self.ev(a, path))
        kwargs = {kw.arg: self.ev(kw.value, path) for kw in node.keywords if kw.arg}
        if isinstance(node.func, ast.Attribute) and node.func.attr in ('items', 'keys', 'values') and not node.args and not node.keywords:
            pairs = self.dict_of(self.ev(node.func.value, path))
            if pairs is not None:
                if node.func.attr == 'items':
                    return ('list', [('list', [('const', k), v]) for k, v in pairs])
                return ('list', [('const', k) if node.func.attr == 'keys' else v for k, v in pairs])
        if fn == 'str.lower' and len(args) == 1 and not kwargs:
            return ('lower', args[0])           # the unbound-method spelling of x.lower()
        if fn == 'parse_immediate' and args:
            return ('imm', args[0])
        if fn == 'int' and args:
            return ('int', args[0])
        if fn in ('list', 'tuple') and len(args) == 1 and args[0][0] in ('rest', 'list') and not kwargs:
            return args[0]
        if fn in ('reversed', 'sorted') and len(args) == 1 and not kwargs and args[0][0] == 'list' and not any(x[0] == 'star' for x in args[0][1]):
            # a literal sequence iterated in another order (a table filled back to front so that the first listed entry wins)
            if fn == 'reversed':
                return ('list', list(reversed(args[0][1])))
            if all(x[0] == 'const' for x in args[0][1]):
                try:
                    return ('list', sorted(args[0][1], key=lambda x: x[1]))
                except TypeError:
                    pass
        if fn == 'len' and len(args) == 1 and args[0][0] == 'list' and not any(x[0] == 'star' for x in args[0][1]):
            return ('const', len(args[0][1]))
        return ('call', fn or unparse(node.func), args, kwargs)

    # -- tests ----------------------------------------------------------------------------------------------------------------
    def is_head(self, v):
        return v == ('lower', ('tok', 0))

    def _len_of_rest(self, test, path):
        """(rest provenance, op, n) for `len(<token list>) <op> n`."""
        if (isinstance(test, ast.Compare) and len(test.ops) == 1 and isinstance(test.left, ast.Call)
                and dotted(test.left.func) == 'len' and len(test.left.args) == 1):
            v = self.ev(test.left.args[0], path)
            if v[0] == 'rest':
                if isinstance(test.ops[0], (ast.In, ast.NotIn)):
                    try:
                        coll = fold(test.comparators[0], self._fold_env(path))
                    except NotConstant:
                        return None
                    if isinstance(coll, (list, tuple, set, frozenset)) and all(isinstance(x, int) and not isinstance(x, bool) for x in coll):
                        return v, test.ops[0], sorted(coll)
                    return None
                try:
                    n = self._int(test.comparators[0], path, None)
                except NotConstant:
                    return None
                if n is not None:
                    return v, test.ops[0], n
        return None

    def _rest_truth(self, v, path):
        """Truthiness of a token-list provenance under what the path knows about the number of tokens."""
        base = v[1] + v[2]
        if path.exact_tokens is not None:
            return path.exact_tokens > base
        if path.counts is not None:
            if all(c > base for c in path.counts):
                return True
            if all(c <= base for c in path.counts):
                return False
        if path.min_tokens > base:
            return True
        return None

    def decide(self, test, path):
        """True / False / None under what the path already knows."""
        if isinstance(test, ast.UnaryOp) and isinstance(test.op, ast.Not):
            d = self.decide(test.operand, path)
            return None if d is None else not d
        if isinstance(test, ast.BoolOp):
            vals = [self.decide(v, path) for v in test.values]
            if isinstance(test.op, ast.And):
                if any(v is False for v in vals):
                    return False
                return True if all(v is True for v in vals) else None
            if any(v is True for v in vals):
                return True
            return False if all(v is False for v in vals) else None
        lr = self._len_of_rest(test, path)
        if lr is not None and isinstance(lr[2], list):
            v, op, ns = lr
            possible = {path.exact_tokens} if path.exact_tokens is not None else path.counts
            if possible is not None:
                hits = [(c - v[1] - v[2]) in ns for c in possible]
                if all(hits):
                    return isinstance(op, ast.In)
                if not any(hits):
                    return isinstance(op, ast.NotIn)
            return None
        if lr is not None and path.exact_tokens is not None:
            v, op, n = lr
            have = path.exact_tokens - v[1] - v[2]
            table = {ast.Eq: have == n, ast.NotEq: have != n, ast.Lt: have < n, ast.LtE: have <= n, ast.Gt: have > n, ast.GtE: have >= n}
            if type(op) in table:
                return table[type(op)]
        if isinstance(test, ast.Compare) and len(test.ops) == 1:
            left = self.ev(test.left, path)
            right = self.ev(test.comparators[0], path)
            op = test.ops[0]
            if right == ('const', None) and isinstance(op, (ast.Is, ast.IsNot, ast.Eq, ast.NotEq)) and left[0] in NON_NONE:
                return isinstance(op, (ast.IsNot, ast.NotEq))
            if left[0] == 'const' and right[0] == 'const':
                try:
                    a, b = left[1], right[1]
                    table = {ast.Eq: lambda: a == b, ast.NotEq: lambda: a != b, ast.In: lambda: a in b, ast.NotIn: lambda: a not in b,
                             ast.Lt: lambda: a < b, ast.LtE: lambda: a <= b, ast.Gt: lambda: a > b, ast.GtE: lambda: a >= b,
                             ast.Is: lambda: a is b, ast.IsNot: lambda: a is not b}
                    if type(op) in table:
                        return bool(table[type(op)]())
                except TypeError:
                    return None
            if self.is_head(left):
                eq = [f[1] for f in path.head_facts if f[0] == 'eq' and f[2]]
                if eq and right[0] == 'const' and isinstance(op, (ast.Eq, ast.NotEq)):
                    r = eq[0] == right[1]
                    return r if isinstance(op, ast.Eq) else not r
                if isinstance(op, (ast.In, ast.NotIn)):
                    for f in path.head_facts:
                        if f[0] == 'in' and f[1] == right:
                            return f[2] == isinstance(op, ast.In)
                    vals = self.table_values(right)
                    if vals is not None:
                        excluded = set()
                        for f in path.head_facts:
                            if not f[2]:
                                excluded |= {f[1]} if f[0] == 'eq' else (self.table_values(f[1]) or set())
                        if vals <= excluded:
                            return isinstance(op, ast.NotIn)
                        cands = self.head_candidates(path)
                        if eq:
                            cands = {eq[0]}
                        if cands is not None:
                            if cands <= vals:
                                return isinstance(op, ast.In)
                            if not (cands & vals):
                                return isinstance(op, ast.NotIn)
                if isinstance(op, (ast.Eq, ast.NotEq)) and right[0] == 'const':
                    cands = self.head_candidates(path)
                    if cands is not None and right[1] not in cands:
                        return isinstance(op, ast.NotEq)
                    if any(f[0] == 'eq' and not f[2] and f[1] == right[1] for f in path.head_facts):
                        return isinstance(op, ast.NotEq)
            return None
        if (isinstance(test, ast.Call) and isinstance(test.func, ast.Attribute) and test.func.attr in ('endswith', 'startswith')
                and len(test.args) == 1 and not test.keywords):
            # tokens[0].endswith(':') on a path that already knows which mnemonics the first token can be
            recv, arg = self.ev(test.func.value, path), self.ev(test.args[0], path)
            if (recv == ('tok', 0) or self.is_head(recv)) and arg[0] == 'const' and isinstance(arg[1], str) and arg[1].upper() == arg[1].lower():     # no cased letters: lower-casing is immaterial
                cands = self.head_candidates(path)
                eq = [f[1] for f in path.head_facts if f[0] == 'eq' and f[2]]
                if eq:
                    cands = {eq[0]}
                if cands and all(isinstance(c, str) for c in cands):
                    hits = [getattr(c, test.func.attr)(arg[1]) for c in cands]
                    if all(hits):
                        return True
                    if not any(hits):
                        return False
        v = self.ev(test, path)
        if v[0] == 'const':
            return bool(v[1])
        if v[0] in ('func', 'closure', 'classref', 'line', 'obj'):
            return True
        if v[0] == 'rest':
            return self._rest_truth(v, path)
        if v[0] == 'dictv':
            return bool(v[1])
        if v[0] == 'list' and not any(x[0] == 'star' for x in v[1]):
            return bool(v[1])
        return None

    def head_candidates(self, path, use_ne=True):
        """Finite set of values the head can still have on this path, or None when no positive membership fact bounds it."""
        cands = None
        for f in path.head_facts:
            if f[0] == 'in' and f[2]:
                vals = self.table_values(f[1]) if isinstance(f[1], tuple) else None
                if vals is None:
                    continue
                cands = set(vals) if cands is None else cands & vals
        if cands is None:
            return None
        for f in path.head_facts:
            if f[0] == 'eq' and not f[2] and use_ne:
                cands.discard(f[1])
            if f[0] == 'in' and not f[2] and isinstance(f[1], tuple):
                vals = self.table_values(f[1])
                if vals is not None:
                    cands -= vals
        return cands

    def _operand_terms(self, node, path):
        """Does the expression look at operand tokens (anything but the first token / the token count)?"""
        if isinstance(node, (ast.Name, ast.Subscript, ast.Attribute)):
            v = self.ev(node, path.clone())

            def touches(x):
                if not isinstance(x, tuple) or not x:
                    return False
                if x[0] == 'tok':
                    return x[1] >= 1
                if x[0] in ('tokend', 'rest', 'star'):
                    return True
                if x[0] == 'expr':
                    return isinstance(x[1], str) and self.tokens_name in x[1]
                if x[0] in ('const', 'ref', 'func', 'closure', 'classref', 'line'):
                    return False
                return any(touches(y) for y in x[1:] if isinstance(y, (tuple, list))) or \
                    any(touches(z) for y in x[1:] if isinstance(y, list) for z in y)
            return touches(v)
        if isinstance(node, ast.Call):
            parts = list(node.args) + [k.value for k in node.keywords]
            if isinstance(node.func, ast.Attribute):
                parts.append(node.func.value)
            return any(self._operand_terms(x, path) for x in parts)
        if isinstance(node, (ast.Lambda, ast.Constant)):
            return False
        return any(self._operand_terms(c, path) for c in ast.iter_child_nodes(node) if isinstance(c, ast.expr))

    def _derived_from_first(self, v):
        if not isinstance(v, tuple) or not v:
            return False
        if v == ('tok', 0):
            return True
        if v[0] in ('lower', 'int'):
            return self._derived_from_first(v[1])
        if v[0] == 'call':
            return any(self._derived_from_first(x) for x in v[2]) or any(self._derived_from_first(x) for x in v[3].values()) or \
                (isinstance(v[1], str) and (self.tokens_name + '[0]') in v[1])
        if v[0] == 'expr':
            return isinstance(v[1], str) and (self.tokens_name + '[0]' in v[1] or self.tokens_name + '[-len(' in v[1])
        return False

    def _learn(self, test, path, polarity):
        n_facts = (len(path.head_facts), len(path.tok_facts), path.min_tokens, path.exact_tokens,
                   tuple(sorted(path.counts)) if path.counts is not None else None)
        recognised = self._learn_fact(test, path, polarity)
        after = (len(path.head_facts), len(path.tok_facts), path.min_tokens, path.exact_tokens,
                 tuple(sorted(path.counts)) if path.counts is not None else None)
        if not recognised and after == n_facts:
            try:
                operand = self._operand_terms(test, path) and not self._plain_membership(test, path)
            except AnalysisError:
                operand = True
            if operand:
                path.unknown_conds.append(unparse(test))

    def _plain_membership(self, test, path):
        """`tok in TABLE` / `tok in ('sp', 'x2')` / `tok == 'sp'` (also through .lower(), lookup_register, int): a test of one token
        against a known collection without a parenthesis in it says nothing about the `imm(reg)` form (it is recorded in tok_tests
        for the rules that ask what happens to that token)."""
        while isinstance(test, ast.UnaryOp) and isinstance(test.op, ast.Not):
            test = test.operand
        if not (isinstance(test, ast.Compare) and len(test.ops) == 1 and isinstance(test.ops[0], (ast.In, ast.NotIn, ast.Eq, ast.NotEq))):
            return False
        q = path.clone()
        lv, rv = self.ev(test.left, q), self.ev(test.comparators[0], q)
        if self.tok_base(lv) is None:
            if isinstance(test.ops[0], (ast.Eq, ast.NotEq)) and self.tok_base(rv) is not None:
                lv, rv = rv, lv
            else:
                return False
        if isinstance(test.ops[0], (ast.Eq, ast.NotEq)):
            return rv[0] == 'const' and rv[1] not in ('(', ')')
        vals = self.table_values(rv) if rv[0] in ('ref', 'const', 'dictv') else (
            {x[1] for x in rv[1]} if rv[0] == 'list' and all(x[0] == 'const' for x in rv[1]) else None)
        return vals is not None and '(' not in vals and ')' not in vals

    def _learn_fact(self, test, path, polarity):
        """Record what the outcome of a test says about the line; True when the form of the test is modelled (even if this outcome
        teaches nothing)."""
        if isinstance(test, ast.UnaryOp) and isinstance(test.op, ast.Not):
            return self._learn_fact(test.operand, path, not polarity)
        if isinstance(test, ast.BoolOp):
            if (isinstance(test.op, ast.And) and polarity) or (isinstance(test.op, ast.Or) and not polarity):
                return all([self._learn_fact(v, path, polarity) for v in test.values])
            return False
        lr = self._len_of_rest(test, path)
        if lr is not None and isinstance(lr[2], list):
            v, op, ns = lr
            if isinstance(op, ast.In) == polarity:
                path.set_counts({v[1] + v[2] + x for x in ns})
            return True
        if lr is not None:
            v, op, n = lr
            total = v[1] + v[2] + n
            if (isinstance(op, ast.Eq) and polarity) or (isinstance(op, ast.NotEq) and not polarity):
                path.exact_tokens = total
            elif (isinstance(op, ast.GtE) and polarity) or (isinstance(op, ast.Lt) and not polarity):
                path.min_tokens = max(path.min_tokens, total)
            elif (isinstance(op, ast.Gt) and polarity) or (isinstance(op, ast.LtE) and not polarity):
                path.min_tokens = max(path.min_tokens, total + 1)
            return True
        if isinstance(test, ast.Call) and dotted(test.func) == 'is_int' and len(test.args) == 1:
            path.tok_facts.append(('is_int', self.ev(test.args[0], path), polarity))
            return True
        if isinstance(test, (ast.Name, ast.Subscript, ast.Attribute)):
            v = self.ev(test, path)
            if v[0] == 'rest':
                base = v[1] + v[2]
                if polarity:
                    path.min_tokens = max(path.min_tokens, base + 1)
                    if path.counts is not None:
                        path.set_counts({c for c in path.counts if c > base})
                else:
                    path.exact_tokens = base
                return True
            return v[0] in ('const', 'func', 'closure', 'classref', 'line', 'obj', 'dictv')
        if isinstance(test, ast.Compare) and len(test.ops) == 1:
            left = self.ev(test.left, path)
            right = self.ev(test.comparators[0], path)
            op = test.ops[0]
            if isinstance(op, (ast.NotEq, ast.NotIn)):
                polarity = not polarity
            if self.is_head(left):
                if isinstance(op, (ast.Eq, ast.NotEq)) and right[0] == 'const':
                    path.head_facts.append(('eq', right[1], polarity, test))
                elif isinstance(op, (ast.In, ast.NotIn)):
                    if right[0] == 'ref':
                        path.head_facts.append(('in', right, polarity, test))
                    elif right[0] == 'dictv':
                        path.head_facts.append(('in', ('const', frozenset(k for k, _ in right[1])), polarity, test))
                    elif right[0] in ('const', 'list'):
                        vals = self.table_values(right) if right[0] == 'const' else (
                            {x[1] for x in right[1]} if all(x[0] == 'const' for x in right[1]) else None)
                        if vals is not None and len(vals) == 1:
                            path.head_facts.append(('eq', next(iter(vals)), polarity, test))
                        elif vals is not None:
                            path.head_facts.append(('in', ('const', frozenset(vals)), polarity, test))
            elif left[0] in ('tok', 'tokend') and isinstance(op, (ast.Eq, ast.NotEq)) and right[0] == 'const':
                path.tok_facts.append(('tok_eq', left, right[1], polarity))
            elif isinstance(op, (ast.In, ast.NotIn, ast.Eq, ast.NotEq)) and self._derived_from_first(left) and \
                    (right[0] in ('ref', 'dictv') or (right[0] == 'const' and isinstance(right[1], (str, set, frozenset, list, tuple, dict)))):
                # a mnemonic test on a value that is not the lower-cased first token as the flow knows it (casefold(), a helper the
                # flow keeps symbolic): which lines take the branch is not known
                path.unknown_head.append(unparse(test))

    # -- binding --------------------------------------------------------------------------------------------------------------
    def unpack(self, targets, value, path, node):
        """targets: list of ast targets (Name / Starred); value provenance."""
        star = [i for i, t in enumerate(targets) if isinstance(t, ast.Starred)]
        n = len(targets)
        if value[0] == 'rest':
            k0, e0 = value[1], value[2]
            if not star:
                need = k0 + n + e0
                path.exact_tokens = need
                for i, t in enumerate(targets):
                    self.bind(t, ('tok', k0 + i), path)
                path.min_tokens = max(path.min_tokens, need)
                return
            s = star[0]
            after = n - s - 1
            for i, t in enumerate(targets):
                if i < s:
                    self.bind(t, ('tok', k0 + i), path)
                elif i == s:
                    self.bind(t.value, ('rest', k0 + s, e0 + after), path)
                else:
                    self.bind(t, ('tokend', e0 + (n - i)), path)
            path.min_tokens = max(path.min_tokens, k0 + n - 1 + e0)
            return
        if value[0] == 'const' and isinstance(value[1], (tuple, list)):
            value = ('list', [('const', v) for v in value[1]])
        if value[0] == 'list' and not any(x[0] == 'star' for x in value[1]):
            elts = value[1]
            if not star and len(elts) == n:
                for t, v in zip(targets, elts):
                    self.bind(t, v, path)
                return
            if star and len(elts) >= n - 1:
                s = star[0]
                after = n - s - 1
                for i, t in enumerate(targets):
                    if i < s:
                        self.bind(t, elts[i], path)
                    elif i == s:
                        self.bind(t.value, ('list', elts[s:len(elts) - after]), path)
                    else:
                        self.bind(t, elts[len(elts) - (n - i)], path)
                return
        for t in targets:
            self.bind(t.value if isinstance(t, ast.Starred) else t, ('expr', 'unpack of ' + str(value)), path)

    def bind(self, target, value, path):
        if isinstance(target, ast.Name):
            path.env[target.id] = value
        elif isinstance(target, ast.Attribute):
            base = self.ev(target.value, path)
            if base[0] == 'obj':
                path.objs.setdefault(base[2], {})[target.attr] = value
        elif isinstance(target, (ast.Tuple, ast.List)):
            self.unpack(target.elts, value, path, target)

    # -- inlining -------------------------------------------------------------------------------------------------------------
    def helper_class(self, cname):
        """A class of the module that is neither an item, an expression node nor an exception: instances are modelled as objects
        (attribute -> provenance) and their methods are walked."""
        f = self.facts
        if cname not in f.classes:
            return False
        for c in f.mro(cname):
            if c in ('Item', 'Expr'):
                return False
            for b in f.classes[c].bases:
                if b is None or (b not in f.classes and b not in ('object',)):
                    return False            # Exception, NamedTuple, abc.ABC, ...: not modelled
        return True

    def _callee(self, call, path):
        """(FunctionDef, closure env or None, name, self spec) for a call this evaluator walks instead of keeping it symbolic.
        self spec: None for a plain function, ('new', class) for the instantiation of a helper class (its __init__ is walked),
        ('obj', value) for a method of such an instance."""
        if not isinstance(call, ast.Call):
            return None
        selfspec = None
        if isinstance(call.func, ast.Attribute):
            base = self.ev(call.func.value, path)
            if base[0] != 'obj':
                return None
            _, fn = self.facts.method(base[1], call.func.attr)
            if fn is None:
                return None
            env, fname, selfspec = None, '{}.{}'.format(base[1], call.func.attr), ('obj', base)
            deco = [dotted(d) for d in fn.decorator_list]
            if deco == ['staticmethod']:
                selfspec = ('static',)
            elif deco:
                return None
        elif isinstance(call.func, ast.Name):
            name = call.func.id
            v = path.env.get(name)
            if v is None:
                if name in OPAQUE:
                    return None
                if name in self.facts.funcs:
                    v = ('func', name)
                elif name in self.facts.classes:
                    v = ('classref', name)
                elif name in self.facts.assign_nodes and name not in self.facts.tables and name not in self.facts.sets \
                        and name not in self.consts and isinstance(self.facts.assign_nodes[name].value, (ast.Call, ast.Name)):
                    # PARSE_X = factory(...) / PARSE_X = other_function at module level
                    v = self.module_value(name)
                    if v is None:
                        return None
                else:
                    return None
            if v[0] == 'func':
                if v[1] in OPAQUE or v[1] not in self.facts.funcs:
                    return None
                fn, env, fname = self.facts.funcs[v[1]], None, v[1]
            elif v[0] == 'closure':
                fn, env, fname = v[1], v[2], v[1].name
            elif v[0] == 'classref' and self.helper_class(v[1]):
                _, fn = self.facts.method(v[1], '__init__')
                env, fname, selfspec = None, v[1] + '.__init__', ('new', v[1])
                if fn is None:
                    return None
                if fn.decorator_list:
                    return None
            else:
                return None
            if selfspec is None and fn.decorator_list:
                return None
        else:
            return None
        if any(f.name == fname and f.node is fn for f in self._frames) or len(self._frames) >= MAX_DEPTH:
            return None
        if fn.args.kwarg or any(isinstance(a, ast.Starred) for a in call.args) or any(k.arg is None for k in call.keywords):
            return None
        return fn, env, fname, selfspec

    def _inline(self, call, path, outcomes):
        """[(path, return value)] of walking the callee with its parameters bound to the argument provenances."""
        fn, cenv, fname, selfspec = self._callee(call, path)
        a = fn.args
        pos = [x.arg for x in a.posonlyargs + a.args]
        env = dict(cenv) if cenv is not None else {}
        bound = set()
        new_obj = None
        if selfspec is not None and selfspec[0] in ('new', 'obj'):
            if not pos:
                raise AnalysisError('token-flow: method {} takes no self'.format(fname))
            if selfspec[0] == 'new':
                self._tmp += 1
                new_obj = ('obj', selfspec[1], self._tmp)
                path.objs[new_obj[2]] = {}
                env[pos[0]] = new_obj
            else:
                env[pos[0]] = selfspec[1]
            bound.add(pos[0])
            pos = pos[1:]
        if len(call.args) > len(pos) and not a.vararg:
            raise AnalysisError('token-flow: call {} passes more positional arguments than {} takes'.format(unparse(call), fname))
        if a.vararg:
            env[a.vararg.arg] = ('list', [self.ev(x, path) for x in call.args[len(pos):]])
        for p_, arg in zip(pos, call.args):
            env[p_] = self.ev(arg, path)
            bound.add(p_)
        names = set(pos) | {x.arg for x in a.kwonlyargs}
        for kw in call.keywords:
            if kw.arg not in names:
                raise AnalysisError('token-flow: call {} passes unknown keyword {}'.format(unparse(call), kw.arg))
            env[kw.arg] = self.ev(kw.value, path)
            bound.add(kw.arg)
        allpos = [x.arg for x in a.posonlyargs + a.args]
        defaults = dict(zip(allpos[len(allpos) - len(a.defaults):], a.defaults))
        for x, d in zip(a.kwonlyargs, a.kw_defaults):
            if d is not None:
                defaults[x.arg] = d
        for p_ in pos + [x.arg for x in a.kwonlyargs]:
            if p_ not in bound:
                if p_ not in defaults:
                    raise AnalysisError('token-flow: call {} leaves parameter {} of {} unbound'.format(unparse(call), p_, fname))
                env[p_] = self.ev(defaults[p_], Path())
        frame = _Frame(fname)
        frame.node = fn
        caller_env = path.env
        path.env = env
        self._frames.append(frame)
        try:
            live = self._block(fn.body, path, outcomes)
        finally:
            self._frames.pop()
        out = []
        for p_ in live:
            if p_.flow is not None:
                raise AnalysisError('token-flow: break/continue outside a loop in ' + fname)
            out.append((p_, ('const', None)))
        out.extend(frame.returns)
        if new_obj is not None:
            out = [(p_, new_obj) for p_, _ in out]
        for p_, _ in out:
            p_.env = dict(caller_env)
        return out

    def _lookup(self, n, path):
        """(text, [(key, value provenance)], default node or None, subscript?) for TABLE.get(head[, default]) / TABLE[head] where
        TABLE is a dict with constant keys (a literal, a comprehension over literal tables, module-level or local) and the key is
        the head token."""
        if isinstance(n, ast.Call) and isinstance(n.func, ast.Attribute) and n.func.attr == 'get' and 1 <= len(n.args) <= 2 \
                and not n.keywords:
            base, key, default, sub = n.func.value, n.args[0], (n.args[1] if len(n.args) == 2 else None), False
        elif isinstance(n, ast.Subscript) and isinstance(getattr(n, 'ctx', None), ast.Load) and not isinstance(n.slice, ast.Slice):
            base, key, default, sub = n.value, n.slice, None, True
        else:
            return None
        if not isinstance(base, (ast.Name, ast.Attribute)):
            return None
        if not self.is_head(self.ev(key, path)):
            return None
        pairs = self.dict_of(self.ev(base, path))
        if pairs is None:
            return None
        return unparse(base), pairs, default, sub

    def _expand_lookup(self, n, path, outcomes):
        tname, pairs, default, sub = self._lookup(n, path)
        groups = []             # (value provenance, [keys])
        keys_all = []
        for kv, v in pairs:
            keys_all.append(kv)
            for g in groups:
                try:
                    same = g[0] == v
                except Exception:
                    same = g[0] is v
                if same:
                    g[1].append(kv)
                    break
            else:
                groups.append((v, [kv]))
        out = []
        for v, keys in groups:
            keys = [k for k in keys if admits(self.facts, path, k)]
            if not keys:
                continue
            p = path.clone()
            if len(keys) == 1:
                p.head_facts.append(('eq', keys[0], True, n))
            else:
                p.head_facts.append(('in', ('const', frozenset(keys)), True, n))
            p.conds.append(('{} -> entry of {}'.format(unparse(n), ', '.join(sorted(map(str, keys)))[:60]), True, n))
            out.append((p, v))
        cands = self.head_candidates(path)
        if cands is None or (cands - set(keys_all)):
            p = path
            p.head_facts.append(('in', ('const', frozenset(keys_all)), False, n))
            p.conds.append(('{} -> missing'.format(unparse(n)), True, n))
            if sub:
                outcomes.append(Outcome('raise', p, n))
            else:
                out.append((p, self.ev(default, p) if default is not None else ('const', None)))
        return out

    def _expandable(self, n, path):
        if isinstance(n, ast.Call) and self._callee(n, path) is not None:
            return True
        return isinstance(n, (ast.Call, ast.Subscript)) and self._lookup(n, path) is not None

    def _target(self, n, path):
        """The next sub-expression to expand, in evaluation order: calls this evaluator can walk and dispatch-dict lookups innermost
        first; a conditional expression before anything in its branches (only the branch taken is evaluated)."""
        if isinstance(n, ast.IfExp):
            return self._target(n.test, path) or n
        if isinstance(n, ast.BoolOp):
            # short circuit: `a or b` is `a if a else b`; only the operand reached is evaluated
            return self._target(n.values[0], path) or n
        if isinstance(n, (ast.Lambda, ast.ListComp, ast.GeneratorExp, ast.SetComp, ast.DictComp)):
            return None
        for child in ast.iter_child_nodes(n):
            t = self._target(child, path)
            if t is not None:
                return t
        return n if self._expandable(n, path) else None

    def _hoist(self, node, path, outcomes):
        """[(path, expression)]: every call this evaluator can walk, every lookup in a dispatch dict and every conditional expression
        nested anywhere in the expression has been walked (forking paths) and replaced by a temporary bound to its value / by the
        branch taken."""
        if node is None:
            return [(path, node)]
        work = [(path, node)]
        done = []
        while work:
            p, n = work.pop()
            target = self._target(n, p)
            if target is None:
                done.append((p, n))
                continue
            if isinstance(target, ast.BoolOp):
                first = target.values[0]
                rest = target.values[1] if len(target.values) == 2 else ast.copy_location(ast.BoolOp(op=target.op, values=target.values[1:]), target)
                is_or = isinstance(target.op, ast.Or)
                orig = target
                target = ast.copy_location(ast.IfExp(test=first, body=first if is_or else rest, orelse=rest if is_or else first), orig)
                n = _replace(n, orig, target)
            if isinstance(target, ast.IfExp):
                d = self.decide(target.test, p)
                if d is None:
                    self._paths += 1
                    if self._paths > MAX_PATHS:
                        raise AnalysisError('token-flow: path explosion (> {} forks)'.format(MAX_PATHS))
                    tp, fp = p.clone(), p
                    text = unparse(target.test)
                    tp.conds.append((text, True, target.test))
                    fp.conds.append((text, False, target.test))
                    self._learn(target.test, tp, True)
                    self._learn(target.test, fp, False)
                    self._note_test(target.test, tp, True)
                    self._note_test(target.test, fp, False)
                    work.append((fp, _replace(n, target, target.orelse)))
                    work.append((tp, _replace(n, target, target.body)))
                else:
                    work.append((p, _replace(n, target, target.body if d else target.orelse)))
                continue
            self._tmp += 1
            tmp = '__inl{}'.format(self._tmp)
            is_call = isinstance(target, ast.Call) and self._callee(target, p) is not None
            repl = ast.copy_location(ast.Name(id=tmp, ctx=ast.Load()), target)
            n2 = _replace(n, target, repl)
            results = self._inline(target, p, outcomes) if is_call else self._expand_lookup(target, p, outcomes)
            for s2, rv in reversed(results):
                s2.env[tmp] = rv
                work.append((s2, n2))
        return done

    # -- statements -----------------------------------------------------------------------------------------------------------
    def run(self, body, path=None):
        """Enumerate all paths through a statement list; returns list of Outcome."""
        outcomes = []
        self._block(body, path or Path(), outcomes)
        return outcomes

    def _block(self, body, path, outcomes):
        """Returns list of live paths after the block (paths that hit break / continue carry .flow and skip the rest)."""
        live = [path]
        parked = []
        for st in body:
            nxt = []
            for p in live:
                for q in self._stmt(st, p, outcomes):
                    (parked if q.flow is not None else nxt).append(q)
            live = nxt
            if not live:
                break
        return live + parked

    def _named_test(self, test, path):
        """`flag = tokens[3] == '('` ... `if flag:` is `if tokens[3] == '(':` as long as no name of the expression was rebound."""
        if isinstance(test, ast.UnaryOp) and isinstance(test.op, ast.Not):
            inner = self._named_test(test.operand, path)
            return None if inner is None else ast.copy_location(ast.UnaryOp(op=ast.Not(), operand=inner), test)
        if isinstance(test, ast.Name) and test.id in path.tests:
            node, snap = path.tests[test.id]
            if path.env.get(test.id) == ('expr', unparse(node)) and all(path.env.get(k) == v for k, v in snap.items()):
                return node
        return None

    @staticmethod
    def tok_base(v):
        """(token provenance, via) when the value is a token seen raw, lower-cased, through lookup_register or int()."""
        via = 'raw'
        for _ in range(4):
            if v[0] in ('tok', 'tokend'):
                return v, via
            if v[0] == 'lower':
                v, via = v[1], ('lower' if via == 'raw' else via)
            elif v[0] == 'int':
                v, via = v[1], 'int'
            elif v[0] == 'call' and v[1] == 'lookup_register' and v[2]:
                v, via = v[2][0], 'lookup'
            else:
                return None
        return None

    def _note_test(self, test, path, polarity):
        """Record which tokens a test looks at, and how (see Path.tok_tests)."""
        while isinstance(test, ast.UnaryOp) and isinstance(test.op, ast.Not):
            test, polarity = test.operand, not polarity
        if isinstance(test, ast.Compare) and len(test.ops) == 1:
            op = test.ops[0]
            lv, rv = self.ev(test.left, path), self.ev(test.comparators[0], path)
            b = self.tok_base(lv)
            if b is None and isinstance(op, (ast.Eq, ast.NotEq)) and self.tok_base(rv) is not None:
                lv, rv = rv, lv
                b = self.tok_base(lv)
            if b is not None:
                pol = polarity if isinstance(op, (ast.Eq, ast.In, ast.Is)) else not polarity
                if isinstance(op, (ast.Eq, ast.NotEq)) and rv[0] == 'const':
                    path.tok_tests.append((b[0], 'eq', rv[1], pol, b[1]))
                    return
                if isinstance(op, (ast.In, ast.NotIn)):
                    if rv[0] == 'ref':
                        path.tok_tests.append((b[0], 'in-table', rv[1], pol, b[1]))
                        return
                    vals = self.table_values(rv) if rv[0] in ('const', 'dictv') else (
                        {x[1] for x in rv[1]} if rv[0] == 'list' and all(x[0] == 'const' for x in rv[1]) else None)
                    if vals is not None:
                        path.tok_tests.append((b[0], 'in', frozenset(vals), pol, b[1]))
                        return
        self._note_use(test, path, polarity, unparse(test))

    def _note_use(self, expr, path, polarity, text):
        """Tokens that flow into an expression this evaluator does not interpret (an opaque test, a call statement)."""
        seen = set()
        for n in ast.walk(expr):
            if isinstance(n, (ast.Name, ast.Subscript, ast.Call, ast.Attribute)):
                try:
                    v = self.ev(n, path)
                except AnalysisError:
                    continue
                for t in toks_in(v):
                    if t not in seen:
                        seen.add(t)
                        path.tok_tests.append((t, 'other', text, polarity, 'raw'))

    def _fork(self, test, path, outcomes, then_body, else_body):
        named = self._named_test(test, path)
        if named is not None:
            test = named
        if isinstance(test, ast.BoolOp) and len(test.values) >= 2:
            # short-circuit evaluation as nested tests, so that each operand teaches its own fact:
            #   if A or B: X else: Y   ==   if A: X else: (if B: X else: Y)      if A and B: X else: Y   ==   if A: (if B: X else: Y) else: Y
            first = test.values[0]
            rest = test.values[1] if len(test.values) == 2 else ast.copy_location(ast.BoolOp(op=test.op, values=test.values[1:]), test)
            inner = ast.copy_location(ast.If(test=rest, body=then_body, orelse=else_body or []), test)
            if isinstance(test.op, ast.Or):
                return self._fork(first, path, outcomes, then_body, [inner])
            return self._fork(first, path, outcomes, [inner], else_body)
        out = []
        for p, t in self._hoist(test, path, outcomes):
            d = self.decide(t, p)
            text = unparse(test)
            if d is None:
                self._paths += 1
                if self._paths > MAX_PATHS:
                    raise AnalysisError('token-flow: path explosion (> {} forks)'.format(MAX_PATHS))
                tp, fp = p.clone(), p
                tp.conds.append((text, True, test))
                fp.conds.append((text, False, test))
                self._learn(t, tp, True)
                self._learn(t, fp, False)
                self._note_test(t, tp, True)
                self._note_test(t, fp, False)
                out += self._block(then_body, tp, outcomes)
                out += self._block(else_body, fp, outcomes) if else_body else [fp]
            elif d:
                out += self._block(then_body, p, outcomes)
            else:
                out += self._block(else_body, p, outcomes) if else_body else [p]
        return out

    def _stmt(self, st, path, outcomes):
        if isinstance(st, ast.Assign) and len(st.targets) > 1 and all(isinstance(t, ast.Name) for t in st.targets):
            # a = b = <value>: every name is bound to the same value
            out = []
            for p, value in self._hoist(st.value, path, outcomes):
                v = self.ev(value, p)
                for t in st.targets:
                    self.bind(t, v, p)
                    p.tests.pop(t.id, None)
                out.append(p)
            return out
        if isinstance(st, ast.Assign) and len(st.targets) == 1:
            out = []
            for p, value in self._hoist(st.value, path, outcomes):
                tgt = st.targets[0]
                if isinstance(tgt, (ast.Tuple, ast.List)):
                    if isinstance(value, (ast.Tuple, ast.List)) and len(value.elts) == len(tgt.elts) \
                            and not any(isinstance(e, ast.Starred) for e in list(value.elts) + list(tgt.elts)):
                        vals = [self.ev(e, p) for e in value.elts]
                        for t, v in zip(tgt.elts, vals):
                            self.bind(t, v, p)
                    else:
                        self.unpack(tgt.elts, self.ev(value, p), p, st)
                else:
                    self.bind(tgt, self.ev(value, p), p)
                    if isinstance(tgt, ast.Name):
                        p.tests.pop(tgt.id, None)
                        if isinstance(value, (ast.Compare, ast.BoolOp)) or (isinstance(value, ast.UnaryOp) and isinstance(value.op, ast.Not)):
                            p.tests[tgt.id] = (value, {n.id: p.env.get(n.id) for n in ast.walk(value) if isinstance(n, ast.Name)})
                out.append(p)
            return out
        if isinstance(st, ast.If):
            return self._fork(st.test, path, outcomes, st.body, st.orelse)
        if isinstance(st, ast.Return):
            for p, value in self._hoist(st.value, path, outcomes):
                v = self.ev(value, p) if value is not None else ('const', None)
                if v[0] == 'call' and v[1] in self.facts.classes and isinstance(value, ast.Call):
                    p.ctor = (v, st)
                if self._frames:
                    self._frames[-1].returns.append((p, v))
                    continue
                cls, args, kwargs = None, [], {}
                node = st
                if v[0] == 'call':
                    cls, args, kwargs = v[1], list(v[2]), dict(v[3])
                    if p.ctor is not None and p.ctor[0] is v:
                        node = p.ctor[1]
                outcomes.append(Outcome('return', p, node, cls, args, kwargs))
            return []
        if isinstance(st, ast.Raise):
            outcomes.append(Outcome('raise', path, st))
            return []
        if isinstance(st, ast.Try):
            # body on the normal path; each handler as an alternative path taken from the start of the try
            alt = [path.clone() for _ in st.handlers]
            out = self._block(st.body, path, outcomes)
            if st.orelse:
                nxt = []
                for p in out:
                    nxt += [p] if p.flow is not None else self._block(st.orelse, p, outcomes)
                out = nxt
            for h, p in zip(st.handlers, alt):
                p.conds.append(('except ' + (unparse(h.type) if h.type else '*'), True, None))
                if h.name:
                    p.env[h.name] = ('expr', h.name)
                out += self._block(h.body, p, outcomes)
            if st.finalbody:
                nxt = []
                for p in out:
                    nxt += self._block(st.finalbody, p, outcomes)
                out = nxt
            return out
        if isinstance(st, ast.Expr):
            if isinstance(st.value, ast.Constant):
                return [path]
            out = []
            for p, value in self._hoist(st.value, path, outcomes):
                if isinstance(value, ast.Call):
                    self._note_use(value, p, True, unparse(st.value))       # tokens handed to a call that is not walked
                out.append(p)
            return out
        if isinstance(st, (ast.Pass, ast.Assert, ast.Import, ast.ImportFrom, ast.Global, ast.Nonlocal)):
            return [path]
        if isinstance(st, ast.AugAssign):
            self.bind(st.target, ('expr', unparse(st)), path)
            return [path]
        if isinstance(st, ast.FunctionDef):
            path.env[st.name] = ('closure', st, path.env)
            return [path]
        if isinstance(st, ast.With):
            for item in st.items:
                if item.optional_vars is not None:
                    self.bind(item.optional_vars, ('expr', unparse(item.context_expr)), path)
            return self._block(st.body, path, outcomes)
        if isinstance(st, ast.Break):
            path.flow = 'break'
            return [path]
        if isinstance(st, ast.Continue):
            path.flow = 'continue'
            return [path]
        if isinstance(st, ast.For):
            return self._for(st, path, outcomes)
        raise AnalysisError('token-flow: statement form {} not modelled: {}'.format(type(st).__name__, unparse(st).split('\n')[0]))

    def _for(self, st, path, outcomes):
        """A loop over a literal (module-level or local) list / tuple of known length is unrolled in order."""
        out = []
        for p, it_node in self._hoist(st.iter, path, outcomes):
            it = self.ev(it_node, p)
            vals = self._iter_values(it)
            if vals is not None:
                it = ('list', vals)
            if it[0] != 'list' or any(x[0] == 'star' for x in it[1]):
                raise AnalysisError('token-flow: loop over {} is not a loop over a literal table: {}'.format(
                    unparse(st.iter), unparse(st).split('\n')[0]))
            live = [p]
            done = []
            for elt in it[1]:
                nxt = []
                for q in live:
                    self.bind(st.target, elt, q)
                    for r in self._block(st.body, q, outcomes):
                        if r.flow == 'break':
                            r.flow = None
                            done.append(r)
                        else:
                            r.flow = None
                            nxt.append(r)
                live = nxt
                if not live:
                    break
            for q in live:
                done += self._block(st.orelse, q, outcomes) if st.orelse else [q]
            out += done
        return out


# -------------------------------------------------------------------------------------------------------------------------------------
def arm_key(test):
    """Classify a test node: ('table', NAME) for `head in NAME`, ('head', 'x') for head == 'x', else ('other', text)."""
    if isinstance(test, ast.Compare) and len(test.ops) == 1 and isinstance(test.left, ast.Name) and test.left.id == 'head':
        c = test.comparators[0]
        if isinstance(test.ops[0], ast.In) and isinstance(c, ast.Name):
            return ('table', c.id)
        if isinstance(test.ops[0], ast.Eq) and isinstance(c, ast.Constant):
            return ('head', c.value)
    return ('other', unparse(test))


def path_key(flow, path):
    """(key, node) of the arm a path belongs to, from what it knows about the head; None for the else-outcomes."""
    pos_eq = [f for f in path.head_facts if f[0] == 'eq' and f[2]]
    if pos_eq:
        return ('head', pos_eq[0][1]), pos_eq[0][3]
    pos_in = [f for f in path.head_facts if f[0] == 'in' and f[2]]
    if pos_in:
        cands = flow.head_candidates(path)
        # the only value left after `!=` tests of the others (a final `else` / fall-through arm)
        if cands is not None and len(cands) == 1 and len(flow.head_candidates(path, use_ne=False)) > 1:
            return ('head', next(iter(cands))), pos_in[0][3]
        first = pos_in[0]
        if first[1][0] == 'ref':
            return ('table', first[1][1]), first[3]
        # an anonymous set of names (keys of a dispatch dict that share a parser): the named table it spells, if any
        vals = set(first[1][1])
        f = flow.facts
        named = [t for t in list(f.instruction_tables()) + sorted(f.sets) if table_values(f, ('ref', t)) == vals]
        if not named:
            named = [t for t in f.instruction_tables() if vals <= set(f.tables[t])]
        if len(named) >= 1 and (len(named) == 1 or named[0] in f.instruction_tables()):
            return ('table', named[0]), first[3]
        return ('other', unparse(first[3])), first[3]
    head_tests = {id(f[3]) for f in path.head_facts}
    for text, pol, node in path.conds:
        inner = node
        while isinstance(inner, ast.UnaryOp) and isinstance(inner.op, ast.Not):
            inner = inner.operand
        if id(inner) in head_tests:
            continue            # a test of the head that came out negative (`head not in TABLE` taken)
        if pol:
            return ('other', text), node
    return None


_cache = {}


def dispatch_outcomes(facts, fn_name, tokens_name=None, line_name='line'):
    """([(arm key, test node, [Outcome])] in order of first appearance, else-outcomes) of a token-dispatching function."""
    ck = (id(facts), fn_name, tokens_name, line_name)
    hit = _cache.get(ck)
    if hit is not None and hit[0] is facts:
        return hit[1]
    fn = facts.funcs.get(fn_name)
    if fn is None:
        raise AnalysisError('anchor vanished: ' + fn_name)
    params = [a.arg for a in fn.args.posonlyargs + fn.args.args]
    roots = {}
    if tokens_name is None:
        # parse_item(line_tokens): one parameter carrying .line and .tokens
        if len(params) != 1:
            raise AnalysisError('{}: expected the single LineTokens parameter, found {}'.format(fn_name, params))
        roots[params[0]] = ('line_tokens',)
        flow = TokenFlow(facts, roots=roots)
    else:
        if tokens_name not in params:
            raise AnalysisError('{}: token-list parameter {} vanished (parameters: {})'.format(fn_name, tokens_name, params))
        roots[tokens_name] = ('rest', 0, 0)
        if line_name in params:
            roots[line_name] = ('line',)
        flow = TokenFlow(facts, tokens_name=tokens_name, line_name=line_name, roots=roots)
    base = Path()
    base.env.update(roots)          # closures defined in the function see its parameters
    outcomes = flow.run(fn.body, base)
    arms = []
    index = {}
    else_out = []
    for o in outcomes:
        k = path_key(flow, o.path)
        if k is None:
            else_out.append(o)
            continue
        key, node = k
        if key not in index:
            index[key] = len(arms)
            arms.append((key, node, []))
        arms[index[key]][2].append(o)
    if not arms:
        raise AnalysisError('anchor vanished: dispatch chain of ' + fn_name)
    res = (arms, else_out)
    _cache[ck] = (facts, res)
    return res


def parse_item_outcomes(facts):
    """{arm key: [Outcome]} for every way parse_item tells lines apart (see the module docstring), plus the outcomes of lines that
    match nothing."""
    if 'parse_item' not in facts.funcs:
        raise AnalysisError('anchor vanished: parse_item')
    return dispatch_outcomes(facts, 'parse_item')


def chain_outcomes(facts, fn_name, tokens_name, line_name='line'):
    """Same for a function that takes the token list itself as a parameter (parse_immediate)."""
    return dispatch_outcomes(facts, fn_name, tokens_name, line_name)
