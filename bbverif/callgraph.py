"""Call graph of bronzebeard/asm.py with repo-specific resolution (partials, tables of callables, closures, methods by name)
and an exception-escape analysis over it.

The static resolution below follows names; calls through values (a function handed to a helper, an entry of a dispatch table,
a closure returned by a factory, a decorator's wrapper, a context manager, a generator ...) are only seen when the call graph
is created with ``dynamic=True``: the edges observed by the abstract interpretation of ``assemble()`` (bbverif/absint.py) are
then added to ``callees()`` / ``call_sites()``.  C15 itself no longer uses this module (it reads the interpretation directly);
``Escape`` is kept for reference only."""
import ast

from .core import AnalysisError
from .astutil import unparse, dotted

BUILTIN_BASES = {
    'KeyError': 'LookupError', 'IndexError': 'LookupError', 'LookupError': 'Exception', 'ValueError': 'Exception',
    'UnicodeDecodeError': 'ValueError', 'UnicodeError': 'ValueError', 'TypeError': 'Exception', 'AttributeError': 'Exception',
    'struct.error': 'Exception', 'ZeroDivisionError': 'ArithmeticError', 'ArithmeticError': 'Exception', 'OSError': 'Exception',
    'FileNotFoundError': 'OSError', 'AssertionError': 'Exception', 'SyntaxError': 'Exception', 'NameError': 'Exception',
    'Exception': 'BaseException', 'SystemExit': 'BaseException', 'KeyboardInterrupt': 'BaseException', 'RuntimeError': 'Exception',
    'NotImplementedError': 'RuntimeError', 'OverflowError': 'ArithmeticError',
}


class CallGraph:
    def __init__(self, facts, dynamic=False):
        self.facts = facts
        self.dynamic = dynamic
        self._dyn = None
        self.funcs = {}          # qualified name -> FunctionDef
        self.parent = {}
        self.methods_by_name = {}
        self._collect()
        self.bases = dict(BUILTIN_BASES)
        for cname, ci in facts.classes.items():
            for b in ci.bases:
                if b and (b in self.bases or b in facts.classes or b in ('Exception', 'BaseException')):
                    self.bases.setdefault(cname, b)

    def _collect(self):
        def add(node, qual):
            self.funcs[qual] = node
            for st in ast.walk(node):
                pass
            for st in node.body:
                self._nested(st, qual)
        for st in self.facts.tree.body:
            if isinstance(st, ast.FunctionDef):
                add(st, st.name)
            elif isinstance(st, ast.ClassDef):
                for m in st.body:
                    if isinstance(m, ast.FunctionDef):
                        q = '{}.{}'.format(st.name, m.name)
                        add(m, q)
                        self.methods_by_name.setdefault(m.name, []).append(q)

    def _nested(self, st, qual):
        for n in ast.iter_child_nodes(st):
            if isinstance(n, ast.FunctionDef):
                q = qual + '.' + n.name
                self.funcs[q] = n
                self.parent[q] = qual
                for s2 in n.body:
                    self._nested(s2, q)
            elif not isinstance(n, (ast.ClassDef, ast.Lambda)):
                self._nested(n, qual)
        if isinstance(st, ast.FunctionDef):
            q = qual + '.' + st.name
            if q not in self.funcs:
                self.funcs[q] = st
                self.parent[q] = qual
                for s2 in st.body:
                    self._nested(s2, q)

    def is_subtype(self, exc, base):
        cur = exc
        seen = set()
        while cur and cur not in seen:
            if cur == base:
                return True
            seen.add(cur)
            cur = self.bases.get(cur)
        return False

    # -- resolution -------------------------------------------------------------------------------------------------
    def local_defs(self, qual):
        """nested function names visible in a function (its own nested defs and those of its ancestors)."""
        out = {}
        q = qual
        while q:
            for cand, node in self.funcs.items():
                if self.parent.get(cand) == q:
                    out.setdefault(node.name, cand)
            q = self.parent.get(q)
        return out

    def encoders(self):
        out = set()
        for p in self.facts.partials.values():
            if p.func in self.funcs:
                out.add(p.func)
        return sorted(out)

    def constraint_inners(self):
        out = set()
        for p in self.facts.partials.values():
            for c in p.kwargs.get('cs', []) or []:
                for q in self.funcs:
                    if self.parent.get(q) == c.factory:
                        out.add(q)
        return sorted(out)

    def dynamic_edges(self):
        """{(caller, id(call node)): {callee}} observed by the abstract interpretation of assemble() ({} when it gives up)"""
        if self._dyn is None:
            self._dyn = {}
            if self.dynamic:
                try:
                    from .absint import Interp
                    from .props.c15 import entry_args
                    it = Interp(self.facts.tree)
                    it.run('assemble', entry_args)
                    self._dyn = {k: {q for q in v if q in self.funcs} for k, v in it.call_edges.items()}
                except AnalysisError:
                    self._dyn = {}
        return self._dyn

    def callees(self, qual, call):
        """Qualified names of repo functions a Call node may reach (memoised)."""
        key = (qual, id(call))
        memo = self.__dict__.setdefault('_memo', {})
        if key not in memo:
            found = list(self._callees(qual, call))
            for q in sorted(self.dynamic_edges().get(key, ())):
                if q not in found:
                    found.append(q)
            memo[key] = found
        return memo[key]

    def call_sites(self):
        """{callee qualified name: [(caller FunctionDef, Call node)]}"""
        if '_sites' not in self.__dict__:
            from .astutil import walk_no_nested
            sites = {}
            for cq, cfn in self.funcs.items():
                for n in walk_no_nested(cfn):
                    if isinstance(n, ast.Call):
                        for q in self.callees(cq, n):
                            sites.setdefault(q, []).append((cfn, n))
            self._sites = sites
        return self._sites

    def _callees(self, qual, call):
        f = call.func
        facts = self.facts
        locals_ = self.local_defs(qual)
        fn = self.funcs[qual]
        if isinstance(f, ast.Name):
            name = f.id
            if name in locals_:
                return [locals_[name]]
            if name in facts.funcs:
                return [name]
            if name in facts.classes:
                q = '{}.__init__'.format(name)
                owner = facts.init_owner(name)
                return ['{}.__init__'.format(owner.name)] if owner is not None and '{}.__init__'.format(owner.name) in self.funcs else []
            if name in facts.partials:
                return self.partial_targets(name)
            # local variable holding a callable: encode_func = INSTRUCTIONS[...], c in cs, pred in preds
            for n in ast.walk(fn):
                if isinstance(n, ast.Assign) and any(isinstance(t, ast.Name) and t.id == name for t in n.targets):
                    v = n.value
                    if isinstance(v, ast.Subscript) and isinstance(v.value, ast.Name) and v.value.id in facts.tables:
                        tbl = facts.tables[v.value.id]
                        out = []
                        for b in set(tbl.values()):
                            if isinstance(b, str) and b in facts.partials:
                                out.extend(self.partial_targets(b))
                        return sorted(set(out))
            if name in [a.arg for a in fn.args.args] or True:
                # loop variables over closures: `for c in cs or []: c(...)`, `pred(item, position, env) for pred in preds`
                for n in ast.walk(fn):
                    tgt = None
                    if isinstance(n, ast.For) and isinstance(n.target, ast.Name) and n.target.id == name:
                        tgt = n.iter
                    if isinstance(n, ast.comprehension) and isinstance(n.target, ast.Name) and n.target.id == name:
                        tgt = n.iter
                    if tgt is not None:
                        text = unparse(tgt)
                        if text.startswith('cs'):
                            return self.constraint_inners()
                        if text == 'preds':
                            # predicate closures built by the factories nested in this function
                            out = []
                            for q, node in self.funcs.items():
                                par = self.parent.get(q)
                                if par and self.parent.get(par) == qual.split('.')[0] and q.count('.') == 2:
                                    out.append(q)
                            return sorted(out)
            return []
        if isinstance(f, ast.Attribute):
            if f.attr == '__class__' or (isinstance(f.value, ast.Attribute) and f.value.attr == '__class__'):
                return sorted(q for q in self.funcs if q.endswith('.__init__') and facts.is_subclass(q.split('.')[0], 'Item'))
            d = dotted(f)
            if d and d.split('.')[0] in ('os', 'struct', 're', 'copy', 'sys', 'logging', 'log', 'argparse'):
                return []
            if f.attr in self.methods_by_name and f.attr not in ('format', 'append', 'extend', 'update', 'items', 'keys', 'values', 'get',
                                                                    'lower', 'strip', 'split', 'encode', 'decode', 'join', 'startswith',
                                                                    'endswith', 'read', 'write', 'replace', 'lstrip', 'rstrip', 'match', 'group'):
                if isinstance(f.value, ast.Call) and dotted(f.value.func) == 'super':
                    return []
                return sorted(self.methods_by_name[f.attr])
            return []
        return []

    def partial_targets(self, name):
        p = self.facts.partials[name]
        out = [p.func] if p.func in self.funcs else []
        for c in p.kwargs.get('cs', []) or []:
            for q in self.funcs:
                if self.parent.get(q) == c.factory:
                    out.append(q)
        return out


class Escape:
    """exception types (by name) that may leave each function through explicit raises / modelled library raisers."""

    def __init__(self, cg, library_raisers=None, dead_raises=None, safe_calls=None):
        self.cg = cg
        self.safe_calls = safe_calls or set()
        self.library_raisers = library_raisers or (lambda qual, call: [])
        self.dead = dead_raises or set()
        self.esc = {q: {} for q in cg.funcs}       # qual -> {exc: chain}
        self.handlers_seen = []                      # (qual, handler node, caught types, converts_to)
        changed = True
        rounds = 0
        while changed:
            changed = False
            rounds += 1
            if rounds > 50:
                raise AnalysisError('escape analysis did not converge')
            for q, fn in cg.funcs.items():
                new = {}
                self.scan(q, fn.body, [], new, None)
                for key, chain in new.items():
                    if key not in self.esc[q]:
                        self.esc[q][key] = chain
                        changed = True

    def catches(self, handler, exc):
        t = handler.type
        if t is None:
            return True
        names = [dotted(e) for e in t.elts] if isinstance(t, ast.Tuple) else [dotted(t)]
        return any(n and self.cg.is_subtype(exc, n) for n in names)

    def emit(self, exc, chain, handlers, out):
        """keys are (exception type, id of the originating raise / library call): every origin keeps its own witness chain"""
        for hs in reversed(handlers):
            for h in hs:
                if self.catches(h, exc):
                    self.handlers_seen.append((chain[0][0], h, exc, chain))
                    return h
        key = (exc, id(chain[-1][1]))
        if key not in out or len(chain) < len(out[key]):
            out[key] = chain
        return None

    def scan(self, qual, body, handlers, out, caught_now):
        for st in body:
            self.scan_stmt(qual, st, handlers, out, caught_now)

    def scan_stmt(self, qual, st, handlers, out, caught_now):
        if isinstance(st, (ast.FunctionDef, ast.ClassDef)):
            return
        if isinstance(st, ast.Try):
            self.scan(qual, st.body, handlers + [st.handlers], out, caught_now)
            for h in st.handlers:
                self.scan(qual, h.body, handlers, out, h)
            self.scan(qual, st.orelse, handlers, out, caught_now)
            self.scan(qual, st.finalbody, handlers, out, caught_now)
            return
        if isinstance(st, ast.Raise):
            if id(st) in self.dead:
                return
            if st.exc is None:
                return      # bare re-raise: the caught types keep escaping; handled by not consuming (approximation: see below)
            exc = dotted(st.exc.func) if isinstance(st.exc, ast.Call) else dotted(st.exc)
            if exc:
                self.emit(exc, [(qual, st)], handlers, out)
            # calls inside the raise expression
        for field, value in ast.iter_fields(st):
            if isinstance(value, list):
                if value and isinstance(value[0], ast.stmt):
                    self.scan(qual, value, handlers, out, caught_now)
                else:
                    for v in value:
                        if isinstance(v, ast.AST):
                            self.scan_expr(qual, v, handlers, out)
            elif isinstance(value, ast.AST):
                self.scan_expr(qual, value, handlers, out)

    def scan_expr(self, qual, node, handlers, out):
        for n in ast.walk(node):
            if isinstance(n, (ast.Lambda,)):
                continue
            if isinstance(n, ast.Call):
                for exc in self.library_raisers(qual, n):
                    self.emit(exc, [(qual, n)], handlers, out)
                if id(n) in self.safe_calls:
                    continue
                for callee in self.cg.callees(qual, n):
                    for (exc, origin), chain in list(self.esc.get(callee, {}).items()):
                        self.emit(exc, [(qual, n)] + chain, handlers, out)
