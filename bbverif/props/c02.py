"""C02 - RV32C instructions encode exactly as specified, one-to-one (both directions)."""
from ..core import Report, Finding
from ..facts import Facts
from .. import oracle, encprops
from ..encsum import all_summaries, enumerate_image, summary_of

LEVEL = 'proof'


def reverse_walk(rep, facts, mns, rule):
    """Every legal, non-HINT, non-reserved RV32C integer halfword lies in exactly one derived image, and every image point
    is such a halfword of the same mnemonic.  The images are those of the *derived closed forms*; the oracle side is an
    independent decoder written from the ISA listing."""
    sums = all_summaries(facts)
    images = {}
    unknown = set()
    for m in mns:
        s = summary_of(rep, sums, m)
        if s is None:
            unknown.add(m)          # the image of this mnemonic is not derived: nothing is concluded about the halfwords it owns
            images[m] = set()
            continue
        if s.always_refused or s.bits is None:
            images[m] = set()
            continue
        images[m] = enumerate_image(s, 16)
    owner = {}
    multi = {}
    for m, img in images.items():
        for w in img:
            if w >= 1 << 16:
                continue
            if w in owner:
                multi.setdefault(w, {owner[w]}).add(m)
            owner[w] = m
    missing, foreign, wrong = {}, {}, {}
    legal = 0
    for h in range(1 << 16):
        want = oracle.rvc_decode(h)
        got = owner.get(h)
        if want is not None:
            legal += 1
            if want in unknown:
                continue
            if got is None:
                missing.setdefault(want, []).append(h)
            elif got != want or h in multi:
                wrong.setdefault((want, got), []).append(h)
        elif got is not None:
            foreign.setdefault(got, []).append(h)
    rep.count('halfwords classified', 1 << 16)
    rep.count('legal RV32C integer halfwords (oracle)', legal)
    rep.analysed['image sizes'] = {m: len(i) for m, i in images.items()}
    for m in mns:
        if m in unknown:
            continue
        enc = sums[m].encoder
        line = encprops.fn_line(facts, enc)
        ok = True
        if m in missing:
            ok = False
            hs = missing[m]
            rep.fail(Finding(rule, '{}:{}'.format(enc, m), 'legal halfwords not produced',
                             '{}: {} legal encodings (e.g. {}) cannot be produced by any accepted operand tuple'.format(
                                 m, len(hs), ', '.join('0x%04x' % h for h in hs[:4])), line=line), instance=m + ' onto')
        if m in foreign:
            ok = False
            hs = foreign[m]
            rep.fail(Finding(rule, '{}:{}'.format(enc, m), 'illegal halfwords produced',
                             '{}: {} accepted operand tuples produce HINT / reserved / non-RV32C halfwords (e.g. {})'.format(
                                 m, len(hs), ', '.join('0x%04x' % h for h in hs[:4])), line=line), instance=m + ' into')
        for (want, got), hs in wrong.items():
            if got == m and want != m:
                ok = False
                rep.fail(Finding(rule, '{}:{}'.format(enc, m), 'collides with ' + want,
                                 '{}: {} halfwords (e.g. 0x{:04x}) are encodings of {}'.format(m, len(hs), hs[0], want), line=line),
                         instance=m + ' collide')
        if ok:
            rep.ok(rule, '{}: image ({} halfwords) == legal encodings of {}'.format(m, len(images[m]), m))
    rep.sample({'reverse_walk': {'legal': legal, 'owned': len(owner), 'multi-owned': len(multi)}})


def run(repo, tier):
    facts = Facts(repo.asm)
    rep = Report('C02', LEVEL,
                 'Same abstract interpretation as C01 over the 13 compressed format encoders and 27 bindings, including the '
                 'constraint closures and the 3-bit register classes; forward: derived layout and legal operand sets equal the RVC '
                 'table; reverse: the images of the derived closed forms are enumerated and compared, over all 65 536 halfwords, '
                 'with an independent RV32C decoder written from the ISA listing (legal / HINT / reserved / RV64 / FP).')
    rep.trusted_base = ['CPython ast', 'bbverif.bitdom transfer functions', 'bbverif.oracle RVC table and rvc_decode (from the ISA manual)']
    rep.not_decided = ['value computed by eval() for an operand expression (C11 trusted base)']
    mns = encprops.check_tables(rep, facts, 'R2.tables', oracle.RVC, compressed=True)
    at = encprops.attempt
    at(rep, encprops.check_layout, rep, facts, mns, 'R2.layout')
    at(rep, encprops.check_injective, rep, facts, mns, 'R2.injective')
    at(rep, encprops.check_acceptance, rep, facts, mns, 'R2.legal-set')
    at(rep, reverse_walk, rep, facts, mns, 'R2.reverse')
    at(rep, encprops.check_wiring, rep, facts, 'R2.wiring', True, repo.text['docs/instruction_reference.rst'])
    at(rep, encprops.check_resolve_instructions, rep, facts, 'R2.pack')
    rep.floor('mnemonic bindings', 27)
    rep.floor('encoder summaries', 27)
    rep.floor('parse paths analysed', 15)
    rep.floor('halfwords classified', 65536)
    return rep
