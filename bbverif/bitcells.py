"""Partition cells and abstract values of the bit-provenance interpreter (bitdom).

Accepted set of an operand = partition of its *original* values into cells (lo, hi, m, r): originals in [lo, hi] with
orig % m == r.  Every cell carries a map  channel -> delta :  a channel is one piecewise-constant adjustment of the
operand ("orig + delta on this cell").  Channel 0 is the identity.  Values are pure functions of the original operand
value (a View names a channel), so rebinding or aliasing a variable can never make another value stale.
"""
import ast

from .core import AnalysisError

INF = 1 << 200


class Unsupported(AnalysisError):
    pass


# ---------------------------------------------------------------------------------------------------------------
# abstract values
class Param:
    """an encoder parameter nobody has looked at yet (an integer operand or a register spelling)"""

    def __init__(self, name):
        self.name = name

    def __eq__(self, o):
        return isinstance(o, Param) and o.name == self.name

    def __hash__(self):
        return hash(('Param', self.name))

    def __repr__(self):
        return 'Param({})'.format(self.name)


class View:
    """((orig(src) + delta[ch] + add) >> shift) [mod 2**trunc]"""
    __slots__ = ('src', 'ch', 'add', 'shift', 'trunc')

    def __init__(self, src, ch=0, add=0, shift=0, trunc=None):
        self.src, self.ch, self.add, self.shift, self.trunc = src, ch, add, shift, trunc

    def key(self):
        return (self.src, self.ch, self.add, self.shift, self.trunc)

    def __eq__(self, o):
        return isinstance(o, View) and o.key() == self.key()

    def __hash__(self):
        return hash(self.key())

    def __repr__(self):
        return 'View({}, ch={}, add={}, shift={}, trunc={})'.format(self.src, self.ch, self.add, self.shift, self.trunc)


class Bits:
    """non-negative integer; bit i is 0, 1 or (src, j) = two's-complement bit j of orig(src)"""
    __slots__ = ('bits', 'origin', 'tags')

    def __init__(self, bits, origin=None, tags=frozenset()):
        bits = list(bits)
        while bits and bits[-1] == 0:
            bits.pop()
        self.bits = tuple(bits)
        self.origin = origin          # the mask event that produced the value (sign-extension idiom retracts it)
        self.tags = tags              # {(src, channel)}: adjusted values of operands whose bits went into this value

    def derive(self, bits, keep_origin=True):
        return Bits(bits, self.origin if keep_origin else None, self.tags)

    def __eq__(self, o):
        return isinstance(o, Bits) and o.bits == self.bits

    def __hash__(self):
        return hash(self.bits)

    def __repr__(self):
        return 'Bits({})'.format(list(self.bits))

    @staticmethod
    def of_int(n):
        if n < 0:
            raise Unsupported('negative constant used as a bit field: {}'.format(n))
        return Bits([(n >> i) & 1 for i in range(n.bit_length())])

    def range(self):
        lo = sum(1 << i for i, b in enumerate(self.bits) if b == 1)
        hi = sum(1 << i for i, b in enumerate(self.bits) if b != 0)
        return lo, hi

    def is_const(self):
        return all(b in (0, 1) for b in self.bits)

    def const(self):
        return sum(1 << i for i, b in enumerate(self.bits) if b == 1)


class CU32:
    """ctypes.c_uint32(v) waiting for .value"""

    def __init__(self, v):
        self.v = v


class ModVal:
    """x % k with k a positive constant, not yet used (a divisibility test or, for k = 2**n, a bit slice)"""

    def __init__(self, x, k):
        self.x, self.k = x, k


class NegMask:
    """x & ~m (m >= 0): the bits of x outside m, waiting for a zero test"""

    def __init__(self, x, m):
        self.x, self.m = x, m


class XorVal:
    """bits ^ constant, waiting for the `- constant` of the sign-extension idiom ((x & m) ^ s) - s"""

    def __init__(self, bits, c):
        self.bits, self.c = bits, c


class Maybe:
    """result of TABLE.get(key[, default]) for an open key: View of the table value, or `default` when the key is missing"""

    def __init__(self, view, default):
        self.view, self.default = view, default

    def __repr__(self):
        return 'Maybe({}, default={})'.format(self.view, self.default)


class TableVal:
    """some value already present in the named table"""

    def __init__(self, table):
        self.table = table

    def __eq__(self, o):
        return isinstance(o, TableVal) and o.table == self.table

    def __hash__(self):
        return hash(('TableVal', self.table))


class TableRef:
    """a module-level dict table (REGISTERS ...), by name: lookups go through the table model wherever the value flows"""

    def __init__(self, name):
        self.name = name

    def __eq__(self, o):
        return isinstance(o, TableRef) and o.name == self.name

    def __hash__(self):
        return hash(('TableRef', self.name))

    def __repr__(self):
        return 'TableRef({})'.format(self.name)


class Opaque:
    """a value the analysis does not look into (message strings, derived spellings); any arithmetic use is refused"""

    def __init__(self, desc):
        self.desc = desc

    def __eq__(self, o):
        return isinstance(o, Opaque) and o.desc == self.desc

    def __hash__(self):
        return hash(('Opaque', self.desc))

    def __repr__(self):
        return 'Opaque({})'.format(self.desc)


class FuncValue:
    """a function of the analysed module (possibly nested, with the folded locals of its factory)"""

    def __init__(self, fdef, cenv=None, label=None):
        self.fdef, self.cenv, self.label = fdef, cenv, label

    def __repr__(self):
        return 'Func({})'.format(self.label or self.fdef.name)


class PartialValue:
    """functools.partial(func, **kwargs) built by a helper of the analysed module"""

    def __init__(self, func, kwargs):
        self.func, self.kwargs = func, dict(kwargs)

    def __repr__(self):
        return 'partial({}, {})'.format(self.func, self.kwargs)


class LetterTerms:
    """[elt for c in <letters of a spelling>]: the value of elt for every letter the spelling may contain"""

    def __init__(self, pname, mapping, distinct):
        self.pname, self.mapping, self.distinct = pname, mapping, distinct


class RecordType:
    """namedtuple / typing.NamedTuple / @dataclass with plain fields: a folded record constructor"""

    def __init__(self, name, fields, defaults, is_tuple):
        self.name, self.fields, self.defaults, self.is_tuple = name, list(fields), dict(defaults), is_tuple

    def __repr__(self):
        return 'RecordType({})'.format(self.name)


class Record:
    def __init__(self, rtype, values):
        self.rtype, self.values = rtype, values       # values: {field: abstract value}

    def as_list(self):
        return [self.values[f] for f in self.rtype.fields]

    def __eq__(self, o):
        if not (isinstance(o, Record) and o.rtype is self.rtype):
            return False
        try:
            return all(type(a) == type(b) and a == b for a, b in zip(self.as_list(), o.as_list()))
        except Exception:
            return False

    def __hash__(self):
        return hash(('Record', self.rtype.name))

    def __repr__(self):
        return '{}({})'.format(self.rtype.name, self.values)


class ClassValue:
    """a plain class of the analysed module (explicit __init__ storing attributes, methods, properties)"""

    def __init__(self, cdef):
        self.cdef = cdef
        self.name = cdef.name

    def __repr__(self):
        return 'Class({})'.format(self.name)


class Obj:
    """an instance of a ClassValue.  While it may still change its attributes live in the state's heap (so that branches
    do not see each other's stores); a module-level constant object is frozen and carries them itself."""
    _n = [0]

    def __init__(self, cls):
        self.cls = cls
        Obj._n[0] += 1
        self.oid = Obj._n[0]
        self.frozen = None

    def __repr__(self):
        return '<{} #{}>'.format(self.cls.name, self.oid)


class BoundMethod:
    def __init__(self, obj, fdef, label):
        self.obj, self.fdef, self.label = obj, fdef, label


class Top:
    def __repr__(self):
        return 'TOP'


TOP = Top()


# ---------------------------------------------------------------------------------------------------------------
# cells
class PCell:
    __slots__ = ('lo', 'hi', 'm', 'r', 'd')

    def __init__(self, lo, hi, m=1, r=0, d=None):
        self.lo, self.hi, self.m, self.r = lo, hi, m, r
        self.d = d if d is not None else {0: 0}

    def copy(self):
        return PCell(self.lo, self.hi, self.m, self.r, dict(self.d))

    def rng(self):
        return (self.lo, self.hi, self.m, self.r)

    def sub(self, lo, hi, m=None, r=None):
        """sub-cell (tightened to the congruence) or None when empty"""
        m = self.m if m is None else m
        r = self.r if r is None else r
        lo, hi = max(self.lo, lo), min(self.hi, hi)
        if m > 1:
            if lo > -INF:
                lo = lo + ((r - lo) % m)
            if hi < INF:
                hi = hi - ((hi - r) % m)
        if lo > hi:
            return None
        return PCell(lo, hi, m, r, dict(self.d))

    def off(self, ch, add=0):
        if ch not in self.d:
            raise Unsupported('internal: adjustment channel {} is not defined on cell {}'.format(ch, self))
        return self.d[ch] + add

    def __repr__(self):
        lo = '-inf' if self.lo <= -INF else self.lo
        hi = '+inf' if self.hi >= INF else self.hi
        s = '[{}, {}]'.format(lo, hi)
        if self.m > 1:
            s += ' %{}=={}'.format(self.m, self.r)
        return s + ' {}'.format(self.d)


class Cell:
    """Summary-level cell: originals in [lo, hi], orig % m == r, encoded value = orig + delta."""
    __slots__ = ('lo', 'hi', 'delta', 'm', 'r')

    def __init__(self, lo, hi, delta=0, m=1, r=0):
        self.lo, self.hi, self.delta, self.m, self.r = lo, hi, delta, m, r

    def copy(self):
        return Cell(self.lo, self.hi, self.delta, self.m, self.r)

    def norm(self):
        """Tighten bounds to the congruence; return None if empty."""
        lo, hi = self.lo, self.hi
        if self.m > 1:
            if lo > -INF:
                lo = lo + ((self.r - lo) % self.m)
            if hi < INF:
                hi = hi - ((hi - self.r) % self.m)
        if lo > hi:
            return None
        return Cell(lo, hi, self.delta, self.m, self.r)

    def tup(self):
        return (self.lo, self.hi, self.delta, self.m, self.r)

    def __repr__(self):
        lo = '-inf' if self.lo <= -INF else self.lo
        hi = '+inf' if self.hi >= INF else self.hi
        s = '[{}, {}]'.format(lo, hi)
        if self.m > 1:
            s += ' %{}=={}'.format(self.m, self.r)
        if self.delta:
            s += ' delta{:+d}'.format(self.delta)
        return s


def merge_cells(cells):
    cells = [c for c in (x.norm() for x in cells) if c is not None]
    cells.sort(key=lambda c: (c.delta, c.m, c.r, c.lo))
    out = []
    for c in cells:
        if out:
            p = out[-1]
            if (p.delta, p.m, p.r) == (c.delta, c.m, c.r) and c.lo <= p.hi + p.m:
                p.hi = max(p.hi, c.hi)
                continue
        out.append(c.copy())
    out.sort(key=lambda c: c.lo)
    return out


def merge_pcells(cells):
    """merge adjacent cells that agree on the congruence and on every channel"""
    cells = sorted(cells, key=lambda c: (c.m, c.r, sorted(c.d.items()), c.lo))
    out = []
    for c in cells:
        if out:
            p = out[-1]
            if (p.m, p.r) == (c.m, c.r) and p.d == c.d and c.lo <= p.hi + p.m:
                p.hi = max(p.hi, c.hi)
                continue
        out.append(c.copy())
    out.sort(key=lambda c: c.lo)
    return out


def cells_overlap(a, b):
    if a.hi < b.lo or b.hi < a.lo:
        return False
    if a.m == b.m:
        return a.r == b.r
    g = _gcd(a.m, b.m)
    return a.r % g == b.r % g


def _gcd(a, b):
    while b:
        a, b = b, a % b
    return a


# ---------------------------------------------------------------------------------------------------------------
# predicates: cell, offset (current = orig + offset) -> (cells where it holds, cells where it does not, exact)
def decide_range(lo, hi, op, b):
    t = type(op)
    if t is ast.Lt:
        return True if hi < b else (False if lo >= b else None)
    if t is ast.LtE:
        return True if hi <= b else (False if lo > b else None)
    if t is ast.Gt:
        return True if lo > b else (False if hi <= b else None)
    if t is ast.GtE:
        return True if lo >= b else (False if hi < b else None)
    if t is ast.Eq:
        return False if (b < lo or b > hi) else (True if lo == hi == b else None)
    if t is ast.NotEq:
        return True if (b < lo or b > hi) else (False if lo == hi == b else None)
    return None


def _subs(cell, *ranges):
    out = []
    for lo, hi in ranges:
        c = cell.sub(lo, hi)
        if c is not None:
            out.append(c)
    return out


def cmp_pred(opt, b, what):
    def pred(cell, off):
        t = b - off        # orig OP t
        if opt is ast.Lt:
            return _subs(cell, (-INF, t - 1)), _subs(cell, (t, INF)), True
        if opt is ast.LtE:
            return _subs(cell, (-INF, t)), _subs(cell, (t + 1, INF)), True
        if opt is ast.Gt:
            return _subs(cell, (t + 1, INF)), _subs(cell, (-INF, t)), True
        if opt is ast.GtE:
            return _subs(cell, (t, INF)), _subs(cell, (-INF, t - 1)), True
        if opt is ast.Eq:
            return _subs(cell, (t, t)), _subs(cell, (-INF, t - 1), (t + 1, INF)), True
        if opt is ast.NotEq:
            return _subs(cell, (-INF, t - 1), (t + 1, INF)), _subs(cell, (t, t)), True
        raise Unsupported('comparison operator {} at {}'.format(opt.__name__, what))
    return pred


def interval_pred(a, b, positive):
    """a <= current <= b"""
    return intervals_pred([(a, b)], positive)


def intervals_pred(ivs, positive):
    """current in the union of the closed intervals ivs (sorted, disjoint)"""
    def pred(cell, off):
        inside, outside = [], []
        cur = -INF
        for a, b in ivs:
            lo, hi = a - off, b - off
            inside.extend(_subs(cell, (lo, hi)))
            outside.extend(_subs(cell, (cur, lo - 1)))
            cur = hi + 1
        outside.extend(_subs(cell, (cur, INF)))
        return (inside, outside, True) if positive else (outside, inside, True)
    return pred


def points_pred(pts, positive):
    def pred(cell, off):
        inside, outside = [], []
        cur = cell.lo
        for p in pts:
            t = p - off
            if t < cell.lo or t > cell.hi:
                continue
            inside.extend(_subs(cell, (t, t)))
            outside.extend(_subs(cell, (cur, t - 1)))
            cur = t + 1
        outside.extend(_subs(cell, (cur, cell.hi)))
        return (inside, outside, True) if positive else (outside, inside, True)
    return pred


def mod_pred(k, b, positive):
    def pred(cell, off):
        # (orig + off) % k == b   <=>   orig % k == (b - off) % k
        r = (b - off) % k

        def mk(m, rr):
            c = cell.sub(cell.lo, cell.hi, m, rr)
            return [c] if c is not None else []
        if cell.m == 1:
            eq = mk(k, r)
        elif cell.m % k == 0:
            eq = [cell.copy()] if cell.r % k == r else []
        elif k % cell.m == 0:
            eq = mk(k, r) if r % cell.m == cell.r else []
        else:
            raise Unsupported('combination of congruences mod {} and mod {}'.format(cell.m, k))
        exact = True
        if cell.m == 1:
            if k <= 64:
                ne = [c for rr in range(k) if rr != r for c in mk(k, rr)]
            else:
                ne, exact = [cell.copy()], False
        elif cell.m % k == 0:
            ne = [] if eq else [cell.copy()]
        else:
            if not (r % cell.m == cell.r):
                ne = [cell.copy()]
            elif k // cell.m <= 64:
                ne = [c for rr in range(cell.r, k, cell.m) if rr != r for c in mk(k, rr)]
            else:
                ne, exact = [cell.copy()], False
        return (eq, ne, exact) if positive else (ne, eq, exact)
    return pred


def origbit_pred(bit, want_zero):
    """test of two's-complement bit `bit` of the ORIGINAL operand value"""
    def pred(cell, off):
        if cell.lo <= -INF or cell.hi >= INF:
            raise Unsupported('bit test on an unbounded operand')
        period = 1 << (bit + 1)
        half = 1 << bit
        if (cell.hi - cell.lo) // period > 4096:
            raise Unsupported('bit test over too wide an operand range')
        zero, one = [], []
        base = (cell.lo // period) * period
        while base <= cell.hi:
            zero.extend(_subs(cell, (base, base + half - 1)))
            one.extend(_subs(cell, (base + half, base + period - 1)))
            base += period
        return (zero, one, True) if want_zero else (one, zero, True)
    return pred
