"""Self-test variants for the text front end (wiring.TokenFlow / encprops.check_wiring), the pack rule and the parts of the program
model (facts) they rest on: round-6 idioms.  Same format as variants.py, merged into its lists at import time."""

A = 'bronzebeard/asm.py'

# ---- anchors in /repo's bronzebeard/asm.py ----------------------------------------------------------------------------------------
PARSE_ITEM_DEF = "def parse_item(line_tokens):\n"
S_ARM = ("    elif head in S_TYPE_INSTRUCTIONS:\n        if tokens[3] == '(':\n            name, rs2, offset, _, rs1, _ = tokens\n            imm = [offset]\n"
         "        else:\n            name, rs1, rs2, *imm = tokens\n        name = name.lower()\n        imm = parse_immediate(imm, line)\n"
         "        return STypeInstruction(line, name, rs1, rs2, imm)\n")
CS_ARM = S_ARM.replace('S_TYPE_INSTRUCTIONS', 'CS_TYPE_INSTRUCTIONS').replace('STypeInstruction', 'CSTypeInstruction')


def store_class(paren_targets="self.name, self.rs2, offset, _, self.rs1, _"):
    return ("class StoreOperands:\n    def __init__(self, tokens):\n        if tokens[3] == '(':\n            " + paren_targets + " = tokens\n"
            "            self.imm = [offset]\n        else:\n            self.name, self.rs1, self.rs2, *self.imm = tokens\n\n"
            "    def immediate(self, line):\n        return parse_immediate(self.imm, line)\n\n\n")


def store_arm(table, cls):
    return ("    elif head in " + table + ":\n        operands = StoreOperands(tokens)\n        name = operands.name.lower()\n"
            "        return " + cls + "(line, name, operands.rs1, operands.rs2, operands.immediate(line))\n")


def helper_class_edits(paren_targets="self.name, self.rs2, offset, _, self.rs1, _"):
    return [(A, PARSE_ITEM_DEF, store_class(paren_targets) + PARSE_ITEM_DEF),
            (A, S_ARM, store_arm('S_TYPE_INSTRUCTIONS', 'STypeInstruction')), (A, CS_ARM, store_arm('CS_TYPE_INSTRUCTIONS', 'CSTypeInstruction'))]


ORDERING_OLD = ("        # check for specific ordering bits\n        if len(ordering) == 0:\n            aq, rl = 0, 0\n        elif len(ordering) == 2:\n"
                "            aq, rl = ordering\n        else:\n            raise AssemblerError('invalid syntax for atomic instruction', line)\n")


def ordering_new(targets='aq, rl'):
    return ("        if len(ordering) not in (0, 2):\n            raise AssemblerError('invalid syntax for atomic instruction', line)\n"
            "        " + targets + " = ordering or (0, 0)\n")


CR_ARM = ("    # cr-type instructions\n    elif head in CR_TYPE_INSTRUCTIONS:\n        if len(tokens) != 3:\n            raise AssemblerError('cr-type instructions require exactly 2 args', line)\n"
          "        name, rd_rs1, rs2 = tokens\n        name = name.lower()\n        return CRTypeInstruction(line, name, rd_rs1, rs2)\n")
CRJ_ARM = ("    # crj-type instructions\n    elif head in CRJ_TYPE_INSTRUCTIONS:\n        if len(tokens) != 2:\n            raise AssemblerError('crj-type instructions require exactly 1 arg', line)\n"
           "        name, rd_rs1 = tokens\n        name = name.lower()\n        return CRJTypeInstruction(line, name, rd_rs1)\n")
CRE_ARM_HEAD = "    # cre-type instructions\n    elif head in CRE_TYPE_INSTRUCTIONS:\n"


def forms_table(crj_class='CRJTypeInstruction'):
    return ("REGISTER_ONLY_FORMS = {\n    mnemonic: (item_class, count, complaint)\n    for mnemonics, item_class, count, complaint in [\n"
            "        (CR_TYPE_INSTRUCTIONS, CRTypeInstruction, 3, 'cr-type instructions require exactly 2 args'),\n"
            "        (CRJ_TYPE_INSTRUCTIONS, " + crj_class + ", 2, 'crj-type instructions require exactly 1 arg'),\n    ]\n    for mnemonic in mnemonics\n}\n\n\n")


FORMS_ARM = ("    # cr-type and crj-type instructions\n    elif head in REGISTER_ONLY_FORMS:\n        item_class, count, complaint = REGISTER_ONLY_FORMS[head]\n"
             "        if len(tokens) != count:\n            raise AssemblerError(complaint, line)\n        name, *registers = tokens\n        name = name.lower()\n"
             "        return item_class(line, name, *registers)\n")


def forms_edits(crj_class='CRJTypeInstruction'):
    return [(A, PARSE_ITEM_DEF, forms_table(crj_class) + PARSE_ITEM_DEF), (A, CR_ARM, ""), (A, CRJ_ARM, FORMS_ARM)]


CB_ARM = "        name, rs1, *imm = tokens\n        name = name.lower()\n        imm = parse_immediate(imm, line)\n        return CBTypeInstruction(line, name, rs1, imm)\n"


def cb_sugar(guard):
    return ("        name, rs1, *imm = tokens\n        name = name.lower()\n        if " + guard + "len(imm) == 1 and not is_int(imm[0]):\n            imm = ['%offset', imm[0]]\n"
            "        imm = parse_immediate(imm, line)\n        return CBTypeInstruction(line, name, rs1, imm)\n")


U_ARM = "        name, rd, *imm = tokens\n        name = name.lower()\n        imm = parse_immediate(imm, line)\n        return UTypeInstruction(line, name, rd, imm)"
ADD_SUB = ("ADD        = partial(r_type,   opcode=0b0110011, funct3=0b000, funct7=0b0000000)\n"
           "SUB        = partial(r_type,   opcode=0b0110011, funct3=0b000, funct7=0b0100000)\n")


def alu_factory(body="partial(r_type, opcode=0b0110011, funct3=funct3, funct7=funct7)"):
    return ("def alu_op(*, funct3, funct7=0b0000000):\n    \"\"\"Bind a register-register ALU mnemonic.\"\"\"\n    return " + body + "\n\n\n"
            "ADD        = alu_op(funct3=0b000)\nSUB        = alu_op(funct3=0b000, funct7=0b0100000)\n")


R_ARGS = "        return [self.rd, self.rs1, self.rs2]\n\n\nclass ITypeInstruction"


def r_operands(names):
    return "        return [getattr(self, operand) for operand in self.OPERANDS]\n\n    OPERANDS = " + names + "\n\n\nclass ITypeInstruction"


HI_EVAL = "        value = self.expr.eval(position, env, line)\n        return relocate_hi(value)\n\n\nclass Lo(Expr):"
LO_EVAL = "        value = self.expr.eval(position, env, line)\n        return relocate_lo(value)\n\n\n# base class for assembly"


def reloc_edits(hi='relocate_hi', lo='relocate_lo'):
    """Hi / Lo name their relocation at class level (`relocate = staticmethod(f)`); eval() calls self.relocate."""
    return [(A, HI_EVAL, "        value = self.expr.eval(position, env, line)\n        return self.relocate(value)\n\n    relocate = staticmethod(" + hi + ")\n\n\nclass Lo(Expr):"),
            (A, LO_EVAL, "        value = self.expr.eval(position, env, line)\n        return self.relocate(value)\n\n    relocate = staticmethod(" + lo + ")\n\n\n# base class for assembly")]


PRESERVING = [
    ('p6-reloc-class-attribute', ['C07'], reloc_edits()),
    # a helper class holding the operands of a store in either syntax; its __init__ and a method are walked (object model)
    ('p6-parse-helper-class', None, helper_class_edits()),
    # `aq, rl = ordering or (0, 0)` after `len(ordering) not in (0, 2)`: boolean operator as a value, token-count sets
    ('p6-parse-ordering-or', None, [(A, ORDERING_OLD, ordering_new(), 'all')]),
    # arms merged into a table built by a dict comprehension over the mnemonic tables: mnemonic -> (class, token count, complaint)
    ('p6-parse-comprehension-table', None, forms_edits()),
    # mnemonic bindings through a factory whose body is `return partial(...)` (keyword-only parameters, a default)
    ('p6-binding-factory', None, [(A, ADD_SUB, alu_factory())]),
    ('p6-binding-factory-nested', ['C01', 'C06'], [(A, ADD_SUB, "def op_binding(**unused):\n    return None\n\n\ndef reg_op(funct3, funct7):\n    return partial(r_type, opcode=0b0110011, funct3=funct3, funct7=funct7)\n\n\n"
                                                              "def alu_op(*, funct3, funct7=0b0000000):\n    return reg_op(funct3, funct7)\n\n\nADD        = alu_op(funct3=0b000)\nSUB        = alu_op(funct3=0b000, funct7=0b0100000)\n")]),
    # args() as a comprehension over a class-level tuple of attribute names
    ('p6-args-operands', None, [(A, R_ARGS, r_operands("('rd', 'rs1', 'rs2')"))]),
    # label sugar for the compressed *branches* only: the %offset wrapping is applied to pc-relative operands (an extension of the
    # accepted syntax, not a refactoring; the encodings of every line accepted before are unchanged)
    ('p6-offset-sugar-compressed-branches', ['C01', 'C02'], [(A, CB_ARM, cb_sugar("name in ('c.beqz', 'c.bnez') and "))]),
]

BREAKING = [
    ('c6-reloc-class-attribute-swapped', ['C07'], reloc_edits('relocate_lo', 'relocate_hi')),
    ('c6-parse-helper-class-swapped', ['C01', 'C02'], helper_class_edits("self.name, self.rs1, offset, _, self.rs2, _")),
    ('c6-parse-ordering-or-swapped', ['C01'], [(A, ORDERING_OLD, ordering_new('rl, aq'), 'all')]),
    ('c6-parse-comprehension-table-class', ['C02'], forms_edits('CRTypeInstruction')),
    ('c6-binding-factory-swapped', ['C01'], [(A, ADD_SUB, alu_factory("partial(r_type, opcode=0b0110011, funct3=funct7, funct7=funct3)"))]),
    ('c6-args-operands-order', ['C01'], [(A, R_ARGS, r_operands("('rs1', 'rd', 'rs2')"))]),
    # seeded C02r6m2: the %offset sugar on the whole cb-type table (c.srli / c.srai / c.andi take plain values)
    ('c6-offset-sugar-cb-table', ['C02'], [(A, CB_ARM, cb_sugar(""))]),
    ('c6-offset-sugar-utype', ['C01'], [(A, U_ARM, "        name, rd, *imm = tokens\n        name = name.lower()\n        if len(imm) == 1 and not is_int(imm[0]):\n            imm = ['%offset', imm[0]]\n"
                                                    "        imm = parse_immediate(imm, line)\n        return UTypeInstruction(line, name, rd, imm)")]),
]

UNDECIDED = []
PRESERVING += [
    # the factory computes the same binding with a loop: folded by the encoder interpreter's module evaluation (was: no verdict)
    ('p6-binding-factory-loop', ['C01'], [(A, ADD_SUB, "def alu_op(funct3, funct7):\n    fields = {}\n    for k, v in (('funct3', funct3), ('funct7', funct7)):\n        fields[k] = v\n"
                                                        "    return partial(r_type, opcode=0b0110011, **fields)\n\n\nADD        = alu_op(0b000, 0b0000000)\nSUB        = alu_op(0b000, 0b0100000)\n")]),
]


# ---- round 7: an operand token of an accepted line may not be silently ignored (C06 R6.ignored-operand) ---------------------------------
CI_UNPACK = "    elif head in CI_TYPE_INSTRUCTIONS:\n        name, rd_rs1, *imm = tokens\n"


def sp_form(base_target, check):
    """`c.lwsp rd, offset(sp)`: the base token bound to `base_target`, `check` = statements that look at it (or nothing)."""
    return ("    elif head in CI_TYPE_INSTRUCTIONS:\n        if head == 'c.lwsp' and len(tokens) == 6 and tokens[3] == '(':\n"
            "            name, rd_rs1, offset, _, " + base_target + ", _ = tokens\n" + check + "            imm = [offset]\n"
            "        else:\n            name, rd_rs1, *imm = tokens\n")


SP_RAISE = "                raise AssemblerError('c.lwsp is relative to sp', line)\n"
PRESERVING += [
    # (extensions of the accepted syntax, not refactorings: the base register is validated, so nothing unencodable is accepted)
    ('p7-sp-form-base-literal-set', ['C01', 'C02', 'C06', 'C13'], [(A, CI_UNPACK, sp_form('base', "            if base.lower() not in ('sp', 'x2'):\n" + SP_RAISE))]),
    ('p7-sp-form-base-lookup', ['C01', 'C02', 'C06', 'C13'], [(A, CI_UNPACK, sp_form('base', "            if lookup_register(base) != 2:\n" + SP_RAISE))]),
]
BREAKING += [
    # seeded C06r7m1: "sp is implied", the base token is dropped
    ('c7-sp-form-base-ignored', ['C06'], [(A, CI_UNPACK, sp_form('_', ""))]),
    # any register is accepted as the base and then dropped
    ('c7-sp-form-base-any-register', ['C06'], [(A, CI_UNPACK, sp_form('base', "            if base not in REGISTERS:\n" + SP_RAISE))]),
    # the literal set admits a different register
    ('c7-sp-form-base-two-registers', ['C06'], [(A, CI_UNPACK, sp_form('base', "            if base not in ('sp', 'x2', 'x8'):\n" + SP_RAISE))]),
]
UNDECIDED += [
    # the base token is handed to a predicate the token flow cannot interpret: no verdict
    ('u7-sp-form-base-opaque-test', ['C06'], [(A, CI_UNPACK, sp_form('base', "            if not str.startswith(base, 's'):\n" + SP_RAISE))]),
]
