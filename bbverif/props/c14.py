"""C14 - include is textual splicing, resolved independently of the working directory.

All rules are stated over the provenance dataflow of `bbverif.prov` (kinds of path values, reaching definitions, summaries of
helpers / closures / attributes) and over path summaries of the reader loop; none of them looks at variable or helper names.
The only anchors are the public entry points `assemble`, `cli_main` and the reader `read_lines` (the function that reads a
file and calls itself for included files)."""
import ast

from ..core import Report, Finding, AnalysisError
from ..facts import Facts
from ..astutil import unparse, dotted
from ..callgraph import CallGraph
from ..prov import Prov, DIRKINDS, coarse, is_cwd_expr, walk_fn
from ..pathwalk import MUTATORS, show
from ..hwalk import loop_paths_h, function_paths, normalise
from ..symeval import SymEval, Undecided, UnpackFailed
from ..immsites import find_all, contains

LEVEL = 'other'
BAD = {'RawToken', 'Literal'}
UNCLASSIFIED = {'Unknown', 'ObjAttrs', 'CliArgs', 'Ambiguous'}


def stmt_of(node):
    cur = node
    while cur is not None and not isinstance(cur, ast.stmt):
        cur = getattr(cur, '_parent', None)
    return cur if cur is not None else node


def defer(rep, message):
    """An "I do not understand this" verdict that must not mask a violation established elsewhere: raised at the end of the run
    only when no finding was made."""
    rep.__dict__.setdefault('deferred', []).append(message)


def raise_deferred(rep):
    if not rep.findings and rep.__dict__.get('deferred'):
        raise AnalysisError(rep.deferred[0])


def only_reported(node):
    """The value is merely an argument of a logging / print call (it takes no part in finding files)."""
    p = getattr(node, '_parent', None)
    while p is not None and not isinstance(p, ast.stmt):
        if isinstance(p, ast.Call) and ((dotted(p.func) or '').split('.')[0] in ('log', 'logging', 'logger', 'warnings') or dotted(p.func) == 'print'):
            return True
        p = getattr(p, '_parent', None)
    return False


def cwd_guard_through_callers(pv, q, node, depth=0):
    """cwd_guard, where a helper that merely returns the working directory is judged by the places it is called from."""
    g = pv.cwd_guard(q, node)
    if g != 'unguarded' or depth > 3 or q in ('assemble', 'read_lines'):
        return g
    sites = pv.call_sites_of(q)
    if not sites or q in pv.value_refs():
        return g
    verdicts = [cwd_guard_through_callers(pv, cq, call, depth + 1) for cq, call in sites]
    if all(v == 'guarded' for v in verdicts):
        return 'guarded'
    return 'unknown' if 'unknown' in verdicts else 'unguarded'


def classify_sink(pv, q, name, arg):
    """('ok' | 'bad' | 'unknown', kinds) for the path argument of a filesystem call."""
    ks = set(pv.kinds(arg, q)) - {'NoneK'}
    if 'Ambiguous' in ks:
        return 'unknown', ks        # a same-named attribute of unrelated classes: proves nothing about this object
    if ks & BAD:
        return 'bad', ks
    if ks & UNCLASSIFIED or not ks:
        return 'unknown', ks
    return 'ok', ks


def check_sinks(rep, facts, cg, pv, rule, reach):
    sinks = pv.sinks(reach)
    rep.analysed['filesystem sinks reachable from assemble'] = len(sinks)
    roles = {'sinks that read a file': 0, 'sinks given the caller\'s own path': 0, 'sinks given a path the include search returned': 0}
    for q, node, name, arg in sinks:
        verdict, ks = classify_sink(pv, q, name, arg)
        if name.split('.')[-1] in ('open', 'read_text', 'read_bytes'):
            roles['sinks that read a file'] += 1
        if 'UserGiven' in ks:
            roles['sinks given the caller\'s own path'] += 1
        if ks == {'Resolved'}:
            roles['sinks given a path the include search returned'] += 1
        if verdict == 'unknown':
            defer(rep, '{}: the path given to {}({}) could not be classified (kinds {}): no verdict'.format(q, name, unparse(arg), sorted(ks) or ['none']))
            continue
        k = coarse(ks)
        rep.check(verdict == 'ok', rule, '{}: {}({}) receives a {} path'.format(q, name, unparse(arg), k),
                  lambda q=q, node=node, name=name, arg=arg, ks=ks: Finding(
                      rule, q, node, '{}({}) is given a path of kind {}: text taken from the source line (or a literal) is resolved against the process '
                      'working directory, not against the including file or the -i directories'.format(name, unparse(arg), '/'.join(sorted(ks & BAD))),
                      line=node.lineno))
    for q in reach:
        for n in walk_fn(cg.funcs[q]):
            if is_cwd_expr(n):
                if only_reported(n):
                    continue
                g = cwd_guard_through_callers(pv, q, n)
                if g == 'unknown':
                    defer(rep, '{}: the conditions under which the working directory ({}) is consulted are not understood: no verdict'.format(q, unparse(n)))
                    continue
                rep.check(g == 'guarded', rule + '.cwd', '{}: the working directory ({}) is consulted only when the input is a source string'.format(q, unparse(n)),
                          lambda q=q, n=n: Finding(rule + '.cwd', q, n, 'the working directory takes part in resolving includes of a *file*', line=n.lineno))
    rep.analysed.update(roles)
    return sinks


def caller_object_params(pv, cg, reach, seeds):
    """(qual, param) pairs whose argument may be the very list object the API caller passed (by-reference flow through calls)."""
    seen = set(seeds)
    todo = list(seeds)
    while todo:
        q, p = todo.pop()
        for n in walk_fn(cg.funcs[q]):
            if not isinstance(n, ast.Call):
                continue
            for callee in pv.callees(q, n):
                if callee not in cg.funcs:
                    continue
                for param, args in pv.bind_call(callee, n, q).items():
                    if any(pv.same_object(a, q, p) for a in args) and (callee, param) not in seen:
                        seen.add((callee, param))
                        todo.append((callee, param))
    return seen


UNKNOWN_CONST = object()


def constant_of(pv, node, q, depth=0):
    """The constant an expression evaluates to, following local names with a single constant definition; UNKNOWN_CONST otherwise."""
    if isinstance(node, ast.Constant):
        return node.value
    if isinstance(node, ast.Name) and depth < 4:
        if node.id in pv.facts.consts and not any(node.id in pv.params(pv.fn_of(q)) for _ in [0]):
            defs = pv.reaching(q, node)
            if all(h[0] == 'free' for h, _ in defs):
                return pv.facts.consts[node.id]
        defs = pv.reaching(q, node)
        vals = [constant_of(pv, v, q, depth + 1) if h[0] == 'expr' else UNKNOWN_CONST for h, v in defs]
        if vals and all(v is not UNKNOWN_CONST and v == vals[0] and type(v) is type(vals[0]) for v in vals):
            return vals[0]
    return UNKNOWN_CONST


def find_reader(pv, cg):
    """The function that reads one source and calls itself for included files: `read_lines`, or the self-recursive function it
    delegates to (a nested generator, a method of a reader object)."""
    if 'read_lines' not in cg.funcs:
        raise AnalysisError('anchor vanished: read_lines')
    cands = set()
    inside = pv.reach('read_lines', dynamic=False)
    for q in sorted(inside):
        for n in walk_fn(cg.funcs[q]):
            if isinstance(n, ast.Call):
                for callee in pv.callees(q, n):
                    if callee in cg.funcs and callee in inside and q in pv.reach(callee, dynamic=False):
                        cands.add(callee)       # the call closes a cycle: callee is (re-)entered for an included file
    if 'read_lines' in cands:
        return 'read_lines'
    if len(cands) == 1:
        return next(iter(cands))
    raise AnalysisError('read_lines: no single recursively entered reader function (candidates {})'.format(sorted(cands)))


def desugar_generator(fn):
    """A generator function as the list-building function it denotes: `yield x` -> out.append(x), `yield from e` -> out.extend(e),
    out returned at the end (laziness aside, the produced sequence is the same).  The function is re-parsed from its own text, so
    the analysed tree is not touched."""
    tree = ast.parse(ast.unparse(fn))
    new = tree.body[0]
    ast.increment_lineno(new, fn.lineno - 1)
    OUT = '__yielded'

    def call(meth, arg, at):
        return ast.copy_location(ast.Expr(value=ast.Call(func=ast.Attribute(value=ast.Name(id=OUT, ctx=ast.Load()), attr=meth, ctx=ast.Load()), args=[arg], keywords=[])), at)

    class T(ast.NodeTransformer):
        def visit_FunctionDef(self, node):
            return node if node is not new else self.generic_visit(node)

        def visit_Lambda(self, node):
            return node

        def visit_Expr(self, node):
            v = node.value
            if isinstance(v, ast.Yield):
                return call('append', v.value or ast.Constant(value=None), node)
            if isinstance(v, ast.YieldFrom):
                return call('extend', v.value, node)
            return node

        def visit_Return(self, node):
            if node.value is not None:
                raise AnalysisError('{}: generator returns a value'.format(fn.name))
            return ast.copy_location(ast.Return(value=ast.Name(id=OUT, ctx=ast.Load())), node)
    T().visit(new)
    if any(isinstance(n, (ast.Yield, ast.YieldFrom)) for n in ast.walk(new) if not isinstance(n, ast.Lambda)):
        nested = [d for d in ast.walk(new) if isinstance(d, ast.FunctionDef) and d is not new]
        if any(isinstance(n, (ast.Yield, ast.YieldFrom)) for n in ast.walk(new) if not any(n in ast.walk(d) for d in nested)):
            raise AnalysisError('{}: a yield is used as an expression'.format(fn.name))
    new.body.insert(0, ast.copy_location(ast.Assign(targets=[ast.Name(id=OUT, ctx=ast.Store())], value=ast.List(elts=[], ctx=ast.Load())), new.body[0]))
    new.body.append(ast.copy_location(ast.Return(value=ast.Name(id=OUT, ctx=ast.Load())), new.body[-1]))
    ast.fix_missing_locations(new)
    for node in ast.walk(new):
        for child in ast.iter_child_nodes(node):
            child._parent = node
    new._parent = None
    return new


def check_reader(rep, facts, cg, pv, reach):
    reader = find_reader(pv, cg)
    fn = cg.funcs[reader]
    a = fn.args
    pos = [x.arg for x in getattr(a, 'posonlyargs', []) + a.args]
    is_method = '.' in reader and reader.split('.')[0] in facts.classes and bool(pos) and not fn.decorator_list
    if is_method:
        pos = pos[1:]
    all_params = pos + [x.arg for x in a.kwonlyargs]
    if not pos:
        raise AnalysisError('{} takes no positional path parameter'.format(reader))
    path_param = pos[0]
    flag_params = [p for p in all_params if isinstance(pv.default_of(fn, p), ast.Constant) and pv.default_of(fn, p).value is False]
    dir_params = [p for p in all_params if 'Dir' in pv.param_kinds(reader, p)]
    rep.note('reader function: {}'.format(reader)) if reader != 'read_lines' else None
    if not dir_params:
        check_ambient_dirs(rep, facts, cg, pv, reader)

    # R14.2 recursion: the included file is read by the path the search returned, as a file, with the caller's own -i list
    n_rec = 0
    for q in sorted(pv.reach(reader)):
        for c in walk_fn(cg.funcs[q]):
            if not (isinstance(c, ast.Call) and reader in pv.callees(q, c)):
                continue
            if reader != 'read_lines' and q not in pv.reach(reader):
                continue
            n_rec += 1
            bound = pv.bind_call(reader, c, q)
            if '**' in bound:
                defer(rep, '{}: the recursive read is given **{}: its options are not understood'.format(q, unparse(bound['**'][0])[:60]))
                continue
            problems = []
            ks = set()
            for arg in bound.get(path_param, []):
                ks |= pv.kinds(arg, q)
            ks -= {'NoneK'}
            if 'Ambiguous' in ks:
                defer(rep, '{}: the path handed to the recursive read could not be classified ({})'.format(q, sorted(ks)))
            elif ks & BAD or not ks:
                problems.append('passes a {} path'.format('/'.join(sorted(ks)) or 'missing'))
            elif ks != {'Resolved'}:
                defer(rep, '{}: the path handed to the recursive read could not be classified ({})'.format(q, sorted(ks)))
            for p in flag_params:
                vals = [constant_of(pv, v, q) for v in bound.get(p, [])]
                if any(v is UNKNOWN_CONST for v in vals):
                    defer(rep, '{}: the value passed for {} to the recursive read is not a constant'.format(q, p))
                elif not (vals and all(v is True for v in vals)):
                    problems.append('does not pass {}=True (an included path must be read as a file)'.format(p))
            for p in dir_params:
                dk = set()
                for arg in bound.get(p, []):
                    dk |= pv.kinds(arg, q)
                dk -= {'NoneK'}
                if dk - DIRKINDS:
                    defer(rep, '{}: the directory list handed to the recursive read could not be classified ({})'.format(q, sorted(dk)))
                elif 'Dir' not in dk:
                    problems.append('does not hand the caller\'s include directories down ({} is {})'.format(p, '/'.join(sorted(dk)) or 'None'))
                elif dk - {'Dir'}:
                    problems.append('hands down a directory list that also holds {} (directories of this file leak into nested includes)'.format(
                        '/'.join(sorted(dk - {'Dir'}))))
            rep.check(not problems, 'R14.2.recursion', '{}: included file is read by its resolved path, as a file, with the caller\'s include directories'.format(q),
                      lambda c=c, q=q, problems=problems: Finding('R14.2.recursion', q, c,
                                                                  'the recursive read ' + '; '.join(problems) + ': nested includes are not resolved like top-level ones', line=c.lineno))
    rep.analysed['recursive include calls'] = n_rec

    # R14.2.adjacent: every include search ranges over the -i directories and the directory of the including file
    n_search = 0
    searched, sites_, unclear_ = set(), [], None
    for q in sorted(pv.reach(reader)):
        for n in walk_fn(cg.funcs[q]):
            first = None
            if isinstance(n, ast.Call) and dotted(n.func) == 'os.path.join' and len(n.args) > 1 and not isinstance(n.args[0], ast.Starred):
                first = n.args[0]
            elif isinstance(n, ast.BinOp) and isinstance(n.op, ast.Div):
                first = n.left
            elif isinstance(n, ast.Call) and isinstance(n.func, ast.Attribute) and n.func.attr == 'joinpath' and n.args:
                first = n.func.value
            if first is not None:
                ks = set(pv.kinds(first, q)) - {'NoneK'}
                if not ks & DIRKINDS:
                    continue
                n_search += 1
                searched |= ks
                sites_.append((q, n))
                if ks & UNCLASSIFIED:
                    unclear_ = (q, n, ks)
    # the search may be spread over several joins (the -i directories in a loop, then the adjacent directory): what counts is
    # the union of the directories the reader joins the name with
    missing = [k for k in ('Dir', 'AdjDir') if k not in searched]
    if sites_:
        if missing and unclear_ is not None:
            defer(rep, '{}: the directories searched by {} could not be classified ({})'.format(unclear_[0], unparse(unclear_[1])[:60], sorted(unclear_[2])))
        else:
            q0, n0 = sites_[0]
            rep.check(not missing, 'R14.2.adjacent', '{}: the search ranges over the -i directories and the directory of the including file ({} join sites)'.format(reader, len(sites_)),
                      lambda: Finding('R14.2.adjacent', q0, n0, 'the include search joins the name with directories of kind {} only: {} not searched'.format(
                          '/'.join(sorted(searched)), ' and '.join({'Dir': 'the -i directories are', 'AdjDir': 'the directory of the file being read is'}[m] for m in missing)),
                          line=n0.lineno))
    rep.analysed['include search sites'] = n_search
    # the adjacent directory is the directory of the file *as named*: dirname(realpath(file)) is the directory of a link's target
    for q in sorted(pv.reach(reader)):
        for n in walk_fn(cg.funcs[q]):
            if isinstance(n, ast.Call) and dotted(n.func) == 'os.path.dirname' and n.args:
                arg = n.args[0]
                cands = [arg]
                if isinstance(arg, ast.Name):
                    cands = [v for h, v in pv.reaching(q, arg) if h[0] == 'expr']
                for c in cands:
                    inner = c
                    while isinstance(inner, ast.Call) and dotted(inner.func) in ('os.path.abspath', 'os.path.normpath', 'str', 'os.fspath') and inner.args:
                        inner = inner.args[0]
                    links = (isinstance(inner, ast.Call) and dotted(inner.func) in ('os.path.realpath', 'os.readlink')) or \
                        (isinstance(inner, ast.Call) and isinstance(inner.func, ast.Attribute) and inner.func.attr == 'resolve' and not inner.args)
                    if links and set(pv.kinds(inner, q)) & {'Resolved', 'UserGiven'} and 'AdjDir' in pv.kinds(n, q) and not only_reported(n):
                        rep.fail(Finding('R14.2.link-followed', q, n, 'the adjacent directory is computed as {}: for a file that is a symbolic link this is the directory of the '
                                         'link target, not the directory the file was named in'.format(unparse(n)[:70]), line=n.lineno), instance='adjacent ' + unparse(n)[:50])

    # R14.2.dirs-copied: the list object the API caller passed is never changed in place
    shared = caller_object_params(pv, cg, reach, [('assemble', p) for p in pv.params(cg.funcs['assemble'])
                                                     if 'Dir' in pv.param_kinds('assemble', p)])
    muts = []
    for q, p in sorted(shared):
        for m in pv.inplace_mutations(q, p):
            muts.append((q, p, m))
    for q, p, m in muts:
        rep.fail(Finding('R14.2.dirs-copied', q, stmt_of(m), 'the caller\'s include_dirs list is changed in place ({}): directories leak from one file / one '
                         'assemble() call to the next'.format(unparse(m)[:80]), line=m.lineno), instance='{} {}'.format(q, unparse(m)[:60]))
    if not muts:
        rep.ok('R14.2.dirs-copied', 'the caller\'s include directory list is only read ({} by-reference uses followed)'.format(len(shared)))

    check_splice(rep, facts, cg, fn, reader, is_method)


def check_ambient_dirs(rep, facts, cg, pv, reader):
    """The reader takes no directory-list parameter: the caller's -i directories reach it through a closure variable or an attribute
    of the reader object, shared by all nesting levels.  Then that shared list must hold the caller's directories only: nothing
    (the directory of a file, the cwd) may ever be added to it."""
    seen = 0
    sites = []
    for q in sorted(pv.reach(reader)):
        fq = cg.funcs[q]
        for n in walk_fn(fq):
            if isinstance(n, ast.Name) and isinstance(n.ctx, ast.Load) and n.id not in pv.params(fq):
                if any(h[0] == 'free' for h, _ in pv.reaching(q, n)) and 'Dir' in pv.kinds(n, q):
                    sites.append((q, n))
            elif isinstance(n, ast.Attribute) and isinstance(n.ctx, ast.Load) and pv.attr_stores().get(n.attr) and 'Dir' in pv.kinds(n, q):
                sites.append((q, n))
    for q, shared in sites:
        seen += 1
        ks = set(pv.kinds(shared, q)) - {'NoneK'}
        if ks & UNCLASSIFIED:
            defer(rep, '{}: the shared include directory list {} could not be classified ({})'.format(reader, unparse(shared), sorted(ks)))
            continue
        rep.check(ks == {'Dir'}, 'R14.2.recursion', '{}: the include directories shared by all nesting levels ({}) hold the caller\'s directories only'.format(reader, unparse(shared)),
                  lambda shared=shared, ks=ks: Finding('R14.2.recursion', reader, shared, 'the directory list shared by all nesting levels ({}) also receives {}: directories of one file '
                                                       'leak into the files it includes'.format(unparse(shared), '/'.join(sorted(ks - {'Dir'}))), line=shared.lineno))
    if not seen:
        raise AnalysisError('{}: no parameter, closure variable or attribute carries the caller\'s include directories'.format(reader))


def rec_calls(values, name='read_lines'):
    out = []
    for v in values:
        for r in find_all(v, lambda t: (t[0] in ('call',) and t[1] == name) or (t[0] == 'mcall' and t[2] == name)):
            if r not in out:
                out.append(r)
    return out


REC_NAME = ['read_lines']      # simple name under which the reader calls itself (set per run)


def parts_of(value):
    """What a value spliced into the line list contributes: [('rec', call) | ('one', v) | ('opaque', v)]."""
    v = strip_res(value)
    if (v[0] == 'call' and v[1] == REC_NAME[0]) or (v[0] == 'mcall' and v[2] == REC_NAME[0]):
        return [('rec', v)]
    if v[0] in ('list', 'tuple'):
        out = []
        for x in v[1]:
            out += parts_of(x[1]) if x[0] == 'star' else [('one', x)]
        return out
    if v[0] == 'bin' and v[1] == '+':
        return parts_of(v[2]) + parts_of(v[3])
    if v[0] == 'call' and v[1] in ('list', 'tuple') and len(v[2]) == 1 and not v[3]:
        return parts_of(v[2][0])
    return [('opaque', v)]


NONBLANK_LINES = ['x', ' x ', 'include foo.asm', 'include_bytes a.bin', 'addi x1, x0, 1', '# comment', 'label:', '\tnop']
BLANK_LINES = ['', ' ', '\t', ' \t  ']


def only_blank_lines(facts, path):
    """Only blank source lines take this path.  Bounded evaluation over the listed samples: for some symbol of the line, (1) a blank
    sample (BLANK_LINES) satisfies every condition of the path that mentions the line and (2) every sample of a non-blank line
    (NONBLANK_LINES) is refuted by one of them (`not x.strip()`, `len(x.strip()) == 0`, `x.isspace() or not x`, `not x.split()` ...).
    A path that no blank line takes is taken - if at all - by non-blank lines."""
    conds = [(normalise(facts, t), pol) for t, pol, _ in path.conds]
    leaves = []
    for t, _ in conds:
        for leaf in line_leaves(facts, t):
            if leaf not in leaves:
                leaves.append(leaf)

    def refuted(leaf, text):
        ev = SymEval(facts, {leaf: text})
        for t, pol in conds:
            if not contains(t, leaf):
                continue
            try:
                if bool(ev.ev(t)) != pol:
                    return True
            except Undecided:
                continue
        return False
    for leaf in leaves:
        if all(refuted(leaf, text) for text in NONBLANK_LINES) and not all(refuted(leaf, text) for text in BLANK_LINES):
            return True
    return False


def judge_contribution(rep, where, cond, recs, parts, node, fallback_line, path=None):
    """One path of the per-line processing: an include line contributes exactly the lines of the included file, any other line
    itself - nothing only when the line is blank.  Returns 'include' | 'plain' | 'opaque'."""
    line = getattr(node, 'lineno', fallback_line)
    if any(k == 'opaque' for k, _ in parts):
        defer(rep, '{}: what `{}` adds to the line list is not understood: no verdict'.format(where, show(next(v for k, v in parts if k == 'opaque'))[:80]))
        return 'opaque'
    if recs:
        ok = len(recs) == 1 and parts == [('rec', recs[0])]
        rep.check(ok, 'R14.3.splice', 'include path [{}]: the lines of the included file, and nothing else, are added at the position of the include line'.format(cond[-60:]),
                  lambda: Finding('R14.3.splice', where, node, 'the lines of an included file are not spliced in (once, alone) at the position of the include line', line=line))
        return 'include'
    if not parts and path is not None and not only_blank_lines(FACTS[0], path):
        # a non-blank line (an include line among them) that contributes nothing
        other = [e for e in path.events if (e[0] == 'mcall' and e[2] in MUTATORS and e[2] not in ('add', 'discard', 'update', 'setdefault')) or e[0] in ('setitem', 'augstore')]
        if other:
            defer(rep, '{}: a line contributes nothing on the path [{}] but other containers change: not understood'.format(where, cond[-80:]))
            return 'opaque'
        rep.fail(Finding('R14.3.splice', where, node, 'on the path [{}] a non-blank source line (an include line, if the path handles one) contributes nothing to the line '
                         'list: it is dropped instead of being kept / replaced by the included lines'.format(cond[-100:]), line=line), instance='dropped ' + cond[-60:])
        return 'plain'
    ok = len(parts) <= 1 and all(k == 'one' for k, _ in parts)
    rep.check(ok, 'R14.3.splice', 'ordinary line: kept once, in order', lambda: Finding('R14.3.splice', where, node, 'source lines are not kept exactly once in order', line=line),
              nontrivial=False)
    return 'plain'


# (reader line as read, the file name it asks for): keyword, blanks, the operand - for include optionally quoted and followed by a
# comment -, nothing else.  The name handed to the search is the bare operand.
INCLUDE_LINES = [('include foo.asm', 'foo.asm'), ('include foo.asm  ', 'foo.asm'), ('include  sub/foo.asm', 'sub/foo.asm'), ('include foo.asm # note', 'foo.asm'),
                 ('include foo.asm  # note', 'foo.asm'), ('include "foo.asm"', 'foo.asm'), ("include 'foo.asm'  ", 'foo.asm'), ('include "foo.asm"  # note', 'foo.asm'),
                 ('INCLUDE foo.asm', 'foo.asm'),
                 ('include_bytes data.bin', 'data.bin'), ('include_bytes data.bin  ', 'data.bin'), ('include_bytes  sub/data.bin', 'sub/data.bin')]


def line_leaves(facts, v, out=None):
    """Symbols of the current source line a value depends on (loop items, parameters, attributes of them)."""
    out = [] if out is None else out
    if not isinstance(v, tuple) or not v:
        return out
    if not isinstance(v[0], str):
        for x in v:
            line_leaves(facts, x, out)
        return out
    if v[0] == 'const':
        return out
    if v[0] == 'attr' and v[1][0] == 'name' and any(
            isinstance(st, ast.Assign) and any(isinstance(t, ast.Name) and t.id == v[2] for t in st.targets)
            for ci in facts.classes.values() for st in ci.node.body):
        return out          # a class-level constant read through self / the class
    if v[0] in ('item', 'var') or (v[0] == 'name' and v[1] not in facts.assign_nodes and v[1] not in facts.funcs and v[1] not in facts.classes
                                   and v[1] not in ('re', 'os', 'str', 'None', 'True', 'False')) \
            or (v[0] == 'sub' and v[2][0] in ('lv', 'item')) or (v[0] == 'attr' and v[1][0] in ('name', 'item', 'var') and v[1][1] not in ('os', 're')):
        if v not in out:
            out.append(v)
        return out
    if v[0] in ('havoc', 'lv'):
        return out
    for x in v[1:]:
        if isinstance(x, tuple):
            line_leaves(facts, x, out)
    return out


def located_path(value, path=None):
    """The path value an include line hands on, opened up: ('join', dir, name) | ('memo', table, key) | None."""
    v = strip_res(value)
    # first existing candidate of a lazily built sequence: next(filter(os.path.exists, [join(d, name) for d in dirs]), None)
    if v[0] == 'call' and v[1] == 'next' and v[2]:
        return located_path(v[2][0], path)
    if v[0] == 'call' and v[1] == 'filter' and len(v[2]) == 2:
        return located_path(v[2][1], path)
    if v[0] == 'comp' and len(v) > 2:
        return located_path(v[2], path)
    if v[0] == 'havoc' and path is not None:
        # the variable of a search loop: an element of the iterated sequence
        for ev in path.events:
            if ev[0] == 'loop' and isinstance(ev[2], ast.For) and isinstance(ev[2].target, ast.Name) and ev[2].target.id == v[1] \
                    and v[2] == 'loop@{}'.format(ev[2].lineno):
                return located_path(ev[1], path)
        return None
    if v[0] == 'call' and v[1] == 'os.path.join' and len(v[2]) == 2 and not v[3]:
        return ('join', v[2][0], v[2][1])
    if v[0] == 'bin' and v[1] == '/':
        return ('join', v[2], v[3])
    if v[0] == 'sub' and strip_res(v[1])[0] == 'dictcomp':
        return located_path(strip_res(v[1])[2], path)      # a table of candidates built on the spot: {d: join(d, name) for d in dirs}[d]
    if v[0] == 'sub':
        return ('memo', v[1], v[2])
    if v[0] == 'mcall' and v[2] == 'get' and v[3]:
        return ('memo', v[1], v[3][0])
    if v[0] == 'call' and v[1] in ('str', 'os.path.abspath', 'os.path.normpath', 'os.fspath', 'os.path.realpath') and len(v[2]) >= 1:
        return located_path(v[2][0], path)
    if v[0] == 'mcall' and v[2] in ('resolve', 'absolute') and not v[3]:
        return located_path(v[1], path)
    if v[0] == 'ifexp':
        # `p if os.path.exists(p) else None`
        for branch in (v[2], v[3]):
            if branch != ('const', None):
                return located_path(branch, path)
        return None
    if v[0] in ('mcall', 'unpack', 'sub', 'item', 'var') and not find_all(v, lambda t: t[0] in ('callv', 'havoc', 'lv') or (t[0] == 'call' and t[1].startswith('os.'))):
        return ('join', None, v)        # the operand itself is used as the path (e.g. an absolute name)
    return None


def follows_links(v):
    """The outermost conversions of a path value that follow symbolic links: os.path.realpath(p), Path(p).resolve(), os.readlink(p)."""
    v = strip_res(v)
    while True:
        if v[0] == 'call' and v[1] in ('os.path.realpath', 'os.readlink') and v[2]:
            return v
        if v[0] == 'mcall' and v[2] == 'resolve':
            return v
        if v[0] == 'call' and v[1] in ('str', 'os.path.abspath', 'os.path.normpath', 'os.fspath') and len(v[2]) == 1:
            v = strip_res(v[2][0])
            continue
        return None


def check_located(rep, facts, where, path, located, shared_with, node, kind='include'):
    """R14.1.operand / R14.1.memo / R14.2.link-followed for the path value of one include / include_bytes line (see the callers)."""
    line = getattr(node, 'lineno', None)
    link = follows_links(normalise(facts, located)) if kind == 'include' else None
    if link is not None:
        # positively wrong: the nested read derives its adjacent directory from this path
        rep.fail(Finding('R14.2.link-followed', where, node, 'the nested read is handed {}: for an included file that is (or lies behind) a symbolic link the '
                         'directory of the link *target* becomes the adjacent directory, so its own includes are searched next to the target instead of next to the '
                         'file as it was named (os.path.abspath / normpath keep the name, realpath / resolve() do not)'.format(show(link)[:70]), line=line),
                 instance='link ' + show(link)[:50])
    loc = located_path(normalise(facts, located), path)
    if loc is None:
        return 'unknown'
    if loc[0] == 'memo':
        table, key = normalise(facts, loc[1]), normalise(facts, loc[2])
        # shared: the table itself is handed to a nested read, or lives at module level
        shared = any(strip_res(normalise(facts, x)) == table for x in shared_with) or (table[0] == 'name' and table[1] in facts.assign_nodes)
        # what the key depends on besides the text of the line (the loop item): directories, parameters ...
        others = [x for x in find_all(key, lambda t: t[0] in ('havoc', 'lv', 'name', 'attr', 'call')) if not (
            x[0] == 'call' and not x[1].startswith(('os.getcwd', 'os.path.dirname', 'copy.'))) and not (x[0] == 'name' and (x[1] in facts.assign_nodes or x[1] in ('re', 'os')))
            and not (x[0] == 'attr' and x[1][0] == 'name' and x[1][1] in ('re', 'os'))]
        if others:
            rep.ok('R14.1.memo', '{}: located paths are remembered under a key that involves the search directories ({})'.format(where, show(key)[:60]))
            return 'ok-memo'
        if shared and line_leaves(facts, key):
            rep.fail(Finding('R14.1.memo', where, node, 'the located path is taken from the table {} under the key {}: the key does not involve the directories searched for '
                             'this file, and the table is shared with the files it includes (and those that include it), so the same name written in two directories '
                             'resolves to whichever file was found first'.format(show(table)[:40], show(key)[:60]), line=line), instance='memo ' + show(key)[:40])
            return 'memo'
        if not shared and table[0] in ('dict',):
            # a table created by this activation (one file, one search list): what it is keyed by is the name that was searched
            loc = ('join', None, key)
        else:
            return 'unknown'
    name = normalise(facts, loc[2])
    leaves = line_leaves(facts, name)
    if len(leaves) != 1:
        return 'unknown'
    leaf = leaves[0]
    conds = [(normalise(facts, t), pol) for t, pol, _ in path.conds]
    found_value = strip_res(normalise(facts, located))
    about_search = lambda t: contains(t, found_value) or bool(find_all(t, lambda u: u[0] == 'call' and (u[1].startswith('os.path.') or u[1] in ('os.getcwd', 'os.stat'))))
    # variables of loops over constant tables (`for keyword in DIRECTIVES`) take each of the table's elements
    choices = {}
    for h in find_all((name,) + tuple(t for t, _ in conds), lambda u: u[0] == 'havoc'):
        if h in choices:
            continue
        for ev_ in path.events:
            if ev_[0] == 'loop' and isinstance(ev_[2], ast.For) and isinstance(ev_[2].target, ast.Name) and ev_[2].target.id == h[1] \
                    and h[2] == 'loop@{}'.format(ev_[2].lineno):
                try:
                    vals = list(SymEval(facts).ev(normalise(facts, ev_[1])))
                except (Undecided, TypeError):
                    vals = None
                if vals is not None and len(vals) <= 8:
                    choices[h] = vals
    import itertools
    combos = [dict(zip(choices, c)) for c in itertools.product(*choices.values())][:64] if choices else [{}]
    n_ok = tried = refused = unclear = 0
    for text, want in INCLUDE_LINES:
        for combo in combos:
            binding = dict(combo)
            binding[leaf] = text
            cls = where.split('.')[0]
            ev = SymEval(facts, binding, {('name', 'self'): cls, ('name', 'cls'): cls} if cls in facts.classes else None)
            ok, uncertain = True, None
            tried += 1
            for t, pol in conds:
                if not contains(t, leaf) and not any(contains(t, h) for h in combo):
                    if not about_search(t) and find_all(t, lambda u: u[0] in ('havoc', 'callv', 'opaque')):
                        uncertain = t       # data-dependent dispatch the evaluation cannot follow
                    continue
                try:
                    if bool(ev.ev(t)) != pol:
                        ok = False
                        break
                except UnpackFailed:
                    ok = False
                    break
                except Undecided:
                    if not about_search(t):
                        uncertain = t
                    continue            # a condition about the filesystem / the search, not about the text of the line
            if not ok:
                refused += 1
                continue
            if uncertain is not None:
                unclear += 1
            try:
                got = ev.ev(name)
            except UnpackFailed:
                refused += 1
                continue                # this spelling is refused (the raising path)
            except Undecided as e:
                defer(rep, '{}: the file name taken from the line {!r} cannot be evaluated: {}'.format(where, text, e))
                return 'unknown'
            if got != want:
                if uncertain is not None:
                    defer(rep, '{}: for the line {!r} the name handed to the search would be {!r}, but whether this path is taken depends on `{}`, which is not understood'.format(
                        where, text, got, show(uncertain)[:60]))
                    return 'unknown'
                rep.fail(Finding('R14.1.operand', where, node, 'for the line {!r} the include search is handed the name {!r} instead of {!r}: the name is the bare operand of the '
                                 'directive (no blanks, quotes or comment text around it), otherwise an adjacent file is not found'.format(text, got, want), line=line),
                         instance='operand of {!r}'.format(text))
                return 'operand'
            n_ok += 1
    if n_ok:
        rep.ok('R14.1.operand', '{}: the name handed to the search is the bare operand [{}] ({} sample lines)'.format(where, path.cond_text()[-40:], n_ok))
        return 'ok'
    if tried and refused == tried and not unclear:
        return 'infeasible'      # no documented spelling of an include line takes this path (decided, not assumed)
    return 'unknown'


def include_operands(rep, facts, where, path, recs, node):
    """The located paths used on one path through the per-line processing: the argument of the recursive read, the argument of
    os.path.getsize (include_bytes)."""
    values = [part for ev in path.events for part in ev[1:] if isinstance(part, tuple)]
    found = []
    for r in recs:
        args = r[2] if r[0] == 'call' else r[3]
        kwargs = r[3] if r[0] == 'call' else r[4]
        if args:
            found.append((args[0], list(args[1:]) + [v for _, v in kwargs], 'include'))
    for v in values:
        for g in find_all(v, lambda t: t[0] == 'call' and t[1] == 'os.path.getsize' and len(t[2]) == 1):
            if not any(g[2][0] == f[0] for f in found):
                found.append((g[2][0], [x for r in recs for x in (r[2] if r[0] == 'call' else r[3])] + ALL_REC_ARGS[0], 'include_bytes'))
    out = []
    for located, shared_with, kind in found:
        verdict = check_located(rep, facts, where, path, located, shared_with, node, kind)
        if verdict == 'unknown':
            # never a silent pass: every located path must be followed back to the text of the line
            defer(rep, '{}: the file name behind `{}` on the path [{}] could not be followed back to the text of the line: no verdict'.format(
                where, show(located)[:60], path.cond_text()[-60:]))
        out.append((kind, verdict))
    return out


FACTS = [None]
ALL_REC_ARGS = [[]]       # arguments of every recursive read seen in the reader (a table handed down is shared)


def check_index_iteration(loop, paths):
    """A `while i < len(rows)` loop visits the rows in order, each once, iff i starts at 0, is advanced by exactly 1 on every path
    through the body, and rows are only read at the not yet advanced index.  Anything else is not understood (AnalysisError)."""
    from ..immsites import contains
    if not paths:
        raise AnalysisError('read_lines: the reader loop has no path')
    for p in paths:
        test = p.loop_test
        if not (test[0] == 'cmp' and test[1] in ('<', '!=') and test[2][0] == 'lv' and test[3][0] == 'call' and test[3][1] == 'len' and len(test[3][2]) == 1):
            raise AnalysisError('read_lines: while loop over {} is not an index iteration'.format(show(test)[:80]))
        idx, rows = test[2], test[3][2][0]
        if find_all(rows, lambda t: t[0] == 'lv') or p.pre_env.get(idx[1]) != ('const', 0):
            raise AnalysisError('read_lines: the index of the reader loop does not start at 0 over a fixed list')
        if p.end == 'raise':
            continue
        augs = [e for e in p.events if e[0] == 'aug' and e[1] == idx[1]]
        if len(augs) != 1 or augs[0][2] != '+' or augs[0][3] != ('const', 1):
            raise AnalysisError('read_lines: the index of the reader loop is not advanced by exactly one on the path [{}]'.format(p.cond_text()[-80:]))
        values = [part for ev in p.events for part in ev[1:] if isinstance(part, tuple)] + [t for t, _, _ in p.conds]
        for v in values:
            for t in find_all(v, lambda t: t[0] == 'sub' and (t[1] == rows or contains(t[2], idx))):
                if t != ('sub', rows, idx):
                    raise AnalysisError('read_lines: rows are read at {} (not the current index)'.format(show(t)[:60]))


def check_splice(rep, facts, cg, fn, reader='read_lines', is_method=False):
    """R14.3: the returned list is the in-order concatenation, over the source lines, of what each line contributes."""
    REC_NAME[0] = fn.name
    parent_fn = None
    if any(isinstance(n, (ast.Yield, ast.YieldFrom)) for n in walk_fn(fn)):
        from ..astutil import enclosing_function
        parent_fn = enclosing_function(fn)
        fn = desugar_generator(fn)
    rec_calls_ = lambda values: rec_calls(values, REC_NAME[0])
    ret = [st for st in fn.body if isinstance(st, ast.Return) and st.value is not None]
    if not ret:
        raise AnalysisError('read_lines: no top-level return')
    value = ret[-1].value
    result = value.id if isinstance(value, ast.Name) else None
    loops = [st for st in fn.body if isinstance(st, (ast.For, ast.While))]
    n_inc = 0
    operand_verdicts = []
    ALL_REC_ARGS[0] = []
    FACTS[0] = facts
    if result is not None and loops:
        # loop form: the list is grown inside the (first) top-level loop
        loop, paths = loop_paths_h(facts, fn, opaque={fn.name}, self_class=reader.split('.')[0] if is_method else None, parent=parent_fn)
        if isinstance(loop, ast.While):
            check_index_iteration(loop, paths)
        initial = {getattr(p, 'pre_env', {}).get(result) for p in paths} - {None}
        fresh = initial.pop() if len(initial) == 1 and next(iter(initial)) in (('list', ()),) else None
        # the list as the loop sees it, or (for a method bound before the loop) the fresh list it was created as
        is_result = lambda v: v in (('lv', result), ('name', result)) or (fresh is not None and v == fresh)
        for p in paths:
            for r in rec_calls_([part for ev in p.events for part in ev[1:]]):
                ALL_REC_ARGS[0] += list(r[2] if r[0] == 'call' else r[3]) + [v for _, v in (r[3] if r[0] == 'call' else r[4])]
        for p in paths:
            if p.end == 'raise':
                continue
            recs = rec_calls_([part for ev in p.events for part in ev[1:]])
            parts = []
            node = None
            unknown_mut = None
            for e in p.events:
                if e[0] == 'expr' and e[1][0] == 'callv' and e[1][1][0] == 'attr' and is_result(e[1][1][1]) and e[1][1][2] in MUTATORS:
                    # a bound method of the list called through a local alias (keep = lines.append; keep(line))
                    e = ('mcall', e[1][1][1], e[1][1][2], e[1][2], e[1][3] if len(e[1]) > 3 else (), e[2])
                if e[0] == 'mcall' and is_result(e[1]) and e[2] in MUTATORS:
                    node = node or e[5]
                    if e[2] == 'append' and len(e[3]) == 1:
                        parts.append(('one', e[3][0]))
                    elif e[2] == 'insert' and len(e[3]) == 2 and strip_res(e[3][0]) == ('call', 'len', (e[1],), ()):
                        parts.append(('one', e[3][1]))          # insert at the end is append
                    elif e[2] == 'extend' and len(e[3]) == 1:
                        parts += parts_of(e[3][0])
                    else:
                        unknown_mut = e
                elif e[0] == 'aug' and e[1] == result:
                    node = node or e[4]
                    if e[2] == '+':
                        parts += parts_of(e[3])
                    else:
                        unknown_mut = e
            if unknown_mut is not None:
                continue        # reported by R14.3.order below
            operand_verdicts += include_operands(rep, facts, reader, p, recs, node or p.end_node or loop)
            if judge_contribution(rep, reader, p.cond_text(), recs, parts, node or p.end_node or loop, fn.lineno, path=p) == 'include':
                n_inc += 1
        at_end = lambda n: n.func.attr == 'insert' and len(n.args) == 2 and unparse(n.args[0]) == 'len({})'.format(result)
        bad = [n for n in ast.walk(fn) if isinstance(n, ast.Call) and isinstance(n.func, ast.Attribute) and n.func.attr in ('insert', 'sort', 'reverse', 'pop', 'remove', 'clear')
               and isinstance(n.func.value, ast.Name) and n.func.value.id == result and not at_end(n)]
        bad += [n for n in ast.walk(loop) if isinstance(n, ast.Name) and isinstance(n.ctx, ast.Store) and n.id == result and not isinstance(getattr(n, '_parent', None), ast.AugAssign)]
        rep.check(not bad, 'R14.3.order', 'the line list is built by append/extend only and never rebound inside the loop',
                  lambda: Finding('R14.3.order', 'read_lines', stmt_of(bad[0]), 'the line list is reordered / rebuilt inside the reader loop', line=bad[0].lineno), nontrivial=False)
    else:
        # flat-map form: [x for <line> in <lines> ... for x in contribution(<line>)]
        if result is not None:
            defs = [st for st in fn.body if isinstance(st, ast.Assign) and any(isinstance(t, ast.Name) and t.id == result for t in st.targets)]
            if len(defs) != 1:
                raise AnalysisError('read_lines: the returned list is neither grown in a loop nor built by one comprehension')
            value = defs[0].value
        g = value.generators[-1] if isinstance(value, ast.ListComp) and len(value.generators) >= 2 else None
        if not (g is not None and isinstance(value.elt, ast.Name) and isinstance(g.target, ast.Name) and g.target.id == value.elt.id and not g.ifs
                and isinstance(g.iter, ast.Call) and isinstance(g.iter.func, ast.Name)):
            raise AnalysisError('read_lines: the returned list is neither grown in a loop nor a flattening comprehension over a per-line function')
        target = cg.local_defs(reader).get(g.iter.func.id) or (g.iter.func.id if g.iter.func.id in facts.funcs else None)
        if target is None:
            raise AnalysisError('read_lines: per-line function {} not found'.format(g.iter.func.id))
        w, paths = function_paths(facts, cg.funcs[target])
        for p in paths:
            if p.end == 'raise':
                continue
            recs = rec_calls_([part for ev in p.events for part in ev[1:]])
            rv = [e for e in p.events if e[0] == 'return']
            if not rv:
                defer(rep, '{}: a path returns nothing to flatten'.format(target))
                continue
            operand_verdicts += include_operands(rep, facts, target, p, recs, rv[-1][2])
            if judge_contribution(rep, target, p.cond_text(), recs, parts_of(rv[-1][1]), rv[-1][2], fn.lineno, path=p) == 'include':
                n_inc += 1
    rep.analysed['include paths through the reader loop'] = n_inc
    rep.analysed['include operands evaluated'] = sum(1 for _, v in operand_verdicts if v in ('ok', 'operand', 'memo'))
    # never vacuous: for the include directive (and for include_bytes when the reader measures a file) at least one path must have had
    # its operand evaluated; a path that only consults a table says nothing about how the name was cut out of the line
    for kind in sorted({k for k, _ in operand_verdicts} | {'include'}):
        if not any(v in ('ok', 'operand', 'memo') for k, v in operand_verdicts if k == kind):
            defer(rep, '{}: the file name that an {} line hands to the search could not be followed back to the text of the line: no verdict'.format(reader, kind))


def strip_res(v):
    while isinstance(v, tuple) and v and v[0] == 'res':
        v = v[3]
    return v


def check_cli(rep, facts, cg, pv):
    if 'cli_main' not in cg.funcs:
        raise AnalysisError('anchor vanished: asm.cli_main')
    calls = []
    for q in sorted(pv.reach('cli_main')):
        for n in walk_fn(cg.funcs[q]):
            if isinstance(n, ast.Call) and 'assemble' in pv.callees(q, n):
                calls.append((q, n))
    if not calls:
        raise AnalysisError('anchor vanished: assemble call reachable from cli_main')
    afn = cg.funcs['assemble']
    path_param = pv.params(afn)[0]
    dir_params = [p for p in pv.params(afn) if 'Dir' in pv.param_kinds('assemble', p)]
    n_sources = 0
    for q, c in calls:
        bound = pv.bind_call('assemble', c, q)
        if '**' in bound:
            defer(rep, '{}: assemble() is given **{}: its options are not understood'.format(q, unparse(bound['**'][0])[:60]))
            continue
        for arg in bound.get(path_param, []):
            ok = pv.is_abs(arg, q)
            if not ok and not pv.understood_relative(arg, q):
                defer(rep, '{}: whether the input path `{}` is absolute is not understood'.format(q, unparse(arg)[:60]))
                continue
            rep.check(ok, 'R14.4.cli', '{}: the input path is made absolute before assembling'.format(q),
                      lambda c=c, q=q: Finding('R14.4.cli', q, c, 'the input path is handed to assemble() without os.path.abspath', line=c.lineno))
        for p in dir_params:
            for arg in bound.get(p, []):
                sources = []
                pv.is_abs(arg, q, sources)
                n_sources += len(sources)
                for node, ok, nq in sources:
                    if not ok and not pv.understood_relative(node, nq):
                        defer(rep, '{}: whether the include directory `{}` is absolute is not understood'.format(nq or q, unparse(node)[:60]))
                        continue
                    rep.check(ok, 'R14.4.cli', 'include dir `{}` is absolute'.format(unparse(node)),
                              lambda node=node, q=q: Finding('R14.4.cli', q, stmt_of(node), 'an include directory is stored relative to the working directory '
                                                             '(`{}` is neither os.path.abspath(...) nor built from an absolute directory)'.format(unparse(node)[:80]), line=node.lineno))
                    if nq is not None:
                        check_every_dir_kept(rep, facts, pv, node, nq)
    rep.analysed['cli include dir sources'] = n_sources


def check_every_dir_kept(rep, facts, pv, source, q):
    """R14.4.all-dirs: a directory list element built from the elements of a user-given list (the -i directories): every element
    of that list must end up in the search list (validation may refuse, i.e. raise, but not silently skip)."""
    from ..pathwalk import Walker, PathState
    fn = pv.fn_of(q)
    child, p = source, getattr(source, '_parent', None)
    while p is not None and p is not fn:
        if isinstance(p, (ast.ListComp, ast.SetComp, ast.GeneratorExp)):
            gens = [g for g in p.generators if 'UserGiven' in pv.kinds(g.iter, q)]
            if gens:
                filt = [c for g in p.generators for c in g.ifs]
                if filt:
                    defer(rep, '{}: the -i directories are filtered by `{}`: not understood'.format(q, unparse(filt[0])[:60]))
                else:
                    rep.ok('R14.4.all-dirs', '{}: every element of `{}` is kept'.format(q, unparse(gens[0].iter)[:40]))
                return
        if isinstance(p, ast.For) and any(child is s for s in p.body) and 'UserGiven' in pv.kinds(p.iter, q):
            grow = stmt_of(source)
            st = PathState()
            for a in pv.params(fn):
                st.env[a] = ('name', a)
            paths = Walker(facts).run(p.body, st)
            for path in paths:
                if path.end in ('raise', 'return'):
                    continue
                kept = any(ev[-1] is grow for ev in path.events if isinstance(ev[-1], ast.AST))
                if kept and path.end != 'break':
                    continue
                # a path on which the directory is not added: harmless only for a directory that was already added
                skips = [(t, pol) for t, pol, _ in path.conds if t[0] == 'cmp' and t[1] in ('in', 'not in') and (t[1] == 'in') == pol]
                verdict = 'dropped'
                for t, pol in skips:
                    holder = t[3]
                    if holder[0] == 'name':
                        init = empty_initialised(pv, fn, q, holder[1], p)
                        verdict = {True: 'duplicate', False: 'seeded'}.get(init, verdict)
                    elif holder[0] != 'name':
                        # the walker saw the initial value of the collection
                        verdict = 'duplicate' if holder in (('set', ()), ('list', ()), ('dict', ()), ('call', 'set', (), ())) else 'seeded'
                if verdict == 'duplicate':
                    continue
                if verdict == 'dropped' and skips:
                    defer(rep, '{}: a -i directory is skipped on the path [{}]: not understood'.format(q, path.cond_text()[-80:]))
                    continue
                node = path.end_node or p
                rep.fail(Finding('R14.4.all-dirs', q, node, 'on the path [{}] a directory given with -i is not added to the search list{}: the include search then '
                                 'depends on how / from where the directory was spelled'.format(
                                     path.cond_text()[-100:], ' (the collection of already seen directories does not start empty)' if verdict == 'seeded' else ''),
                                 line=getattr(node, 'lineno', p.lineno)), instance='dropped ' + path.cond_text()[-60:])
            rep.ok('R14.4.all-dirs', '{}: the loop over `{}` was followed'.format(q, unparse(p.iter)[:40]), nontrivial=False)
            return
        if isinstance(p, ast.While) and any(child is s for s in p.body):
            defer(rep, '{}: the -i directories are added to the search list inside a while loop: whether every one of them is kept is not understood'.format(q))
            return
        child, p = p, getattr(p, '_parent', None)


def empty_initialised(pv, fn, q, name, loop):
    """The local `name` is bound before `loop` to an empty collection (True), to a non-empty literal collection (False), or to
    something else / nothing (None)."""
    for st in fn.body:
        if st is loop:
            break
        if isinstance(st, ast.Assign) and any(isinstance(t, ast.Name) and t.id == name for t in st.targets):
            v = st.value
            if (isinstance(v, (ast.List, ast.Set, ast.Tuple)) and not v.elts) or (isinstance(v, ast.Dict) and not v.keys) \
                    or (isinstance(v, ast.Call) and dotted(v.func) in ('set', 'list', 'dict') and not v.args and not v.keywords):
                return True
            if isinstance(v, (ast.List, ast.Set, ast.Tuple, ast.Dict)) or (isinstance(v, ast.Call) and dotted(v.func) in ('set', 'list', 'dict', 'frozenset')):
                return False
            return None
    return None


def run(repo, tier):
    facts = Facts(repo.asm)
    rep = Report('C14', LEVEL,
                 'cwd-sensitivity effect analysis: every filesystem call reachable from assemble() (call edges, closures, functions used as '
                 'values) is classified by the provenance kinds of its path argument (Resolved = search dir joined with the name; UserGiven = '
                 'the caller\'s own path; RawToken = text cut out of a source line; Literal), computed by a reaching-definitions dataflow with '
                 'interprocedural summaries; only the first two may reach a sink, and os.getcwd() may be consulted only where '
                 'os.path.exists(<caller\'s input>) was false.  The recursive read passes the resolved path, as a file, and a directory list '
                 'holding the caller\'s -i directories only; every include search ranges over the -i directories and the directory of the '
                 'including file; the caller\'s list object is never changed in place; included lines are spliced at the position of the '
                 'include line (append/extend only); the CLI hands assemble() an absolute input path and absolute directories.')
    rep.trusted_base = ['CPython ast', 'bbverif.prov kind rules', 'bbverif.callgraph / pathwalk']
    rep.not_decided = ['equality of the resulting binaries / labels / constants (follows from splice order + purity of later passes, C16, not re-proved end to end)',
                       'which directory wins when the same name exists in several']
    cg = CallGraph(facts)
    pv = Prov(facts, cg)
    if 'assemble' not in cg.funcs:
        raise AnalysisError('anchor vanished: assemble')
    reach = sorted(pv.reach('assemble'))
    for group in (lambda: check_sinks(rep, facts, cg, pv, 'R14.1.provenance', reach), lambda: check_reader(rep, facts, cg, pv, reach), lambda: check_cli(rep, facts, cg, pv)):
        try:
            group()
        except AnalysisError as e:
            defer(rep, str(e))          # a group that does not understand the code must not mask a finding of another group
    raise_deferred(rep)
    # what the rule needs to have seen (not a count of syntactic sites: a refactor may merge probes): the source file and the
    # include_bytes content are read, the caller's own path is probed / opened, the search result is probed and measured / read
    rep.floor('filesystem sinks reachable from assemble', 4)
    rep.floor('sinks that read a file', 2)
    rep.floor('sinks given the caller\'s own path', 1)
    rep.floor('sinks given a path the include search returned', 2)
    rep.floor('recursive include calls', 1)
    rep.floor('include search sites', 1)
    rep.floor('include paths through the reader loop', 1)
    rep.floor('cli include dir sources', 2)
    return rep
