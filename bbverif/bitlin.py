"""Linear composites of several operands:  sum_i 2**k_i * atom_i + const.

`x << k | y` with 0 <= y < 2**k equals x * 2**k + y for EVERY integer x (two's complement: the low k bits of x << k are zero),
so an immediate glued together from operands that may be negative or unbounded (fence: fm << 8 | pred << 4 | succ when a guard
on pred is missing) stays a closed form instead of leaving the domain.  A later guard on the composite is decided
  - by interval arithmetic over the box of the operands' accepted sets when the whole box lies on one side, or
  - exactly on the top operand alone when the lower part lies in [0, 2**k_top) and the threshold is a multiple of 2**k_top
    (x * 2**k + r < m * 2**k  <=>  x < m   for every 0 <= r < 2**k): the usual power-of-two range checks of the encoders;
anything else is outside the domain (no verdict).  Bits are cut out field by field: a lower field must fit the gap below the
next one, the top field is taken modulo the width asked for (its two's-complement low bits), so the accepted set of every
operand comes out exactly and the accepted-set / layout comparisons with the ISA tables report what got through."""
import ast

from .astutil import unparse
from .bitcells import Unsupported, Param, View, Bits, INF, cmp_pred, decide_range


class Lin:
    """sum of 2**k * atom (atom: an unshifted View or a Bits value) plus a constant; `trunc`: taken modulo 2**trunc"""

    def __init__(self, terms, const=0, trunc=None):
        self.terms, self.const, self.trunc = list(terms), const, trunc

    def __repr__(self):
        return 'Lin({} + {}{})'.format(' + '.join('{}<<{}'.format(a, k) for a, k in self.terms), self.const,
                                       '' if self.trunc is None else ' mod 2**{}'.format(self.trunc))


class LinMixin:
    def is_wide(self, v):
        """a left-shifted view: only made for operands that may be negative or unbounded"""
        return isinstance(v, View) and v.shift < 0 and v.trunc is None

    def to_lin(self, v, st, node):
        if isinstance(v, Lin):
            return v
        if isinstance(v, bool):
            v = int(v)
        if isinstance(v, int):
            return Lin([], v)
        if isinstance(v, Param):
            v = self.as_int_view(v, st, node)
        if isinstance(v, View) and v.trunc is None and v.shift <= 0:
            return Lin([(View(v.src, v.ch, v.add, 0, None), -v.shift)], 0)
        if isinstance(v, Bits):
            return Lin([(v, 0)], 0)
        return None

    def atom_range(self, atom, st):
        if isinstance(atom, Bits):
            return atom.range()
        return self.view_range(atom, st)

    def lin_range(self, lin, st):
        if lin.trunc is not None:
            return 0, (1 << lin.trunc) - 1
        lo = hi = lin.const
        for atom, k in lin.terms:
            a, b = self.atom_range(atom, st)
            if b < a:
                return 0, -1
            lo = -INF if (lo <= -INF or a <= -INF) else lo + (a << k)
            hi = INF if (hi >= INF or b >= INF) else hi + (b << k)
        return lo, hi

    def lin_zero_bits(self, lin):
        """number of low bits that are zero whatever the operands are"""
        z = INF
        for atom, k in lin.terms:
            z = min(z, k)
        if lin.const:
            z = min(z, (lin.const & -lin.const).bit_length() - 1)
        return z

    def lin_binop(self, node, a, b, st):
        """binary operator with a composite (or a left-shifted signed view) on either side; None = not ours"""
        op = type(node.op)
        involved = isinstance(a, Lin) or isinstance(b, Lin) or (op in (ast.BitOr, ast.Add) and (self.is_wide(a) or self.is_wide(b)))
        if not involved:
            return None
        if isinstance(a, Lin) and a.trunc is not None or isinstance(b, Lin) and b.trunc is not None:
            a = self.lin_bits(a, None, st, node) if isinstance(a, Lin) else a
            b = self.lin_bits(b, None, st, node) if isinstance(b, Lin) else b
            return self.binop(node, a, b, st)
        if op is ast.BitOr:
            if isinstance(a, int) and a == 0:
                return b
            if isinstance(b, int) and b == 0:
                return a
            la, lb = self.to_lin(a, st, node), self.to_lin(b, st, node)
            if la is None or lb is None:
                raise Unsupported('bitwise or of a composite with {}'.format(unparse(node)))
            for hi_part, lo_part in ((la, lb), (lb, la)):
                z = self.lin_zero_bits(hi_part)
                lo, hi = self.lin_range(lo_part, st)
                if z >= INF:
                    continue
                if lo >= 0 and hi < (1 << z):
                    return Lin(hi_part.terms + lo_part.terms, hi_part.const + lo_part.const)
            raise Unsupported('bitwise or of fields that may overlap (a part that can be negative or unbounded is not confined '
                              'below the other): {}'.format(unparse(node)))
        if op in (ast.Add, ast.Sub):
            la, lb = self.to_lin(a, st, node), self.to_lin(b, st, node)
            if la is None or lb is None or (op is ast.Sub and lb.terms):
                raise Unsupported('arithmetic on a composite: {}'.format(unparse(node)))
            if op is ast.Sub:
                return Lin(la.terms, la.const - lb.const)
            return Lin(la.terms + lb.terms, la.const + lb.const)
        if op in (ast.LShift, ast.Mult) and isinstance(a, Lin) and isinstance(b, int) and not isinstance(b, bool):
            k = b if op is ast.LShift else (b.bit_length() - 1 if b > 0 and b & (b - 1) == 0 else None)
            if k is not None and 0 <= k <= 64:
                return Lin([(atom, kk + k) for atom, kk in a.terms], a.const << k)
        if op is ast.Mult and isinstance(b, Lin) and isinstance(a, int):
            return self.lin_binop(ast.copy_location(ast.BinOp(left=node.right, op=node.op, right=node.left), node), b, a, st)
        if op in (ast.RShift, ast.FloorDiv) and isinstance(a, Lin) and isinstance(b, int) and not isinstance(b, bool):
            k = b if op is ast.RShift else (b.bit_length() - 1 if b > 0 and b & (b - 1) == 0 else None)
            if k is not None and k >= 0 and self.lin_zero_bits(a) >= k:
                return Lin([(atom, kk - k) for atom, kk in a.terms], a.const >> k)
        if op is ast.BitAnd:
            if isinstance(b, Lin) and isinstance(a, int):
                a, b = b, a
            if isinstance(a, Lin) and isinstance(b, int) and not isinstance(b, bool) and b >= 0:
                bits = self.lin_bits(a, b.bit_length(), st, node)
                return bits.derive([bit if (b >> i) & 1 else 0 for i, bit in enumerate(bits.bits)])
        if op is ast.Mod and isinstance(a, Lin) and isinstance(b, int) and b > 0 and b & (b - 1) == 0:
            return self.lin_bits(a, b.bit_length() - 1, st, node)
        raise Unsupported('operator {} on a composite of several operands: {}'.format(op.__name__, unparse(node)))

    def lin_bits(self, lin, nbits, st, node):
        """the low `nbits` bits (None: all of them, the value must then be a bounded non-negative number)"""
        if lin.trunc is not None:
            nbits = lin.trunc if nbits is None else min(nbits, lin.trunc)
        items = list(lin.terms)
        if lin.const < 0:
            raise Unsupported('negative constant inside a composite turned into bits: {}'.format(unparse(node)))
        if lin.const:
            tz = (lin.const & -lin.const).bit_length() - 1
            items.append((Bits.of_int(lin.const >> tz), tz))
        items.sort(key=lambda t: t[1])
        out = []
        tags = frozenset()
        for i, (atom, k) in enumerate(items):
            if nbits is not None and k >= nbits:
                break
            if len(out) > k:
                raise Unsupported('overlapping fields inside a composite: {}'.format(unparse(node)))
            out.extend([0] * (k - len(out)))
            last = i == len(items) - 1
            lo, hi = self.atom_range(atom, st)
            limit = None if last else items[i + 1][1] - k
            if not last:
                if not (lo >= 0 and hi < (1 << limit)):
                    raise Unsupported('a field of the composite does not fit below the next one ([{}, {}] in {} bits): {}'.format(
                        '-inf' if lo <= -INF else lo, '+inf' if hi >= INF else hi, limit, unparse(node)))
                b = self.to_bits(atom, st, node)
            elif lo >= 0 and hi < INF and (nbits is None or hi < (1 << (nbits - k))):
                b = self.to_bits(atom, st, node)
            elif nbits is not None and isinstance(atom, View):
                # top field: its two's-complement low bits (the field is cut by the width asked for)
                b = self.mask_view(atom, (1 << (nbits - k)) - 1, st, node)
            elif nbits is not None and isinstance(atom, Bits):
                b = atom.derive(atom.bits[:nbits - k])
            else:
                raise Unsupported('operand with range [{}, {}] placed into a bit field without a mask: {}'.format(
                    '-inf' if lo <= -INF else lo, '+inf' if hi >= INF else hi, unparse(node)))
            out.extend(b.bits)
            tags = tags | b.tags
        if nbits is not None:
            out = out[:nbits]
        return Bits(out, None, tags)

    def split_lin(self, a, op, b, st, node):
        if not (isinstance(b, int)):
            raise Unsupported('comparison of a composite of several operands with an abstract value: {}'.format(unparse(node)))
        b = int(b)
        if a.trunc is not None:
            return self.split_bits(self.lin_bits(a, None, st, node), op, b, st, node)
        lo, hi = self.lin_range(a, st)
        if hi < lo:
            return None, None, True
        dec = decide_range(lo, hi, op, b)
        if dec is not None:
            return (st, None, True) if dec else (None, st, True)
        forms = {ast.Lt: (ast.Lt, b), ast.LtE: (ast.Lt, b + 1), ast.GtE: (ast.GtE, b), ast.Gt: (ast.GtE, b + 1)}
        if type(op) not in forms or not a.terms:
            raise Unsupported('test of a composite of several operands that the box of their ranges does not decide: {}'.format(unparse(node)))
        o2, T = forms[type(op)]
        terms = sorted(a.terms, key=lambda t: t[1])
        top, k = terms[-1]
        rest = Lin(terms[:-1], a.const)
        rlo, rhi = self.lin_range(rest, st)
        if not isinstance(top, View) or len(terms) > 1 and terms[-2][1] == k:
            raise Unsupported('test of a composite whose top field is not one operand: {}'.format(unparse(node)))
        if rlo >= 0 and rhi < (1 << k) and T % (1 << k) == 0:
            # top * 2**k + rest  <  m * 2**k   <=>   top < m      (0 <= rest < 2**k), likewise for >=
            return self.apply_pred(st, top, cmp_pred(o2, T >> k, unparse(node)))
        raise Unsupported('test of a composite of several operands whose outcome depends on more than one of them '
                          '(lower part in [{}, {}], threshold {} not a multiple of 2**{}): {}'.format(rlo, rhi, T, k, unparse(node)))
