"""C07 - %hi / %lo always split a value so that the consuming pair rebuilds it."""
import ast

from ..core import Report, Finding, AnalysisError
from ..facts import Facts
from ..astutil import unparse, dotted
from .. import relocdom as R
from ..encsum import all_summaries, derived_operand, canon, show_cells
from ..wiring import chain_outcomes
from .. import immsites as IS

LEVEL = 'proof'


def sres_to_lin(x):
    """Exact linear form of a signed residue when its sign bit is a single atom."""
    if isinstance(x, R.Lin):
        return x
    if isinstance(x, R.SRes):
        b = R.bit_of_lin(x.lin, x.m - 1, strict=False)
        lo, hi = x.lin.range()
        if b is not None and lo is not None and lo >= 0 and hi <= (1 << x.m) - 1:
            return x.lin - b.scale(2)
    return None


def eval_method_rule(rep, facts, cls, reloc, rule):
    """Hi.eval / Lo.eval return reloc(<value of the inner expression evaluated with the same position, env, line>)."""
    ci = facts.classes.get(cls)
    owner, m = facts.method(cls, 'eval') if ci is not None else (None, None)
    if m is None or any(d for d in m.decorator_list):
        raise AnalysisError('anchor vanished: {}.eval'.format(cls))
    me = m.args.args[0].arg if m.args.args else 'self'

    def callee(func):
        """Name of the function a call in eval() reaches: a plain name, or `self.<attr>` / `type(self).<attr>` where the class (or a
        base) binds <attr> = staticmethod(f) / f at class level (a shared eval() in a base class, the relocation named per subclass)."""
        d = dotted(func)
        if d and '.' not in d:
            return d
        if isinstance(func, ast.Attribute) and (unparse(func.value) in (me, 'type({})'.format(me), me + '.__class__')):
            for c in facts.mro(cls):
                for st in facts.classes[c].node.body:
                    if isinstance(st, ast.Assign) and any(isinstance(t, ast.Name) and t.id == func.attr for t in st.targets):
                        v = st.value
                        if isinstance(v, ast.Call) and dotted(v.func) == 'staticmethod' and len(v.args) == 1:
                            v = v.args[0]
                        return v.id if isinstance(v, ast.Name) else None
        return None
    params = [a.arg for a in m.args.args][1:]
    rets = [n for n in ast.walk(m) if isinstance(n, ast.Return)]
    defs = {}
    for n in ast.walk(m):
        if isinstance(n, ast.Assign) and len(n.targets) == 1 and isinstance(n.targets[0], ast.Name):
            defs.setdefault(n.targets[0].id, []).append(n.value)

    def is_inner_eval(e):
        if isinstance(e, ast.Name) and len(defs.get(e.id, [])) == 1:
            e = defs[e.id][0]
        return (isinstance(e, ast.Call) and isinstance(e.func, ast.Attribute) and e.func.attr == 'eval'
                and unparse(e.func.value) == 'self.expr' and [unparse(a) for a in e.args] == params and not e.keywords)

    ok = (len(rets) == 1 and isinstance(rets[0].value, ast.Call) and callee(rets[0].value.func) == reloc
          and len(rets[0].value.args) == 1 and is_inner_eval(rets[0].value.args[0]))
    rep.check(ok, rule, '{}.eval == {}(inner.eval(position, env, line))'.format(cls, reloc),
              lambda: Finding(rule, cls + '.eval', rets[0] if rets else m,
                              '{}.eval does not return {} of the inner expression evaluated at the same position/env'.format(cls, reloc),
                              line=m.lineno))


WORD_SAMPLES = [0, 1, 0x7ff, 0x800, 0x801, 0xfff, 0x1000, 0x7ffff7ff, 0x7ffff800, 0x7fffffff, 0x80000000, 0x800007ff, 0x80000800, 0xfffff7ff, 0xfffff800,
                0xffffffff, -1, -0x7ff, -0x800, -0x801, -0x1000, -0x7ffff800, -0x80000000]


class _FoldWord(ast.NodeTransformer):
    """c_uint32(x).value / c_int32(x).value of a constant x, so that astutil.fold can finish the job."""

    def visit_Attribute(self, node):
        self.generic_visit(node)
        if node.attr == 'value' and isinstance(node.value, ast.Call) and dotted(node.value.func) in ('c_uint32', 'ctypes.c_uint32', 'c_int32', 'ctypes.c_int32') \
                and len(node.value.args) == 1 and isinstance(node.value.args[0], ast.Constant) and isinstance(node.value.args[0].value, int):
            v = node.value.args[0].value & 0xffffffff
            if dotted(node.value.func).endswith('c_int32') and v & 0x80000000:
                v -= 1 << 32
            return ast.copy_location(ast.Constant(value=v), node)
        return node


def total_eval_rule(rep, facts, cls, rule):
    """%hi / %lo are defined for every 32-bit value (the property quantifies over all 2^32 of them, in every spelling): an eval()
    that raises for one of them refuses a valid operand.  Every `raise` in the method is examined under the tests that guard it,
    with the inner value bound to boundary values of the 32-bit range (a witness is a disproof; guards that cannot be folded give
    no verdict)."""
    import copy
    from ..astutil import fold, NotConstant
    owner, m = facts.method(cls, 'eval')
    if m is None:
        raise AnalysisError('anchor vanished: {}.eval'.format(cls))
    inner = None
    for n in ast.walk(m):
        if isinstance(n, ast.Assign) and len(n.targets) == 1 and isinstance(n.targets[0], ast.Name) and isinstance(n.value, ast.Call) \
                and isinstance(n.value.func, ast.Attribute) and n.value.func.attr == 'eval':
            inner = n.targets[0].id
    raises = [n for n in ast.walk(m) if isinstance(n, ast.Raise)]
    if not raises:
        rep.ok(rule, '{}.eval never refuses a value'.format(cls), nontrivial=False)
        return
    for r in raises:
        guards = []
        cur = r
        par = getattr(cur, '_parent', None)
        while par is not None and par is not m:
            if isinstance(par, ast.If):
                guards.append((par.test, cur in par.body or any(cur is x or cur in ast.walk(x) for x in par.body)))
            elif isinstance(par, (ast.Try, ast.ExceptHandler, ast.For, ast.While, ast.With)):
                raise AnalysisError('{}.eval raises inside a {}: when it refuses a value is not understood'.format(cls, type(par).__name__))
            cur, par = par, getattr(par, '_parent', None)
        if inner is None or not guards:
            raise AnalysisError('{}.eval contains a raise whose condition is not understood'.format(cls))
        witness = None
        for v in WORD_SAMPLES:
            try:
                fires = True
                for test, in_body in guards:
                    t2 = copy.deepcopy(test)

                    class Sub(ast.NodeTransformer):
                        def visit_Name(self, n):
                            return ast.copy_location(ast.Constant(value=v), n) if n.id == inner else n
                    t2 = _FoldWord().visit(Sub().visit(t2))
                    val = bool(fold(t2))
                    if val != in_body:
                        fires = False
                        break
            except NotConstant:
                raise AnalysisError('{}.eval: the condition under which it refuses a value ({}) cannot be evaluated on constants'.format(cls, unparse(guards[0][0])[:60]))
            if fires:
                witness = v
                break
        rep.check(witness is None, rule, '{}.eval accepts every boundary value of the 32-bit range'.format(cls),
                  lambda r=r, witness=witness: Finding(rule, cls + '.eval', r, '{}.eval refuses the 32-bit value {:#x}: {} of every 32-bit value is defined and fits its field'.format(
                      cls, witness & 0xffffffff, '%' + cls.lower()), line=r.lineno))


def run(repo, tier):
    facts = Facts(repo.asm)
    rep = Report('C07', LEVEL,
                 'sign_extend / relocate_lo / relocate_hi are abstractly interpreted over an unbounded two\'s-complement input '
                 'v = 2^48*SH + sum 2^j*b_j (linear forms over bit atoms, residue wrappers, single-bit case split re-joined '
                 'linearly).  The results are closed forms: lo as an exact linear form, hi as a signed residue; the identities '
                 'lo == v (mod 2^12), hi == (v>>12)+v[11] (mod 2^20), (hi<<12)+lo == v (mod 2^32) are then coefficient '
                 'identities, valid for every integer v.  Ranges are compared with the accepted sets derived for lui/auipc and '
                 'every I/S-type consumer (C01 summaries); Hi/Lo.eval and parse_immediate are followed by def-use.')
    rep.trusted_base = ['CPython ast', 'bbverif.relocdom linear-form arithmetic', 'bbverif.bitdom (accepted sets of the consumers)']
    v = R.Lin.v()
    interp = R.Interp(facts)
    try:
        lo_regions = interp.call_regions('relocate_lo', [v])
        hi_regions = interp.call_regions('relocate_hi', [v])
    except R.Unsupported as e:
        raise AnalysisError('construct outside the %hi/%lo arithmetic fragment: {}'.format(e))
    rep.count('functions interpreted', 3)
    rep.analysed['input regions (lo x hi)'] = len(lo_regions) * len(hi_regions)
    lo_line = facts.funcs['relocate_lo'].lineno
    hi_line = facts.funcs['relocate_hi'].lineno
    want_hi0 = R.shift_right(v, 12) + R.Lin({11: 1}, 0)

    def restrict(lin, subst):
        for atom, val in subst.items():
            lin = lin.subst(atom, val)
        return lin
    v0 = v
    for lreg, lsub, lo in lo_regions:
        v = restrict(v0, lsub)
        L, ml, llo, lhi = R.congruence_and_range(lo)
        where = '' if lreg == 'all v' else ' for ' + lreg
        rep.sample({'relocate_lo': {'region': lreg, 'form': repr(L), 'modulus_bits': ml, 'range': [llo, lhi]}})
        # (a) lo == v mod 2^12, range
        rep.check((ml is None or ml >= 12) and (L - v).congruent_zero(12), 'R7.lo-congruent', 'relocate_lo(v) == v (mod 2^12)' + where,
                  lambda L=L, where=where: Finding('R7.lo-congruent', 'relocate_lo', 'congruence' + where, '%lo(v) is not congruent to v modulo 2^12{}: %lo(v) = {}'.format(where, L), line=lo_line))
        rep.check(llo is not None and llo >= -2048 and lhi is not None and lhi <= 2047, 'R7.lo-range', 'relocate_lo(v) in [-2048, 2047]' + where,
                  lambda llo=llo, lhi=lhi, where=where: Finding('R7.lo-range', 'relocate_lo', 'range' + where, '%lo(v) ranges over [{}, {}]{}, not a signed 12-bit value'.format(llo, lhi, where), line=lo_line))
    for hreg, hsub, hi in hi_regions:
        v = restrict(v0, hsub)
        want_hi = restrict(want_hi0, hsub)
        H, mh, hlo, hhi = R.congruence_and_range(hi)
        where = '' if hreg == 'all v' else ' for ' + hreg
        rep.sample({'relocate_hi': {'region': hreg, 'form': repr(H), 'modulus_bits': mh, 'range': [hlo, hhi]}})
        # (b) hi == (v >> 12) + v[11] mod 2^20, range
        rep.check((mh is None or mh >= 20) and (H - want_hi).congruent_zero(20), 'R7.hi-congruent', 'relocate_hi(v) == (v >> 12) + v[11] (mod 2^20)' + where,
                  lambda H=H, mh=mh, where=where: Finding('R7.hi-congruent', 'relocate_hi', 'congruence' + where,
                                                          '%hi(v) == {} (mod 2^{}){}, expected (v >> 12) + bit11(v) (mod 2^20)'.format(H, mh, where), line=hi_line))
        rep.check(hlo is not None and hlo >= -(1 << 19) and hhi is not None and hhi <= (1 << 19) - 1, 'R7.hi-range', 'relocate_hi(v) in [-2^19, 2^19-1]' + where,
                  lambda hlo=hlo, hhi=hhi, where=where: Finding('R7.hi-range', 'relocate_hi', 'range' + where, '%hi(v) ranges over [{}, {}]{}, not a signed 20-bit value'.format(hlo, hhi, where), line=hi_line))
        # (c) (hi << 12) + lo == v mod 2^32  (lo taken from the unsplit / every lo region: lo does not depend on hi's regions)
        for lreg, lsub, lo in lo_regions:
            if set(lsub) & set(hsub) and any(lsub[k] != hsub[k] for k in set(lsub) & set(hsub)):
                continue      # disjoint regions
            lo_lin = sres_to_lin(lo)
            if lo_lin is None:
                rep.fail(Finding('R7.rebuild', 'relocate_lo', 'exactness', '%lo(v) is only known as a residue; (hi << 12) + lo cannot equal v for all v', line=lo_line))
                continue
            both = dict(lsub)
            both.update(hsub)
            total = restrict(H.scale(1 << 12) + lo_lin - v0, both)
            good = (mh is None or mh + 12 >= 32) and total.congruent_zero(32)
            rep.check(good, 'R7.rebuild', '(relocate_hi(v) << 12) + relocate_lo(v) == v (mod 2^32)' + (where or ' for every integer v'),
                      lambda total=total, mh=mh, where=where: Finding('R7.rebuild', 'relocate_hi', 'identity' + where,
                                                                      '(%hi(v) << 12) + %lo(v) - v == {}{} which is not 0 modulo 2^32 (hi known modulo 2^{})'.format(total, where, mh),
                                                                      line=hi_line))
    # (d) ranges fit the consumers
    sums = all_summaries(facts)
    n = 0
    for m, s in sums.items():
        spec_kind = None
        if s.encoder in ('u_type',):
            spec_kind = ('hi', -(1 << 19), (1 << 19) - 1)
        elif s.encoder in ('i_type', 'ij_type', 's_type') and 'imm' in s.params:
            spec_kind = ('lo', -2048, 2047)
        if spec_kind is None:
            continue
        info = derived_operand(s, 'imm')
        if info is None:
            continue
        n += 1
        cells = canon(info['cells'])
        which, a, b = spec_kind
        mult = max(c[3] for c in cells) if cells else 1
        covered = any(c[0] <= a and c[1] >= b - (c[3] - 1) and c[2] == 0 for c in cells)
        if m == 'jalr' and mult == 2:
            # documented restriction: even offsets only; %lo of an odd value is refused, never wrapped
            rep.note('jalr refuses odd %lo values (documented 12-bit MO2 operand)')
        rep.check(covered, 'R7.fits', '{}: %{} range within accepted set {}'.format(m, which, show_cells(cells)),
                  lambda m=m, which=which, cells=cells: Finding('R7.fits', s.encoder + ':' + m, 'range',
                                                                '{} does not accept the whole range of %{}: accepted {}'.format(m, which, show_cells(cells)),
                                                                line=facts.funcs[s.encoder].lineno))
    rep.count('consumer encoders compared', n)
    # (e) expression nodes and parser
    eval_method_rule(rep, facts, 'Hi', 'relocate_hi', 'R7.eval')
    eval_method_rule(rep, facts, 'Lo', 'relocate_lo', 'R7.eval')
    arms, els = chain_outcomes(facts, 'parse_immediate', 'imm')
    want = {'%hi': 'Hi', '%lo': 'Lo'}
    seen = {}
    pfn = facts.funcs['parse_immediate']
    from ..wiring import admits
    every = [o for key, test, outs in arms for o in outs] + list(els or [])
    for mod in want:
        for o in every:
            # the outcomes a line whose first operand token is this modifier can take (dispatch-independent: elif chain, merged
            # arms with the class picked by a conditional expression, table lookup)
            if o.kind != 'return' or o.cls not in ('Hi', 'Lo', 'Arithmetic', 'Position', 'Offset') or not admits(facts, o.path, mod):
                continue
            if o.cls in ('Arithmetic', 'Position', 'Offset') and any(f[0] == 'eq' and f[2] and f[1] != mod for f in o.path.head_facts):
                continue
            pf = o.path.paren_form() if hasattr(o.path, 'paren_form') else None
            paren = pf if isinstance(pf, bool) else any("'('" in c[0] and c[1] for c in o.path.conds)
            inner = ('imm', ('rest', 2, 1)) if paren else ('imm', ('rest', 1, 0))
            positively = any(f[0] == 'eq' and f[2] and f[1] == mod for f in o.path.head_facts) or \
                any(f[0] == 'in' and f[2] for f in o.path.head_facts)
            if not positively and o.cls not in ('Hi', 'Lo'):
                continue           # the catch-all arm: reached by a modifier only if no arm claims it (reported below)
            ok = o.cls == want[mod] and o.args == [inner]
            seen[(mod, paren)] = seen.get((mod, paren), True) and ok
            rep.check(ok, 'R7.parse', '{} {} form -> {}(parse_immediate(rest))'.format(mod, 'parenthesised' if paren else 'bare', want[mod]),
                      lambda o=o, mod=mod: Finding('R7.parse', 'parse_immediate', o.node,
                                                   '{} is parsed into {}({}) instead of {} of the nested immediate'.format(mod, o.cls, o.args, want[mod]),
                                                   line=o.node.lineno))
    for k in [('%hi', True), ('%hi', False), ('%lo', True), ('%lo', False)]:
        if k not in seen:
            rep.fail(Finding('R7.parse', 'parse_immediate', '{} {}'.format(*k), 'no parse path for {} ({} form)'.format(k[0], 'paren' if k[1] else 'bare'), line=pfn.lineno))
    rep.count('parse_immediate paths', len(seen))
    # (f) pairing of the halves built by the pseudo-instruction pass
    IS.check_lo_pairing(rep, facts, 'R7.lo-width', 'R7.guard-fits', 'R7.hi-lo-pair')
    for cls_ in ('Hi', 'Lo'):
        total_eval_rule(rep, facts, cls_, 'R7.total')
    # the auipc + jalr pair rebuilds its target only if both halves are %hi / %lo of the *same* value: every site that evaluates
    # the jalr half does so relative to the auipc, and nothing is added to the result afterwards (%lo(v + c) != %lo(v) + c)
    IS.check_auipc(rep, facts, 'R7.auipc-adjust', 'R7.auipc-sibling')
    # ... and both halves are evaluated where they stand: the stored operand is the value evaluated at the item's own final
    # offset against the final tables (a memo keyed by the expression text hands the second far call the halves of the first)
    from .. import labelrules as LB
    LB.check_L4(rep, facts, 'R7.final')
    rep.floor('%lo constructions examined', 5)
    rep.floor('consumer encoders compared', 20)
    rep.floor('parse_immediate paths', 4)
    rep.not_decided = ['consumer pairs written by the user (lui + lw) are covered through (a)-(d) only']
    return rep
