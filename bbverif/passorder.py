"""The pass sequence of `assemble`, derived by a small concrete/abstract evaluation of its body (nothing of the repo is executed).

`assemble` may spell its pipeline as a straight line of `items = pass(items, table)` statements, as a list / tuple of passes (or
(pass, needed tables) pairs, lambdas, functools.partial objects) applied in a loop, through helper functions that build such a
list, or any mixture.  The evaluator interprets exactly that fragment of Python:

  * `compress` is bound to a concrete boolean (the analysis runs once per value), every other parameter is symbolic;
  * lists / tuples / dicts with constant keys are concrete heap objects (append / extend / insert / += / indexing / iteration /
    comprehensions over them are executed on the abstract values);
  * module-level helper functions are evaluated in place as long as they stay inside the fragment; a function that does not
    (every real pass: it loops over the opaque item list) becomes a recorded call whose result is an opaque item list;
  * a test that cannot be decided (`constants is not None`) yields a ('choice', test, a, b) value for conditional expressions
    and forks the statement sequence for `if` statements.

Result: for each compress value the list of paths, each an ordered list of PassCall(name, args, kwargs) with abstract
argument values:  ('param', name) the caller's argument | ('ref', id) an object created inside this call | ('items', n) the item
list returned by call n | ('choice', test, a, b) | ('module', name) a module-level object | ('const', v) | ('unknown', text).
"""
import ast
import itertools

from .core import AnalysisError
from .astutil import dotted, unparse


class Undecided(AnalysisError):
    pass


class _Leave(Exception):
    """statement-level control flow inside the evaluator"""

    def __init__(self, kind, value=None):
        self.kind, self.value = kind, value


class PassCall:
    def __init__(self, name, args, kwargs, node, mapped=False):
        self.name, self.args, self.kwargs, self.node, self.mapped = name, args, kwargs, node, mapped
        self.index = None
        self.via = ()        # module-level helpers (thin wrappers) through which the call was reached
        self.via_sites = ()  # the call nodes at which those helpers were entered (one helper invocation = one site)
        self.result = None
        self.discarded = False

    def named(self, name):
        return self.name == name or name in self.via

    def __repr__(self):
        return '{}{}({})'.format('map:' if self.mapped else '', self.name, ', '.join(show(a) for a in self.args))


def show(v):
    if not isinstance(v, tuple):
        return repr(v)
    if v[0] == 'choice':
        return '({} if {} else {})'.format(show(v[2]), v[1], show(v[3]))
    if v[0] in ('param', 'func', 'module', 'builtin', 'class'):
        return v[1]
    if v[0] == 'const':
        return repr(v[1])
    if v[0] == 'ref':
        return '<obj#{}>'.format(v[1])
    if v[0] == 'items':
        return '<items#{}>'.format(v[1])
    return '<{}>'.format(' '.join(str(x) for x in v[:2]))


class State:
    def __init__(self):
        self.env = {}
        self.heap = {}       # id -> [kind, payload, lineno]
        self.calls = []
        self.status = None   # None | 'return' | 'raise'
        self.value = None
        self.assumed = []    # (test text, outcome) of the undecidable `if` tests this path went through
        self.mutations = []  # (node, text, number of calls recorded so far): the running item list changed in place outside a pass

    def clone(self):
        s = State()
        s.env = dict(self.env)
        s.heap = {k: [v[0], (list(v[1]) if v[0] in ('list', 'tuple') else dict(v[1])), v[2]] for k, v in self.heap.items()}
        s.calls = list(self.calls)
        s.assumed = list(self.assumed)
        s.mutations = list(self.mutations)
        return s


class Evaluator:
    MAX_STATES = 64
    MAX_DEPTH = 8

    def __init__(self, facts, bindings=None):
        self.facts = facts
        self.bindings = bindings or {}
        self.ids = itertools.count(1)
        self.closures = {}
        self.depth = 0
        self.stack = []
        self.site_stack = []
        self.module_names = {}
        for st in facts.tree.body:
            if isinstance(st, ast.Assign):
                for t in st.targets:
                    if isinstance(t, ast.Name):
                        self.module_names[t.id] = st
            elif isinstance(st, (ast.Import, ast.ImportFrom)):
                for a in st.names:
                    self.module_names[(a.asname or a.name).split('.')[0]] = st

    # -- heap -------------------------------------------------------------------------------------------------------------
    def alloc(self, st, kind, payload, node):
        i = next(self.ids)
        st.heap[i] = [kind, payload, getattr(node, 'lineno', 0)]
        return ('ref', i)

    def obj(self, st, v):
        return st.heap[v[1]] if isinstance(v, tuple) and v[0] == 'ref' and v[1] in st.heap else None

    # -- deciding ---------------------------------------------------------------------------------------------------------
    def truth(self, st, v):
        k = v[0]
        if k == 'const':
            return bool(v[1])
        if k == 'ref':
            o = self.obj(st, v)
            return bool(o[1]) if o is not None else None
        if k in ('func', 'closure', 'class', 'builtin', 'partial'):
            return True
        if k == 'choice':
            a, b = self.truth(st, v[2]), self.truth(st, v[3])
            return a if a == b else None
        return None

    def is_none(self, st, v):
        k = v[0]
        if k == 'const':
            return v[1] is None
        if k in ('ref', 'func', 'closure', 'class', 'builtin', 'partial', 'items'):
            return False
        if k == 'choice':
            a, b = self.is_none(st, v[2]), self.is_none(st, v[3])
            return a if a == b else None
        return None

    # -- expressions ------------------------------------------------------------------------------------------------------
    def ev(self, node, st):
        if node is None:
            return ('const', None)
        if isinstance(node, ast.Constant):
            return ('const', node.value)
        if isinstance(node, ast.Name):
            if node.id in st.env:
                return st.env[node.id]
            if node.id in self.facts.funcs:
                return ('func', node.id)
            if node.id in self.facts.classes:
                return ('class', node.id)
            if node.id in self.module_names:
                return ('module', node.id)
            if node.id in ('True', 'False', 'None'):
                return ('const', {'True': True, 'False': False, 'None': None}[node.id])
            return ('builtin', node.id)
        if isinstance(node, (ast.List, ast.Tuple)):
            elts = []
            for e in node.elts:
                if isinstance(e, ast.Starred):
                    elts.extend(self.sequence(st, self.ev(e.value, st), e))
                else:
                    elts.append(self.ev(e, st))
            return self.alloc(st, 'list' if isinstance(node, ast.List) else 'tuple', elts, node)
        if isinstance(node, ast.Dict):
            d = {}
            for k, v in zip(node.keys, node.values):
                if k is None:
                    src = self.obj(st, self.ev(v, st))
                    if src is None or src[0] != 'dict':
                        raise Undecided('dict unpacking of a non-concrete mapping: {}'.format(unparse(node)[:60]))
                    d.update(src[1])
                    continue
                kv = self.ev(k, st)
                if kv[0] != 'const':
                    raise Undecided('dict literal with a non-constant key: {}'.format(unparse(node)[:60]))
                d[kv[1]] = self.ev(v, st)
            return self.alloc(st, 'dict', d, node)
        if isinstance(node, ast.IfExp):
            t = self.test(node.test, st)
            if t is True:
                return self.ev(node.body, st)
            if t is False:
                return self.ev(node.orelse, st)
            return ('choice', unparse(node.test), self.ev(node.body, st), self.ev(node.orelse, st))
        if isinstance(node, ast.BoolOp):
            vals = [self.ev(v, st) for v in node.values]
            cur = vals[-1]
            for v in reversed(vals[:-1]):
                t = self.truth(st, v)
                if isinstance(node.op, ast.Or):
                    cur = v if t is True else (cur if t is False else ('choice', 'bool({})'.format(show(v)), v, cur))
                else:
                    cur = cur if t is True else (v if t is False else ('choice', 'bool({})'.format(show(v)), cur, v))
            return cur
        if isinstance(node, (ast.Compare, ast.UnaryOp)) and (isinstance(node, ast.Compare) or isinstance(node.op, ast.Not)):
            t = self.test(node, st)
            return ('const', t) if t is not None else ('unknown', unparse(node))
        if isinstance(node, ast.Subscript):
            base = self.ev(node.value, st)
            o = self.obj(st, base)
            if o is not None and not isinstance(node.slice, ast.Slice):
                idx = self.ev(node.slice, st)
                if idx[0] == 'const':
                    try:
                        return o[1][idx[1]]
                    except (KeyError, IndexError, TypeError):
                        raise Undecided('lookup of {!r} fails in {}'.format(idx[1], unparse(node.value)[:40]))
                raise Undecided('concrete container indexed by a symbolic value: {}'.format(unparse(node)[:60]))
            if o is not None and o[0] in ('list', 'tuple'):
                lo, hi, step = (self.ev(x, st) for x in (node.slice.lower, node.slice.upper, node.slice.step))
                if all(x[0] == 'const' for x in (lo, hi, step)):
                    return self.alloc(st, o[0], o[1][slice(lo[1], hi[1], step[1])], node)
            return ('unknown', unparse(node))
        if isinstance(node, ast.BinOp):
            a, b = self.ev(node.left, st), self.ev(node.right, st)
            oa, ob = self.obj(st, a), self.obj(st, b)
            if isinstance(node.op, ast.Add) and oa is not None and ob is not None and oa[0] == ob[0] and oa[0] in ('list', 'tuple'):
                return self.alloc(st, oa[0], list(oa[1]) + list(ob[1]), node)
            if isinstance(node.op, ast.Mult) and oa is not None and oa[0] in ('list', 'tuple') and b[0] == 'const' and isinstance(b[1], int):
                return self.alloc(st, oa[0], list(oa[1]) * b[1], node)
            if a[0] == 'const' and b[0] == 'const':
                try:
                    return ('const', ast.literal_eval(ast.Expression(body=ast.BinOp(left=ast.Constant(value=a[1]), op=node.op, right=ast.Constant(value=b[1])))))
                except Exception:
                    pass
            if oa is not None or ob is not None:
                raise Undecided('operator on a concrete container: {}'.format(unparse(node)[:60]))
            return ('unknown', unparse(node))
        if isinstance(node, ast.Lambda):
            i = next(self.ids)
            self.closures[i] = (node, dict(st.env))
            return ('closure', i)
        if isinstance(node, (ast.ListComp, ast.GeneratorExp)):
            return self.comprehension(node, st)
        if isinstance(node, ast.DictComp):
            return self.dictcomp(node, st)
        if isinstance(node, ast.Call):
            return self.call(node, st)
        if isinstance(node, ast.Attribute):
            base = self.ev(node.value, st)
            if self.obj(st, base) is not None:
                return ('bound', base, node.attr)
            return ('unknown', unparse(node))
        if isinstance(node, ast.Starred):
            raise Undecided('starred expression outside a call / display')
        return ('unknown', unparse(node))

    def test(self, node, st):
        """True / False / None"""
        if isinstance(node, ast.UnaryOp) and isinstance(node.op, ast.Not):
            t = self.test(node.operand, st)
            return None if t is None else not t
        if isinstance(node, ast.BoolOp):
            ts = [self.test(v, st) for v in node.values]
            if isinstance(node.op, ast.And):
                return False if any(t is False for t in ts) else (True if all(t is True for t in ts) else None)
            return True if any(t is True for t in ts) else (False if all(t is False for t in ts) else None)
        if isinstance(node, ast.Compare) and len(node.ops) == 1:
            a, b = self.ev(node.left, st), self.ev(node.comparators[0], st)
            op = node.ops[0]
            if isinstance(op, (ast.Is, ast.IsNot, ast.Eq, ast.NotEq)):
                for x, y in ((a, b), (b, a)):
                    if y == ('const', None):
                        t = self.is_none(st, x)
                        if t is None:
                            return None
                        return t if isinstance(op, (ast.Is, ast.Eq)) else not t
                if a[0] == 'const' and b[0] == 'const':
                    r = a[1] == b[1]
                    return r if isinstance(op, (ast.Is, ast.Eq)) else not r
                if isinstance(op, (ast.Is, ast.IsNot)) and a[0] in ('func', 'ref') and b[0] in ('func', 'ref'):
                    return (a == b) if isinstance(op, ast.Is) else (a != b)
                return None
            if isinstance(op, (ast.In, ast.NotIn)):
                o = self.obj(st, b)
                if o is not None and a[0] in ('const', 'func'):
                    keys = list(o[1]) if o[0] != 'dict' else [('const', k) for k in o[1]]
                    if all(k[0] in ('const', 'func') for k in keys):
                        r = a in keys
                        return r if isinstance(op, ast.In) else not r
                return None
            if a[0] == 'const' and b[0] == 'const':
                try:
                    return {ast.Lt: a[1] < b[1], ast.LtE: a[1] <= b[1], ast.Gt: a[1] > b[1], ast.GtE: a[1] >= b[1]}[type(op)]
                except Exception:
                    return None
            return None
        return self.truth(st, self.ev(node, st))

    def sequence(self, st, v, node):
        """Concrete element list of an abstract iterable."""
        o = self.obj(st, v)
        if o is not None:
            if o[0] in ('list', 'tuple'):
                return list(o[1])
            return [('const', k) for k in o[1]]
        if v[0] == 'seq':
            return list(v[1])
        raise Undecided('iteration over a value that is not a concrete sequence: {}'.format(unparse(node)[:60] if isinstance(node, ast.AST) else show(v)))

    @staticmethod
    def _free_truth(node, st):
        """Is the assigned value the truthiness of an argument the caller supplies (`bool(labels)`, `not labels`)?  Both outcomes
        are then possible whatever the option was, so the evaluation goes on with an unknown flag instead of giving up."""
        val = getattr(node, 'value', None) if isinstance(node, ast.Assign) else None
        if isinstance(val, ast.UnaryOp) and isinstance(val.op, ast.Not):
            val = val.operand
        elif isinstance(val, ast.Call) and isinstance(val.func, ast.Name) and val.func.id == 'bool' and len(val.args) == 1 and not val.keywords \
                and 'bool' not in st.env:
            val = val.args[0]
        else:
            return False
        if not isinstance(val, ast.Name):
            return False
        cur = st.env.get(val.id)
        if isinstance(cur, tuple) and len(cur) == 4 and cur[0] == 'choice':
            # `labels = labels if labels is not None else {}`: on the path where the caller supplied the table it is the caller's
            return ('param', val.id) in (cur[2], cur[3])
        return cur == ('param', val.id)

    def bind(self, target, v, st, node):
        if isinstance(target, ast.Name):
            if self.depth == 0 and target.id == getattr(self, 'flag', None) and v[0] != 'const' and not self._free_truth(node, st):
                # the option the two evaluations differ in is recomputed into something that is not followed
                raise Undecided('the `{}` option is rebound to a value that is not followed: {}'.format(target.id, show(v)))
            st.env[target.id] = v
        elif isinstance(target, (ast.Tuple, ast.List)):
            if any(isinstance(e, ast.Starred) for e in target.elts):
                raise Undecided('starred assignment target')
            if v[0] in ('items', 'unknown', 'param', 'module'):
                for e in target.elts:
                    self.bind(e, ('unknown', show(v)), st, node)
                return
            elts = self.sequence(st, v, node)
            if len(elts) != len(target.elts):
                raise Undecided('unpacking {} values into {} targets'.format(len(elts), len(target.elts)))
            for e, x in zip(target.elts, elts):
                self.bind(e, x, st, node)
        elif isinstance(target, ast.Subscript):
            o = self.obj(st, self.ev(target.value, st))
            if o is None:
                base = self.ev(target.value, st)
                if base[0] in ('param', 'module', 'choice'):
                    raise Undecided('assemble stores into a table itself: {}'.format(unparse(target)[:60]))
                return
            idx = self.ev(target.slice, st)
            if idx[0] != 'const':
                raise Undecided('store into a concrete container at a symbolic index')
            try:
                o[1][idx[1]] = v
            except Exception:
                raise Undecided('store into a concrete container fails: {}'.format(unparse(target)[:60]))
        elif isinstance(target, ast.Attribute):
            return
        else:
            raise Undecided('assignment target {}'.format(unparse(target)[:40]))

    def comprehension(self, node, st):
        if len(node.generators) != 1:
            raise Undecided('nested comprehension')
        g = node.generators[0]
        it = self.ev(g.iter, st)
        if it[0] in ('items', 'unknown', 'param', 'module') or (it[0] == 'choice'):
            # element-wise processing of opaque data: calls on the elements are recorded as mapped calls
            inner = st.clone()
            self.bind(g.target, ('unknown', 'element of ' + show(it)), inner, node)
            n0 = len(inner.calls)
            self.ev(node.elt, inner)
            for c in inner.calls[n0:]:
                c.mapped = True
                st.calls.append(c)
            return ('items', 'comp@{}'.format(getattr(node, 'lineno', 0)), it if it[0] == 'items' else None)      # (.., the list it was derived from)
        out = []
        saved = dict(st.env)
        for x in self.sequence(st, it, g.iter):
            self.bind(g.target, x, st, node)
            keep = True
            for c in g.ifs:
                t = self.test(c, st)
                if t is None:
                    raise Undecided('comprehension filter not decidable: {}'.format(unparse(c)[:60]))
                keep = keep and t
            if keep:
                out.append(self.ev(node.elt, st))
        names = {n.id for n in ast.walk(g.target) if isinstance(n, ast.Name)}
        for n in names:
            if n in saved:
                st.env[n] = saved[n]
            else:
                st.env.pop(n, None)
        return self.alloc(st, 'list', out, node)

    def dictcomp(self, node, st):
        if len(node.generators) != 1:
            raise Undecided('nested comprehension')
        g = node.generators[0]
        it = self.ev(g.iter, st)
        out = {}
        saved = dict(st.env)
        for x in self.sequence(st, it, g.iter):
            self.bind(g.target, x, st, node)
            if all(self.test(c, st) for c in g.ifs):
                k = self.ev(node.key, st)
                if k[0] != 'const':
                    raise Undecided('dict comprehension with symbolic keys')
                out[k[1]] = self.ev(node.value, st)
        st.env = saved
        return self.alloc(st, 'dict', out, node)

    # -- calls ------------------------------------------------------------------------------------------------------------
    def call_args(self, node, st):
        args = []
        for a in node.args:
            if isinstance(a, ast.Starred):
                args.extend(self.sequence(st, self.ev(a.value, st), a))
            else:
                args.append(self.ev(a, st))
        kwargs = {}
        for k in node.keywords:
            v = self.ev(k.value, st)
            if k.arg is None:
                o = self.obj(st, v)
                if o is None or o[0] != 'dict':
                    raise Undecided('**kwargs from a non-concrete mapping')
                kwargs.update(o[1])
            else:
                kwargs[k.arg] = v
        return args, kwargs

    def call(self, node, st):
        f = node.func
        # methods of concrete containers
        if isinstance(f, ast.Attribute):
            base = self.ev(f.value, st)
            o = self.obj(st, base)
            if o is not None:
                args, kwargs = self.call_args(node, st)
                return self.method(st, base, o, f.attr, args, node)
            d = dotted(f)
            if d in ('functools.partial',):
                args, kwargs = self.call_args(node, st)
                return ('partial', args[0], tuple(args[1:]), tuple(sorted(kwargs.items())))
            args, kwargs = self.call_args(node, st)
            if base[0] in ('items',) or any(a[0] == 'items' for a in args):
                return ('items', 'via {}@{}'.format(f.attr, getattr(node, 'lineno', 0)), base if base[0] == 'items' else next(a for a in args if a[0] == 'items'))
            return ('unknown', unparse(node)[:60])
        fv = self.ev(f, st)
        args, kwargs = self.call_args(node, st)
        return self.apply(fv, args, kwargs, st, node)

    def method(self, st, base, o, name, args, node):
        kind, payload = o[0], o[1]
        if kind == 'list':
            if name == 'append' and len(args) == 1:
                payload.append(args[0])
                return ('const', None)
            if name == 'extend' and len(args) == 1:
                payload.extend(self.sequence(st, args[0], node))
                return ('const', None)
            if name == 'insert' and len(args) == 2 and args[0][0] == 'const':
                payload.insert(args[0][1], args[1])
                return ('const', None)
            if name == 'copy' and not args:
                return self.alloc(st, 'list', list(payload), node)
        if kind in ('list', 'tuple') and name == 'index' and len(args) == 1 and args[0] in payload:
            return ('const', payload.index(args[0]))
        if kind == 'dict':
            if name == 'get' and args and args[0][0] == 'const':
                return payload.get(args[0][1], args[1] if len(args) > 1 else ('const', None))
            if name == 'items' and not args:
                return ('seq', [self.alloc(st, 'tuple', [('const', k), v], node) for k, v in payload.items()])
            if name == 'values' and not args:
                return ('seq', list(payload.values()))
            if name == 'keys' and not args:
                return ('seq', [('const', k) for k in payload])
            if name == 'update' and len(args) == 1:
                src = self.obj(st, args[0])
                if src is not None and src[0] == 'dict':
                    payload.update(src[1])
                    return ('const', None)
            if name == 'setdefault' and len(args) == 2 and args[0][0] == 'const':
                return payload.setdefault(args[0][1], args[1])
            if name == 'copy' and not args:
                return self.alloc(st, 'dict', dict(payload), node)
        raise Undecided('method .{}() of a concrete {} is not modelled'.format(name, kind))

    def apply(self, fv, args, kwargs, st, node):
        k = fv[0]
        if k == 'partial':
            return self.apply(fv[1], list(fv[2]) + list(args), dict(dict(fv[3]), **kwargs), st, node)
        if k == 'builtin':
            return self.builtin(fv[1], args, kwargs, st, node)
        if k == 'module' and fv[1] == 'partial':
            return ('partial', args[0], tuple(args[1:]), tuple(sorted(kwargs.items())))
        if k == 'closure':
            fn, env = self.closures[fv[1]]
            return self.inline(fn, env, args, kwargs, st, node, name='<closure>')
        if k == 'func':
            fn = self.facts.funcs[fv[1]]
            snapshot = (dict(st.env), st.clone(), len(st.calls))
            if self.depth < self.MAX_DEPTH:
                self.stack.append(fv[1])
                self.site_stack.append(node)
                try:
                    return self.inline(fn, {}, args, kwargs, st, node, name=fv[1])
                except (Undecided, KeyError, IndexError, TypeError, AttributeError, ValueError, RecursionError):
                    # outside the fragment: an opaque call (a real pass, a reader, ...)
                    st.env, st.heap, st.calls = snapshot[0], snapshot[1].heap, st.calls[:snapshot[2]]
                    st.status, st.value = None, None
                finally:
                    self.stack.pop()
                    self.site_stack.pop()
            # f(x, p=y) with p the next positional parameter is f(x, y): the recorded call lists such arguments by position
            pos_args, kw_args = list(args), dict(kwargs)
            if not fn.args.vararg:
                for pname in [p.arg for p in fn.args.posonlyargs + fn.args.args][len(pos_args):]:
                    if pname not in kw_args:
                        break
                    pos_args.append(kw_args.pop(pname))
            c = PassCall(fv[1], pos_args, kw_args, node)
            c.via = tuple(self.stack)
            c.via_sites = tuple(id(n) for n in self.site_stack)
            c.result = ('items', next(self.ids))
            st.calls.append(c)
            return c.result
        if k == 'choice':
            raise Undecided('call of a conditionally chosen function: {}'.format(show(fv)))
        if k == 'class':
            return ('unknown', 'instance of ' + fv[1])
        if any(a[0] == 'items' for a in args):
            return ('items', 'via {}@{}'.format(show(fv), getattr(node, 'lineno', 0)), next(a for a in args if a[0] == 'items'))
        return ('unknown', unparse(node)[:60] if isinstance(node, ast.AST) else show(fv))

    def builtin(self, name, args, kwargs, st, node):
        if name in ('list', 'tuple') and len(args) <= 1:
            if not args:
                return self.alloc(st, name, [], node)
            if args[0][0] in ('items', 'unknown', 'param'):
                return args[0] if args[0][0] == 'items' else ('unknown', name)
            return self.alloc(st, name, self.sequence(st, args[0], node), node)
        if name == 'dict':
            if not args:
                return self.alloc(st, 'dict', dict(kwargs), node)
            o = self.obj(st, args[0])
            if o is not None and o[0] == 'dict':
                return self.alloc(st, 'dict', dict(o[1], **kwargs), node)
            raise Undecided('dict(...) of a non-concrete value')
        if name in ('set', 'frozenset') and not args:
            return self.alloc(st, 'list', [], node)
        if name in ('bool', 'int') and len(args) == 1 and not kwargs and args[0][0] == 'const' and isinstance(args[0][1], (bool, int)):
            return ('const', bool(args[0][1]) if name == 'bool' else int(args[0][1]))
        if name == 'len' and len(args) == 1:
            o = self.obj(st, args[0])
            return ('const', len(o[1])) if o is not None else ('unknown', 'len')
        if name == 'enumerate' and args:
            start = args[1] if len(args) > 1 else kwargs.get('start', ('const', 0))
            if start[0] != 'const':
                raise Undecided('enumerate with symbolic start')
            return ('seq', [self.alloc(st, 'tuple', [('const', i), x], node) for i, x in enumerate(self.sequence(st, args[0], node), start[1])])
        if name == 'zip':
            seqs = [self.sequence(st, a, node) for a in args]
            return ('seq', [self.alloc(st, 'tuple', list(t), node) for t in zip(*seqs)])
        if name == 'reversed' and len(args) == 1:
            return ('seq', list(reversed(self.sequence(st, args[0], node))))
        if name == 'bool' and len(args) == 1 and not kwargs:
            t = self.truth(st, args[0])
            return ('const', t) if t is not None else ('unknown', 'bool')
        if name == 'isinstance':
            return ('unknown', 'isinstance')
        if name == 'getattr' and len(args) >= 2:
            return ('unknown', 'getattr')
        if any(a[0] == 'items' for a in args):
            return ('items', 'via {}@{}'.format(name, getattr(node, 'lineno', 0)), next(a for a in args if a[0] == 'items'))
        return ('unknown', name)

    def inline(self, fn, closure_env, args, kwargs, st, node, name):
        a = fn.args
        if isinstance(fn, ast.Lambda):
            body = [ast.copy_location(ast.Return(value=fn.body), fn.body)]
        else:
            body = fn.body
            if fn.decorator_list:
                raise Undecided('decorated helper {}'.format(name))
        params = [p.arg for p in a.posonlyargs + a.args]
        env = dict(closure_env)
        rest = list(args)
        for p in params:
            if rest:
                env[p] = rest.pop(0)
        if rest:
            if not a.vararg:
                raise Undecided('too many arguments for {}'.format(name))
            env[a.vararg.arg] = self.alloc(st, 'tuple', rest, node)
        elif a.vararg:
            env[a.vararg.arg] = self.alloc(st, 'tuple', [], node)
        extra = {}
        allnames = set(params) | {p.arg for p in a.kwonlyargs}
        for k, v in kwargs.items():
            if k in allnames:
                env[k] = v
            elif a.kwarg:
                extra[k] = v
            else:
                raise Undecided('unexpected keyword {} for {}'.format(k, name))
        if a.kwarg:
            env[a.kwarg.arg] = self.alloc(st, 'dict', extra, node)
        defaults = dict(zip(params[len(params) - len(a.defaults):], a.defaults))
        for p, d in zip(a.kwonlyargs, a.kw_defaults):
            if d is not None:
                defaults[p.arg] = d
        for p in params + [p.arg for p in a.kwonlyargs]:
            if p not in env or (p in closure_env and p not in params[:len(args)] and p not in kwargs):
                if p in defaults:
                    dv = self.ev(defaults[p], State())
                    if dv[0] == 'ref':
                        raise Undecided('mutable default argument in helper {}'.format(name))
                    env[p] = dv
                elif p not in env:
                    raise Undecided('missing argument {} for {}'.format(p, name))
        caller_env = st.env
        st.env = env
        self.depth += 1
        try:
            finals = self.block(body, [st])
        finally:
            self.depth -= 1
        if not finals:
            raise Undecided('helper {} never returns'.format(name))
        live = [s for s in finals if s.status != 'raise']
        if not live:
            raise Undecided('helper {} always raises'.format(name))
        # join: the call is an expression, its outcomes must agree on everything but the returned value
        first = live[0]
        for s in live[1:]:
            if [(c.name, c.args) for c in s.calls] != [(c.name, c.args) for c in first.calls]:
                raise Undecided('helper {} makes different calls on different paths'.format(name))
            for i, o in s.heap.items():
                if i in first.heap and first.heap[i][:2] != o[:2]:
                    raise Undecided('helper {} leaves different container contents on different paths'.format(name))
                first.heap.setdefault(i, o)
        vals = [s.value if s.status == 'return' and s.value is not None else ('const', None) for s in live]
        val = vals[0]
        for i, v in enumerate(vals[1:], 1):
            if v != val:
                val = ('choice', 'path of {}'.format(name), val, v)
        st.heap = first.heap
        st.calls = first.calls
        st.env = caller_env
        st.status = None
        st.value = None
        return val

    # -- statements -------------------------------------------------------------------------------------------------------
    def block(self, body, states):
        """Run the statement list on every live state; returns all states (live ones have status None)."""
        done = []
        live = list(states)
        for node in body:
            nxt = []
            for s in live:
                for r in self.stmt(node, s):
                    (nxt if r.status is None else done).append(r)
            live = nxt
            if len(live) + len(done) > self.MAX_STATES:
                raise Undecided('too many undecidable branches')
            if not live:
                break
        return done + live

    MUTATORS = ('pop', 'remove', 'append', 'insert', 'extend', 'clear', 'sort', 'reverse', '__delitem__', '__setitem__')

    def item_mutations(self, node, st):
        """In-place changes, inside `node`, of a variable that holds the running item list."""
        def is_items(name):
            v = st.env.get(name)
            return isinstance(v, tuple) and v and v[0] in ('items', 'ref') and self.obj(st, v) is None
        out = []
        for n in ast.walk(node):
            tgt = None
            if isinstance(n, ast.Call) and isinstance(n.func, ast.Attribute) and isinstance(n.func.value, ast.Name) and n.func.attr in self.MUTATORS:
                tgt = n.func.value.id
            elif isinstance(n, ast.Delete):
                for t in n.targets:
                    if isinstance(t, ast.Subscript) and isinstance(t.value, ast.Name):
                        tgt = t.value.id
            elif isinstance(n, (ast.Assign, ast.AugAssign)):
                for t in (n.targets if isinstance(n, ast.Assign) else [n.target]):
                    if isinstance(t, ast.Subscript) and isinstance(t.value, ast.Name):
                        tgt = t.value.id
            if tgt is not None and is_items(tgt):
                out.append((n, ' '.join(unparse(n).split())[:60], len(st.calls)))
        return out

    def stmt(self, node, st):
        if self.depth == 0 and isinstance(node, (ast.Expr, ast.Delete, ast.Assign, ast.AugAssign, ast.While)):
            st.mutations.extend(self.item_mutations(node, st))
        if isinstance(node, ast.Delete):
            return [st]
        if isinstance(node, ast.While):
            # a loop whose trip count is not known: it must not drive the pipeline (no pass call inside); what it assigns is unknown
            probe = st.clone()
            n0 = len(probe.calls)
            try:
                res = self.block(node.body, [probe])
            except Undecided:
                raise Undecided('statement form While in the pipeline: {}'.format(unparse(node).split('\n')[0][:60]))
            if any(len(r.calls) != n0 for r in res):
                raise Undecided('a pass is called inside a while loop: {}'.format(unparse(node.test)[:40]))
            for n in ast.walk(node):
                if isinstance(n, ast.Name) and isinstance(n.ctx, ast.Store):
                    st.env[n.id] = ('unknown', n.id)
            return [st]
        if isinstance(node, ast.Expr):
            if not isinstance(node.value, ast.Constant):
                n0 = len(st.calls)
                v = self.ev(node.value, st)
                for c in st.calls[n0:]:
                    if c.result == v:
                        c.discarded = True        # an expression statement: whatever the call returns is dropped
            return [st]
        if isinstance(node, ast.Assign):
            v = self.ev(node.value, st)
            for t in node.targets:
                self.bind(t, v, st, node)
            return [st]
        if isinstance(node, ast.AugAssign):
            if isinstance(node.target, ast.Name):
                cur = st.env.get(node.target.id, ('unknown', node.target.id))
                o = self.obj(st, cur)
                rhs = self.ev(node.value, st)
                if o is not None and o[0] == 'list' and isinstance(node.op, ast.Add):
                    o[1].extend(self.sequence(st, rhs, node))
                    return [st]
                if o is not None and o[0] == 'tuple' and isinstance(node.op, ast.Add):
                    st.env[node.target.id] = self.alloc(st, 'tuple', list(o[1]) + self.sequence(st, rhs, node), node)
                    return [st]
                if o is not None:
                    raise Undecided('augmented assignment on a concrete container: {}'.format(unparse(node)[:60]))
                st.env[node.target.id] = ('unknown', unparse(node)[:40])
            return [st]
        if isinstance(node, ast.If):
            t = self.test(node.test, st)
            if t is True:
                return self.block(node.body, [st])
            if t is False:
                return self.block(node.orelse, [st])
            a, b = st, st.clone()
            text = ' '.join(unparse(node.test).split())
            a.assumed.append((text, True))
            b.assumed.append((text, False))
            return self.block(node.body, [a]) + self.block(node.orelse, [b])
        if isinstance(node, ast.Return):
            st.value = self.ev(node.value, st)
            st.status = 'return'
            return [st]
        if isinstance(node, ast.Raise):
            st.status = 'raise'
            return [st]
        if isinstance(node, (ast.Pass, ast.Assert, ast.Import, ast.ImportFrom)):
            if isinstance(node, (ast.Import, ast.ImportFrom)):
                for a in node.names:
                    st.env[(a.asname or a.name).split('.')[0]] = ('module', a.asname or a.name)
            return [st]
        if isinstance(node, ast.FunctionDef):
            i = next(self.ids)
            self.closures[i] = (node, st.env)     # late binding: the closure sees later assignments of the enclosing scope
            st.env[node.name] = ('closure', i)
            return [st]
        if isinstance(node, ast.For):
            it = self.ev(node.iter, st)
            if it[0] in ('items', 'unknown', 'param', 'module', 'choice') and self.obj(st, it) is None:
                # a loop over opaque data (logging the parsed items): it must not drive the pipeline; inside a helper it means
                # the helper works on the data itself, i.e. it is a pass / reader and stays an opaque call
                if self.depth > 0:
                    raise Undecided('loop over opaque data inside a helper')
                probe = st.clone()
                self.bind(node.target, ('unknown', 'element'), probe, node)
                n0 = len(probe.calls)
                res = self.block(node.body, [probe])
                if any(len(r.calls) != n0 for r in res):
                    raise Undecided('a pass is called inside a loop over data: {}'.format(unparse(node.iter)[:40]))
                for n in ast.walk(node):
                    if isinstance(n, ast.Name) and isinstance(n.ctx, ast.Store):
                        st.env[n.id] = ('unknown', n.id)
                return [st]
            live = [st]
            out = []
            for x in self.sequence(st, it, node.iter):
                nxt = []
                for s in live:
                    self.bind(node.target, x, s, node)
                    for r in self._loop_body(node.body, s):
                        if r.status == 'continue':
                            r.status = None
                            nxt.append(r)
                        elif r.status == 'break':
                            r.status = None
                            out.append(r)
                        elif r.status is None:
                            nxt.append(r)
                        else:
                            out.append(r)
                live = nxt
                if len(live) > self.MAX_STATES:
                    raise Undecided('too many undecidable branches')
            if node.orelse:
                live = self.block(node.orelse, live)
            return out + live
        if isinstance(node, (ast.Continue, ast.Break)):
            st.status = 'continue' if isinstance(node, ast.Continue) else 'break'
            return [st]
        if isinstance(node, ast.With):
            for item in node.items:
                v = self.ev(item.context_expr, st)
                if item.optional_vars is not None:
                    self.bind(item.optional_vars, ('unknown', show(v)), st, node)
            return self.block(node.body, [st])
        if isinstance(node, ast.Try):
            # the normal path: body, else, finally (handlers only run when something raised)
            res = self.block(node.body, [st])
            out = []
            for r in res:
                if r.status is None and node.orelse:
                    out.extend(self.block(node.orelse, [r]))
                else:
                    out.append(r)
            if node.finalbody:
                fin = []
                for r in out:
                    status, value = r.status, r.value
                    r.status = None
                    for q in self.block(node.finalbody, [r]):
                        if q.status is None:
                            q.status, q.value = status, value
                        fin.append(q)
                out = fin
            return out
        raise Undecided('statement form {} in the pipeline: {}'.format(type(node).__name__, unparse(node).split('\n')[0][:60]))

    def _loop_body(self, body, st):
        return self.block(body, [st])


class Pipeline:
    """paths[compress] = [[PassCall, ...], ...] for compress in (False, True)."""

    def __init__(self, facts, entry='assemble', flag='compress'):
        fn = facts.funcs.get(entry)
        if fn is None:
            raise AnalysisError('anchor vanished: {}'.format(entry))
        self.fn = fn
        self.facts = facts
        self.paths = {}
        params = [a.arg for a in fn.args.posonlyargs + fn.args.args + fn.args.kwonlyargs]
        if flag not in params:
            raise AnalysisError('{}: no `{}` parameter'.format(entry, flag))
        self.defaults = dict(zip([a.arg for a in fn.args.args][len(fn.args.args) - len(fn.args.defaults):], fn.args.defaults))
        for a, d in zip(fn.args.kwonlyargs, fn.args.kw_defaults):
            if d is not None:
                self.defaults[a.arg] = d
        for value in (False, True):
            ev = Evaluator(facts)
            ev.flag = flag
            st = State()
            for p in params:
                st.env[p] = ('param', p)
            st.env[flag] = ('const', value)
            try:
                finals = ev.block(fn.body, [st])
            except Undecided as e:
                raise AnalysisError('pipeline of {}: {}'.format(entry, e))
            seqs = []
            rets = []
            for s in finals:
                if s.status == 'raise':
                    continue
                calls = [c for c in s.calls]
                for i, c in enumerate(calls):
                    c.index = i
                seqs.append(calls)
                rets.append(s.value if s.status == 'return' else None)
                self.__dict__.setdefault('assumed', {}).setdefault(value, []).append(list(s.assumed))
                self.__dict__.setdefault('mutations', {}).setdefault(value, []).append(list(s.mutations))
            self.__dict__.setdefault('returned', {})[value] = rets
            if not seqs:
                raise AnalysisError('pipeline of {}: no path returns'.format(entry))
            self.paths[value] = seqs

    def all_paths(self):
        for value in (False, True):
            for calls in self.paths[value]:
                yield value, calls

    def all_paths_with_assumptions(self):
        for value in (False, True):
            for calls, asm in zip(self.paths[value], self.assumed[value]):
                yield value, calls, asm

    def all_paths_with_result(self):
        for value in (False, True):
            for calls, ret in zip(self.paths[value], self.returned[value]):
                yield value, calls, ret

    def passes(self, calls):
        """The calls that take the running item list (the first argument is the result of an earlier recorded call)."""
        out = []
        for c in calls:
            if c.mapped:
                continue
            if any(a[0] == 'items' for a in c.args):
                out.append(c)
        return out

    def table_of(self, calls, pass_name, position=1):
        """Abstract value handed to `pass_name` at the given argument position on this path, or None."""
        for c in calls:
            if c.named(pass_name) and not c.mapped and len(c.args) > position:
                return c.args[position]
        return None


def derived_from(v, source):
    """Is the item-list value `v` the list `source`, or obtained from it through expressions that were not followed (an element-wise
    comprehension, a builtin / method applied to it)?"""
    while isinstance(v, tuple) and v and v[0] == 'items':
        if v == source:
            return True
        if len(v) < 3 or v[2] is None:
            return False
        v = v[2]
    return v == source


def origins(v):
    """Leaves of a choice tree."""
    if v[0] == 'choice':
        return origins(v[2]) + origins(v[3])
    return [v]
